(* C03 monitor runner.
   h <raised 0|1> <v> <code> <label|N> <gfx> <gff> <map> <sfx> <music>  <v'> <code'> <label'|N> <gfx'> <gff'> <map'> <sfx'> <music'> <file1> <file2>
       -> true | false
   s <raised 0|1> <v> <code> <label|N> <gfx> <gff> <map> <sfx> <music>  <v'> <code'> <label'|N> <gfx'> <gff'> <map'> <sfx'> <music'>
       -> true | false      (holds_C03_short: the first cart holds only the rows a short-section file spells out)
   hl <line> -> true | false      (header_like)
   cf <code> -> true | false      (code_in_format) *)
let label_of s = if s = "N" then None else Some (bytes_of_hex s)
let mk v code lbl gfx gff map sfx music =
  { pc_version = z_of_str v; pc_code = bytes_of_hex code; pc_gfx = bytes_of_hex gfx; pc_label = label_of lbl;
    pc_gff = bytes_of_hex gff; pc_map = bytes_of_hex map; pc_sfx = bytes_of_hex sfx; pc_music = bytes_of_hex music }
let b x = if x then "true" else "false"
let handle fields =
  match fields with
  | ["h"; raised; v; code; lbl; gfx; gff; map; sfx; music; v2; code2; lbl2; gfx2; gff2; map2; sfx2; music2; f1; f2] ->
    b (holds_C03 (mk v code lbl gfx gff map sfx music) (raised = "1") (mk v2 code2 lbl2 gfx2 gff2 map2 sfx2 music2)
         (bytes_of_hex f1) (bytes_of_hex f2))
  | ["s"; raised; v; code; lbl; gfx; gff; map; sfx; music; v2; code2; lbl2; gfx2; gff2; map2; sfx2; music2] ->
    b (holds_C03_short (mk v code lbl gfx gff map sfx music) (raised = "1") (mk v2 code2 lbl2 gfx2 gff2 map2 sfx2 music2))
  | ["hl"; l] -> b (header_like (bytes_of_hex l))
  | ["cf"; c] -> b (code_in_format (bytes_of_hex c))
  | _ -> failwith "bad request"

let () = main_loop handle
