(* C06 model runner.
   echo <chunks>       chunks = "." (no chunk) or hex|hex|... ("-" = empty chunk)
     -> OK <line|line|...>  ("." = no line; "-" = empty line)   |  ERR <name>
   code <quotehex> <datahex>   -> TokString.code of the quoted string with that data *)
let chunks_of s = if s = "." then [] else List.map bytes_of_hex (String.split_on_char '|' s)
let handle fields =
  match fields with
  | ["echo"; cs] ->
    (match echo_source (chunks_of cs) with
     | Ok ls -> "OK " ^ (match ls with [] -> "." | _ -> String.concat "|" (List.map hex_of_bytes ls))
     | Err e -> "ERR " ^ err_name e)
  | ["code"; q; d] -> hex_of_bytes (reencode (bytes_of_hex q) (bytes_of_hex d))
  | _ -> failwith "bad request"
let () = main_loop handle
