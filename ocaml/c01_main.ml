(* C01 / C19 model runner.
   chunks: "." (no chunk) or hex|hex|... ("-" = empty chunk).   keep file: N | hex content.
   min <keep_all 0/1> <keep file> <source chunks>   lexer model, then writer model
        -> OK <yielded chunks> | ERR <name>
   toks <keep_all 0/1> <keep file> <tokens>         tokens = "." or k:codehex;k:codehex;... (k = class number
        0 space 1 newline 2 comment 3 string 4 number 5 name 6 label 7 keyword 8 symbol): writer model only
        -> OK <yielded chunks> | ERR <name>
   cart <keep_all 0/1> <keep file> <source chunks>  lexer model, writer model, __lua__ text of the .p8 writer -> OK <hex> | ERR
   fuses <prevhex> <codehex>                        -> 0 | 1 *)
let chunks_of s = if s = "." then [] else List.map bytes_of_hex (String.split_on_char '|' s)
let str_of_chunks cs = match cs with [] -> "." | _ -> String.concat "|" (List.map hex_of_bytes cs)
let kind_of_int n = match n with
  | 0 -> KSpace | 1 -> KNewline | 2 -> KComment | 3 -> KString | 4 -> KNumber | 5 -> KName
  | 6 -> KLabel | 7 -> KKeyword | 8 -> KSymbol | _ -> failwith "bad kind"
let cfg_of ka kf = mk_config (ka = "1") (if kf = "N" then None else Some (bytes_of_hex kf))
let answer r = match r with Ok cs -> "OK " ^ str_of_chunks cs | Err e -> "ERR " ^ err_name e
let handle fields =
  match fields with
  | ["min"; ka; kf; cs] ->
    (match model_lex (chunks_of cs) with
     | Ok ts -> answer (minify (cfg_of ka kf) ts)
     | Err e -> "ERR " ^ err_name e)
  | ["cart"; ka; kf; cs] ->
    (match luamin_cart_text (cfg_of ka kf) (chunks_of cs) with
     | Ok t -> "OK " ^ hex_of_bytes t
     | Err e -> "ERR " ^ err_name e)
  | ["toks"; ka; kf; ts] ->
    let ts = if ts = "." then [] else
      List.map (fun s -> match String.split_on_char ':' s with
                         | [k; c] -> (kind_of_int (int_of_string k), bytes_of_hex c)
                         | _ -> failwith "bad token") (String.split_on_char ';' ts) in
    answer (minify_gen (cfg_of ka kf) ts)
  | ["fuses"; p; c] -> if fuses (bytes_of_hex p) (bytes_of_hex c) then "1" else "0"
  | _ -> failwith "bad request"
let () = main_loop handle
