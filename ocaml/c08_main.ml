(* C08 model runner.
   parse <tokens>   ->  OK <end> <tree>   |   ERR <name> *)
let handle fields =
  match fields with
  | ["parse"; toks] ->
    (match lua_parse (tokens_of_str toks) with
     | Ok (t, e) -> "OK " ^ str_of_z e ^ " " ^ str_of_tree t
     | Err e -> "ERR " ^ err_name e)
  | _ -> failwith "bad request"

let () = main_loop handle
