(* C10 monitor runner (Instances/HoldsC10.v over Spec/FmtShape.v).
   hold <w> <in1> <in2> <out1> <out2> <out1'>   -> true | false
   code <w> <in1> <in2> <out1> <out2> <out1'>   -> verdict (see HoldsC10.v)
   shape <w> <out>                              -> true | false
   scode <w> <out>                              -> verdict
   link <src> <off:indent,off:indent,...>       -> NONE | mismatching offsets (- = none)   (informative, see HoldsC10.v)
   lex <text>                                   -> NONE | kind.hex,kind.hex,...   (reference reader, for diagnostics) *)
let handle fields =
  match fields with
  | ["hold"; w; a; b; c; d; e] ->
    string_of_bool (holds_C10 (z_of_str w) (bytes_of_hex a) (bytes_of_hex b) (bytes_of_hex c) (bytes_of_hex d) (bytes_of_hex e))
  | ["code"; w; a; b; c; d; e] ->
    str_of_z (c10_verdict (z_of_str w) (bytes_of_hex a) (bytes_of_hex b) (bytes_of_hex c) (bytes_of_hex d) (bytes_of_hex e))
  | ["shape"; w; o] -> string_of_bool (holds_C10_shape (z_of_str w) (bytes_of_hex o))
  | ["scode"; w; o] -> str_of_z (c10_shape_verdict (z_of_str w) (bytes_of_hex o))
  | ["link"; src; obs] ->
    let pairs = if obs = "-" then [] else
      List.map (fun p -> match String.split_on_char ':' p with
                         | [a; b] -> (z_of_str a, z_of_str b)
                         | _ -> failwith "bad pair") (String.split_on_char ',' obs) in
    (match link_mismatches (bytes_of_hex src) pairs with
     | None -> "NONE"
     | Some l -> str_of_ints l)
  | ["lex"; t] ->
    (match lex (bytes_of_hex t) with
     | None -> "NONE"
     | Some ts -> (match ts with [] -> "-" | _ ->
         String.concat "," (List.map (fun (k, x) -> str_of_z (tkind_code k) ^ "." ^ hex_of_bytes x) ts)))
  | _ -> failwith "bad request"
let () = main_loop handle
