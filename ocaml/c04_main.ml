(* C04 model runner.  rows are '|'-separated hex strings.
   write <gfx> <map> <gff> <music> <sfx> <code> <version> <planes> <rows>   -> OK <rows> | ERR <name>
   read <width> <height> <planes> <rows>   -> OK <gfx> <map> <gff> <music> <sfx> <code> <version> | ERR <name>
   stego <picodata> <planes> <rows> -> OK <rows> | ERR ..     unstego <w> <h> <planes> <rows> -> OK <picodata> | ERR ..
   gbc <text>  /  gcb <codedata> <version>  as in the C05 runner *)
let rows_of_str s = if s = "-" then [] else List.map bytes_of_hex (String.split_on_char '|' s)
let str_of_rows rows = match rows with [] -> "-" | _ -> String.concat "|" (List.map hex_of_bytes rows)

let handle fields =
  match fields with
  | ["write"; g; m; f; mu; sf; code; v; planes; rows] ->
    let c = { c_gfx = bytes_of_hex g; c_map = bytes_of_hex m; c_gff = bytes_of_hex f; c_music = bytes_of_hex mu;
              c_sfx = bytes_of_hex sf; c_code = bytes_of_hex code; c_version = z_of_str v } in
    (match write_png_pixels c (z_of_str planes) (rows_of_str rows) with
     | Ok r -> "OK " ^ str_of_rows r
     | Err e -> "ERR " ^ err_name e)
  | ["read"; w; h; planes; rows] ->
    (match read_png_pixels (z_of_str w) (z_of_str h) (z_of_str planes) (rows_of_str rows) with
     | Ok c -> "OK " ^ String.concat " " [hex_of_bytes c.c_gfx; hex_of_bytes c.c_map; hex_of_bytes c.c_gff;
                                           hex_of_bytes c.c_music; hex_of_bytes c.c_sfx; hex_of_bytes c.c_code;
                                           str_of_z c.c_version]
     | Err e -> "ERR " ^ err_name e)
  | ["stego"; pd; planes; rows] ->
    (match rows_of_picodata_fast (bytes_of_hex pd) (z_of_str planes) (rows_of_str rows) with
     | Ok r -> "OK " ^ str_of_rows r
     | Err e -> "ERR " ^ err_name e)
  | ["unstego"; w; h; planes; rows] ->
    (match picodata_of_rows_fast (z_of_str w) (z_of_str h) (z_of_str planes) (rows_of_str rows) with
     | Ok r -> "OK " ^ hex_of_bytes r
     | Err e -> "ERR " ^ err_name e)
  | ["gbc"; t] ->
    (match get_bytes_from_code (bytes_of_hex t) with
     | Ok s -> "OK " ^ hex_of_bytes s
     | Err e -> "ERR " ^ err_name e)
  | ["gcb"; cd; v] ->
    (match get_code_from_bytes (bytes_of_hex cd) (z_of_str v) with
     | Ok ((n, code), cs) ->
       "OK " ^ str_of_z n ^ " " ^ hex_of_bytes code ^ " " ^ (match cs with Some c -> str_of_z c | None -> "None")
     | Err e -> "ERR " ^ err_name e)
  | _ -> failwith "bad request"

let () = main_loop handle
