(* C14 monitor runner.
   hold <cwd> <lua_path_arg|~> <lua_path_env|~> <main_path> <main_src> <path:content,...|~> <raised 0|1> <out>
        -> <verdict>    (0 holds, 100 no claim, anything else: see Instances/HoldsC14.v) *)
let pairs s =
  if s = "~" then [] else
  List.map (fun kv -> match String.split_on_char ':' kv with
                      | [k; v] -> (bytes_of_hex k, bytes_of_hex v)
                      | _ -> failwith "bad pair") (String.split_on_char ',' s)
let opt s = if s = "~" then None else Some (bytes_of_hex s)
let handle fields =
  match fields with
  | ["hold"; cwd; a; e; mp; ms; files; raised; out] ->
    str_of_z (verdict_C14 (bytes_of_hex cwd) (load_path (opt a) (opt e)) (bytes_of_hex mp) (bytes_of_hex ms)
                (pairs files) (raised = "1") (bytes_of_hex out))
  | _ -> failwith "bad request"
let () = main_loop handle
