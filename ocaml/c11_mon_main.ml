(* C11 monitor runner.
   holds <dest hex> <dest_same 0/1> <trace>   -> true|false
   safe <dest hex> <trace>                    -> true|false
   quiet <trace>                              -> true|false
   trace syntax as in c11_main.ml *)
let parse_op t =
  let n = String.length t in
  let rest = String.sub t 1 (n - 1) in
  match t.[0] with
  | 'T' -> OpenTemp (z_of_str rest)
  | 'R' -> OpenRead (bytes_of_hex rest)
  | 'W' -> (match String.split_on_char ':' rest with [p; h] -> OpenWrite (bytes_of_hex p, z_of_str h) | _ -> failwith "bad W")
  | 'w' -> (match String.split_on_char ':' rest with [h; d] -> Write (z_of_str h, z_of_str d) | _ -> failwith "bad w")
  | 'r' -> ReadAll (z_of_str rest)
  | 's' -> Seek (z_of_str rest)
  | 'c' -> Close (z_of_str rest)
  | 'X' -> Remove (bytes_of_hex rest)
  | 'M' -> (match String.split_on_char ':' rest with [p; q] -> Rename (bytes_of_hex p, bytes_of_hex q) | _ -> failwith "bad M")
  | 'E' -> EncoderDone
  | '!' -> Raise
  | _ -> failwith "bad op"
let parse_trace s = if s = "~" then [] else List.map parse_op (String.split_on_char ',' s)
let handle fields =
  match fields with
  | ["holds"; dest; same; tr] -> string_of_bool (holds_C11 (bytes_of_hex dest) (parse_trace tr) (same = "1"))
  | ["quiet"; tr] -> string_of_bool (holds_C11_quiet (parse_trace tr))
  | ["safe"; dest; tr] -> string_of_bool (safe (bytes_of_hex dest) (parse_trace tr))
  | _ -> failwith "bad request"
let () = main_loop handle
