(* C06 monitor runner.
   hold <srchex> <outhex>   -> true | false:<token index>:<reason>   (reasons: Instances/HoldsC06.v)
   relex <srchex> <outhex>  -> true | false
   err <srchex>             the implementation raised on this source -> true|false
   unesc <quote> <bodyhex>  -> S<hex> | N      (reference decoder on a string body) *)
let handle fields =
  match fields with
  | ["hold"; src; out] ->
    (match diff_C06 (bytes_of_hex src) (bytes_of_hex out) with
     | None -> "true"
     | Some (idx, why) -> "false:" ^ str_of_z idx ^ ":" ^ str_of_z why)
  | ["relex"; src; out] -> string_of_bool (holds_C06_relex (bytes_of_hex src) (bytes_of_hex out))
  | ["err"; src] -> string_of_bool (holds_C06_error (bytes_of_hex src))
  | ["unesc"; q; body] ->
    (match spec_unescape (z_of_str q) (bytes_of_hex body) with
     | Some v -> "S" ^ hex_of_bytes v
     | None -> "N")
  | _ -> failwith "bad request"
let () = main_loop handle
