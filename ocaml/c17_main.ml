(* C17 model runner.
   seq <hasgfx 0/1> <gfx> <map> <gff> <music> <sfx> <op;op;...>
     -> v1;v2;...[;ERR e] <gfx> <map> <gff> <music> <sfx>    (state after the last successful op) *)
let handle fields =
  match fields with
  | ["seq"; hasgfx; g; m; f; mu; sf; ops] ->
    let st = ref (mem_of g m f mu sf) in
    let outs = ref [] in
    let stop = ref false in
    List.iter (fun o ->
      if not !stop then
        match step_model (hasgfx = "1") !st (parse_op o) with
        | Ok (st', v) -> outs := str_of_val v :: !outs; st := st'
        | Err e -> outs := ("ERR " ^ err_name e) :: !outs; stop := true)
      (String.split_on_char ';' ops);
    String.concat ";" (List.rev !outs) ^ " " ^ str_of_mem !st
  | _ -> failwith "bad request"
let () = main_loop handle
