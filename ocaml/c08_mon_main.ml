(* C08 monitor runner.
   ref  <tokens> <derivation tree>                          ->  true | false <failed clauses>
   hold <tokens> <derivation tree | -> <exposed tree> <end> ->  true | false <failed clauses> *)
let clauses l = String.concat "," (List.filter_map (fun (n, b) -> if b then None else Some n) l)

let handle fields =
  match fields with
  | ["ref"; toks; g] ->
    let ts = tokens_of_str toks in
    let g = tree_of_str (Array.of_list ts) g in
    if ref_ok_C08 ts g then "true"
    else "false " ^ clauses ["derives", derives ts g; "line_scoped", line_scoped ts g]
  | ["hold"; toks; g; t; e] ->
    let ts = tokens_of_str toks in
    let arr = Array.of_list ts in
    let g = if g = "-" then PNone else tree_of_str arr g in
    let root = tree_of_str arr t in
    let e = z_of_str e in
    if holds_C08 ts g root e then "true"
    else "false " ^ clauses
      ["root", root_ok root e; "ranges", ranges_ok e root; "leaves-increasing", increasing (leaves root);
       "shortif-on-line", shortif_on_line ts root;
       "consumed", (match g with PNone -> true | _ -> consumed ts e);
       "denotes", (match g with PNone -> true | _ -> denotes g root)]
  | _ -> failwith "bad request"

let () = main_loop handle
