(* C20 monitor runner.
   holds|judge <host text> <files: name:kind:text;...|~> <impl: hex | ERR>   -> true|false / 0|1|2
   tl <text>            -> l,l,..|~     (text_lines)
   cls <line>           -> P | U | I <name> <kind> <tab|~>   (classify) *)
let files s =
  if s = "~" then [] else
  List.map (fun t -> match String.split_on_char ':' t with
    | [n; k; b] -> ((bytes_of_hex n, z_of_str k), bytes_of_hex b)
    | _ -> failwith "bad file") (String.split_on_char ';' s)
let impl s = if s = "ERR" then None else Some (bytes_of_hex s)
let show_lines l = match l with [] -> "~" | _ -> String.concat "," (List.map hex_of_bytes l)
let handle fields =
  match fields with
  | ["holds"; h; f; i] -> string_of_bool (holds_C20 (bytes_of_hex h) (files f) (impl i))
  | ["judge"; h; f; i] -> str_of_z (judge_C20 (bytes_of_hex h) (files f) (impl i))
  | ["tl"; t] -> show_lines (text_lines (bytes_of_hex t))
  | ["cls"; l] ->
    (match classify (bytes_of_hex l) with
     | Plain -> "P" | Undefined -> "U"
     | Include (n, k, t) -> "I " ^ hex_of_bytes n ^ " " ^ str_of_z k ^ " " ^ (match t with None -> "~" | Some x -> str_of_z x))
  | _ -> failwith "bad request"
let () = main_loop handle
