(* C03 model runner (Model/P8File.v with the Lua object = its list of echoed chunks).
   w <version> <label|N> <gfx> <gff> <map> <sfx> <music> <chunk1|chunk2|..|.>  -> OK <file> | ERR e
   r <file>   -> OK <version> <label|N> <gfx> <gff> <map> <sfx> <music> <line1|line2|..|.> | ERR e
   ms <line>  -> N | S <group1>          (SECTION_DELIM_RE.match)
   mv <line>  -> N | S <int>             (HEADER_VERSION_RE.match) *)
let chunks_of s = if s = "." then [] else List.map bytes_of_hex (String.split_on_char '|' s)
let str_of_chunks l = match l with [] -> "." | _ -> String.concat "|" (List.map hex_of_bytes l)
let label_of s = if s = "N" then None else Some (bytes_of_hex s)
let str_of_label o = match o with None -> "N" | Some l -> hex_of_bytes l

let handle fields =
  match fields with
  | ["w"; v; lbl; gfx; gff; map; sfx; music; chunks] ->
    let c = { c_version = z_of_str v; c_lua = chunks_of chunks; c_gfx = bytes_of_hex gfx; c_label = label_of lbl;
              c_gff = bytes_of_hex gff; c_map = bytes_of_hex map; c_sfx = bytes_of_hex sfx; c_music = bytes_of_hex music } in
    (match write_p8_of_chunks c with
     | Ok f -> "OK " ^ hex_of_bytes f
     | Err e -> "ERR " ^ err_name e)
  | ["r"; f] ->
    (match read_p8_chunks (bytes_of_hex f) with
     | Ok c -> String.concat " " ["OK"; str_of_z c.c_version; str_of_label c.c_label; hex_of_bytes c.c_gfx;
                                  hex_of_bytes c.c_gff; hex_of_bytes c.c_map; hex_of_bytes c.c_sfx;
                                  hex_of_bytes c.c_music; str_of_chunks c.c_lua]
     | Err e -> "ERR " ^ err_name e)
  | ["ms"; l] -> (match match_section (bytes_of_hex l) with None -> "N" | Some g -> "S " ^ hex_of_bytes g)
  | ["mv"; l] -> (match match_version (bytes_of_hex l) with None -> "N" | Some v -> "S " ^ str_of_z v)
  | _ -> failwith "bad request"

let () = main_loop handle
