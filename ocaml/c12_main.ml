(* C12 model runner (paths, include resolution, require candidates).
   norm <p> | dirname <p> | join <a> <b> | abspath <cwd> <p> | expanduser <home> <p>   -> hex
   root <cwd> <home> <cart>                                  -> hex
   inc|incpre <cwd> <home> <cart> <inc> <file,file,...>      -> OK <hex> | ERR <name>   (incpre: string-prefix variant)
   incacc <cwd> <home> <cart> <inc> <files>                  -> <p:hex,o:hex|~> <raised true|false>
   filter|filterold <req>                                    -> true|false
   cands <file_path> <lua_path> <req>                        -> hex,hex,...
   eff <arg|~> <env|~>                                       -> hex          (~ = None)
   walk <cwd> <main> <lua_path> <file,file,..|~> <path=req,req;...|~>   -> <p:hex,o:hex,..|~> OK|ERR <name>
      (the whole _evaluate_require recursion; files and the keys of the require table are absolute normalised
       paths, looked up through the model's abspath) *)
let hexlist s = if s = "~" then [] else List.map bytes_of_hex (String.split_on_char ',' s)
let opt s = if s = "~" then None else Some (bytes_of_hex s)
let res r = match r with Ok b -> "OK " ^ hex_of_bytes b | Err e -> "ERR " ^ err_name e
let handle fields =
  match fields with
  | ["norm"; p] -> hex_of_bytes (normpath (bytes_of_hex p))
  | ["dirname"; p] -> hex_of_bytes (dirname (bytes_of_hex p))
  | ["join"; a; b] -> hex_of_bytes (join (bytes_of_hex a) (bytes_of_hex b))
  | ["abspath"; c; p] -> hex_of_bytes (abspath (bytes_of_hex c) (bytes_of_hex p))
  | ["expanduser"; h; p] -> hex_of_bytes (expanduser (bytes_of_hex h) (bytes_of_hex p))
  | ["root"; c; h; f] -> hex_of_bytes (inc_root_now (bytes_of_hex c) (bytes_of_hex h) (bytes_of_hex f))
  | ["inc"; c; h; f; i; files] ->
    let fl = hexlist files in
    res (resolve_include_now (bytes_of_hex c) (bytes_of_hex h) (fun p -> List.mem p fl) (bytes_of_hex f) (bytes_of_hex i))
  | ["incpre"; c; h; f; i; files] ->
    let fl = hexlist files in
    res (resolve_include_prefix (bytes_of_hex c) (bytes_of_hex h) (fun p -> List.mem p fl) (bytes_of_hex f) (bytes_of_hex i))
  | ["incacc"; c; h; f; i; files] ->
    let fl = hexlist files in
    let (evs, raised) = include_accesses_now (bytes_of_hex c) (bytes_of_hex h) (fun p -> List.mem p fl) (bytes_of_hex f) (bytes_of_hex i) in
    (match evs with [] -> "~" | _ -> String.concat "," (List.map (fun (o, p) -> (if o then "o:" else "p:") ^ hex_of_bytes p) evs))
    ^ " " ^ string_of_bool raised
  | ["filter"; r] -> string_of_bool (require_filter_now (bytes_of_hex r))
  | ["filterold"; r] -> string_of_bool (require_filter_old (bytes_of_hex r))
  | ["cands"; f; l; r] ->
    String.concat "," (List.map hex_of_bytes (require_candidates_now (bytes_of_hex f) (bytes_of_hex l) (bytes_of_hex r)))
  | ["eff"; a; e] -> hex_of_bytes (effective_lua_path_now (opt a) (opt e))
  | ["walk"; cwd; main; lp; files; reqs] ->
    let cwd = bytes_of_hex cwd in
    let fl = hexlist files in
    let tbl = if reqs = "~" then [] else
      List.map (fun kv -> match String.split_on_char '=' kv with
        | [k; v] -> (bytes_of_hex k, if v = "~" then [] else List.map bytes_of_hex (String.split_on_char ',' v))
        | _ -> failwith "bad pair") (String.split_on_char ';' reqs) in
    let norm p = abspath cwd p in
    let requires_of p = (match List.assoc_opt (norm p) tbl with Some l -> l | None -> []) in
    let isfile p = List.mem (norm p) fl in
    let (tr, r) = evaluate_require requires_of isfile (bytes_of_hex lp) (nat_of_int 2000) (bytes_of_hex main) in
    let ev (o, p) = (if o then "o:" else "p:") ^ hex_of_bytes p in
    (match tr with [] -> "~" | _ -> String.concat "," (List.map ev tr)) ^ " " ^
    (match r with Ok _ -> "OK" | Err e -> "ERR " ^ err_name e)
  | _ -> failwith "bad request"
let () = main_loop handle
