(* C07 monitor runner.
   hold <srchex> <toks>    toks = "." or tok;tok;...  tok = kindcode:data:line:col:quote:ml:value:strvalue
                           (ml = N | S<hex>; value = num/den as [-]0x<hex> | _ )
     -> true | false:<index>:<field>:<ref kind code or ->:<ref raw hex>
   err <srchex>            the implementation raised on this source -> true|false
   same <toks> <toks>      -> true|false
   count <srchex>          -> the counting rule of get_token_count applied to the reference tokens, or NONE *)
(* arbitrary-size integers as [-]0x<hex> (io.ml's str_of_z / z_of_str go through OCaml's 63-bit int) *)
let rec pos_bits p = match p with XH -> [1] | XO q -> 0 :: pos_bits q | XI q -> 1 :: pos_bits q
let bigstr_of_z x =
  let hex_of_pos p =
    let bits = Array.of_list (pos_bits p) in
    let n = Array.length bits in
    let nd = (n + 3) / 4 in
    let b = Buffer.create (nd + 2) in
    for i = nd - 1 downto 0 do
      let v = ref 0 in
      for j = 3 downto 0 do
        let k = 4 * i + j in
        v := !v * 2 + (if k < n then bits.(k) else 0)
      done;
      Buffer.add_char b "0123456789abcdef".[!v]
    done;
    Buffer.contents b in
  match x with Z0 -> "0x0" | Zpos p -> "0x" ^ hex_of_pos p | Zneg p -> "-0x" ^ hex_of_pos p
let z_of_bigstr s =
  let neg = String.length s > 0 && s.[0] = '-' in
  let start = if neg then 3 else 2 in
  let p = ref None in
  for i = start to String.length s - 1 do
    let d = hexval s.[i] in
    for j = 3 downto 0 do
      let bit = (d lsr j) land 1 in
      p := (match !p with
            | None -> if bit = 1 then Some XH else None
            | Some q -> Some (if bit = 1 then XI q else XO q))
    done
  done;
  match !p with None -> Z0 | Some q -> if neg then Zneg q else Zpos q
let parse_tok s =
  match String.split_on_char ':' s with
  | [k; d; l; c; q; ml; v; sv] ->
    { i_kind = z_of_str k; i_data = bytes_of_hex d; i_line = z_of_str l; i_col = z_of_str c;
      i_quote = bytes_of_hex q;
      i_ml = (if ml = "N" then None else Some (bytes_of_hex (String.sub ml 1 (String.length ml - 1))));
      i_val = (if v = "_" then None else
               match String.split_on_char '/' v with
               | [n; d] -> Some (z_of_bigstr n, z_of_bigstr d)
               | _ -> failwith "bad value");
      i_sval = bytes_of_hex sv }
  | _ -> failwith "bad token"
let parse_toks s = if s = "." then [] else List.map parse_tok (String.split_on_char ';' s)
let handle fields =
  match fields with
  | ["hold"; src; toks] ->
    (match diff_C07 (bytes_of_hex src) (parse_toks toks) with
     | None -> "true"
     | Some ((idx, fld), st) ->
       "false:" ^ str_of_z idx ^ ":" ^ str_of_z fld ^ ":" ^
       (match st with Some t -> str_of_z (skind_code t.s_kind) ^ ":" ^ hex_of_bytes t.s_raw | None -> "-:-"))
  | ["err"; src] -> string_of_bool (holds_C07_error (bytes_of_hex src))
  | ["same"; a; b] -> string_of_bool (holds_C07_chunking (parse_toks a) (parse_toks b))
  | ["count"; src] ->
    (match spec_lex (bytes_of_hex src) with Some ts -> str_of_z (spec_token_count_e ts) | None -> "NONE")
  | _ -> failwith "bad request"
let () = main_loop handle
