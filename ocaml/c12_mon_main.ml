(* C12 monitor runner.  A trace is  kind:hex,kind:hex,...  (kind p = probe, o = open for reading; ~ = empty).
   inc <cwd> <carts hex,hex,..> <cart> <inc> <raised 0/1> <explicit hex,..|~> <trace>   -> true|false
   req <cwd> <lua_path> <main> <explicit hex,..|~> <trace>                             -> true|false
   locate <cwd> <p>                                                                    -> hex/hex/... *)
let hexlist s = if s = "~" then [] else List.map bytes_of_hex (String.split_on_char ',' s)
let trace s =
  if s = "~" then [] else
  List.map (fun t -> match String.split_on_char ':' t with
    | ["p"; h] -> (Probe, bytes_of_hex h)
    | ["o"; h] -> (OpenRead, bytes_of_hex h)
    | _ -> failwith "bad event") (String.split_on_char ',' s)
let handle fields =
  match fields with
  | ["inc"; cwd; carts; cart; inc; raised; expl; tr] ->
    string_of_bool (holds_C12_include (bytes_of_hex cwd) (hexlist carts) (bytes_of_hex cart) (bytes_of_hex inc)
                      (raised = "1") (hexlist expl) (trace tr))
  | ["req"; cwd; lp; main; expl; tr] ->
    string_of_bool (holds_C12_require (bytes_of_hex cwd) (bytes_of_hex lp) (bytes_of_hex main) (hexlist expl) (trace tr))
  | ["locate"; cwd; p] -> String.concat "/" (List.map hex_of_bytes (locate (bytes_of_hex cwd) (bytes_of_hex p)))
  | _ -> failwith "bad request"
let () = main_loop handle
