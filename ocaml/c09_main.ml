(* C09 model runner.
   chunks <tokens> <tree>            ->  OK <final cursor> <chunks>   |   ERR <name>
        chunks: V<start>:<indent>:<at_end 0/1>:<run length>  and  C<token index>:<text hex>, joined by ','
   text <w> <tokens> <tree>          ->  OK <text hex>   |   ERR <name>
        w = -1: LuaASTEchoWriter;  w >= 0: LuaFormatterWriter with indentwidth w *)
let str_of_chunk c =
  match c with
  | Trivia (s, i, e, run) ->
    Printf.sprintf "V%d:%d:%d:%d" (int_of_z s) (int_of_z i) (if e then 1 else 0) (List.length run)
  | Code (i, text) -> Printf.sprintf "C%d:%s" (int_of_z i) (hex_of_bytes text)

let handle fields =
  match fields with
  | ["chunks"; toks; t] ->
    let ts = tokens_of_str toks in
    let root = tree_of_str (Array.of_list ts) t in
    (match writer_chunks ts root with
     | Ok (cs, p) -> "OK " ^ str_of_z p ^ " " ^ (match cs with [] -> "-" | _ -> String.concat "," (List.map str_of_chunk cs))
     | Err e -> "ERR " ^ err_name e)
  | ["text"; w; toks; t] ->
    let ts = tokens_of_str toks in
    let root = tree_of_str (Array.of_list ts) t in
    let wi = int_of_string w in
    let sp = if wi < 0 then echo_spaces else fmt_spaces (z_of_int wi) in
    (match writer_text sp ts root with
     | Ok b -> "OK " ^ hex_of_bytes b
     | Err e -> "ERR " ^ err_name e)
  | _ -> failwith "bad request"

let () = main_loop handle
