(* C02 model runner.  Name lists: "_" = empty list, else comma separated hex ("-" = empty name).
   nfi <start> <count>            -> names of ids start..start+count-1, comma separated (hex | !Err)
   idn <hex>                      -> id_of_name, decimal
   kern <id>                      -> <nfi_recurse 0/1> <nfi_digit_idx>
   rnf <hex content>              -> name list (file order, duplicates kept)
   preserved                      -> the regenerated PRESERVED_NAMES table
   run <d|l|b> <keep_all 0/1> <N | hex keep-file content> <names>  -> OK <next_id> <outs> | ERR <name>
       d: factory constructed directly (mk_config); l: through `p8tool luamin` (luamin_config);
       b: through `p8tool build --lua-minify` (build_minify_config) *)
let names_of_str s =
  if s = "_" then [] else List.map bytes_of_hex (String.split_on_char ',' s)
let str_of_names l =
  match l with [] -> "_" | _ -> String.concat "," (List.map hex_of_bytes l)
let res_name r = match r with Ok b -> hex_of_bytes b | Err e -> "!" ^ err_name e
let handle fields =
  match fields with
  | ["nfi"; s; c] ->
    let s = int_of_string s and c = int_of_string c in
    String.concat "," (List.init c (fun i -> res_name (name_for_id (z_of_int (s + i)))))
  | ["idn"; h] -> str_of_z (id_of_name (bytes_of_hex h))
  | ["kern"; i] ->
    let i = z_of_str i in
    (if nfi_recurse i then "1 " else "0 ") ^ str_of_z (nfi_digit_idx i)
  | ["rnf"; h] -> str_of_names (read_names_file (bytes_of_hex h))
  | ["preserved"] -> str_of_names preserved_names
  | ["run"; mode; ka; kf; names] ->
    let mk = (match mode with "d" -> mk_config | "l" -> luamin_config | "b" -> build_minify_config
                            | _ -> failwith "bad mode") in
    let cfg = mk (ka = "1") (if kf = "N" then None else Some (bytes_of_hex kf)) in
    (match run_factory_st cfg (names_of_str names) with
     | Ok (st, outs) -> "OK " ^ str_of_z st.next_id ^ " " ^ str_of_names outs
     | Err e -> "ERR " ^ err_name e)
  | _ -> failwith "bad request"
let () = main_loop handle
