(* C16 monitor runner.
   w <sec 0-4> <data> <raised> <l1|l2|..>   -> true|false
   r <sec> <data> <raised> <back>           -> true|false
   f <sec> <l1|l2|..> <data>                -> true|false
   spec <sec> <data>                        -> l1|l2|...    (reference text, fed to the real reader)
   unpack <r> <g> <b> <a> <byte>            -> true|false
   pack <r> <g> <b> <a> <byte> <r'> <g'> <b'> <a'> -> true|false *)
let lines_of s = if s = "" || s = "." then [] else List.map bytes_of_hex (String.split_on_char '|' s)
let str_of_lines ls = match ls with [] -> "." | _ -> String.concat "|" (List.map hex_of_bytes ls)
let z = z_of_str
let handle fields =
  match fields with
  | ["w"; sec; d; raised; ls] -> string_of_bool (holds_C16_write (z sec) (bytes_of_hex d) (raised = "1") (lines_of ls))
  | ["r"; sec; d; raised; back] -> string_of_bool (holds_C16_read (z sec) (bytes_of_hex d) (raised = "1") (bytes_of_hex back))
  | ["f"; sec; ls; d] -> string_of_bool (holds_C16_file (z sec) (lines_of ls) (bytes_of_hex d))
  | ["spec"; sec; d] -> str_of_lines (spec_lines (z sec) (bytes_of_hex d))
  | ["unpack"; r; g; b; a; v] -> string_of_bool (holds_C16_unpack (z r) (z g) (z b) (z a) (z v))
  | ["pack"; r; g; b; a; v; r2; g2; b2; a2] ->
    string_of_bool (holds_C16_pack (z r) (z g) (z b) (z a) (z v) (z r2) (z g2) (z b2) (z a2))
  | _ -> failwith "bad request"
let () = main_loop handle
