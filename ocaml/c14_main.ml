(* C14 model runner.
   build <cwd> <lua_path_arg|~> <lua_path_env|~> <main_path> <main_content> <path:content,path:content,...|~>
        -> OK <code> <name,name,...|~>  |  ERR <name>
      (files are keyed by normalised absolute path; the main file is passed separately and must
       also be in the list if it can be require()d)
   walk <content> <0|1>   -> OK <name:gl,name:gl,...|~> <err|~> <echo>  |  ERR <name>
      (1: as loaded with {use_game_loop=true}; 0: game loop functions taken out first) *)
let pairs s =
  if s = "~" then [] else
  List.map (fun kv -> match String.split_on_char ':' kv with
                      | [k; v] -> (bytes_of_hex k, bytes_of_hex v)
                      | _ -> failwith "bad pair") (String.split_on_char ',' s)
let opt s = if s = "~" then None else Some (bytes_of_hex s)
let hexlist l = match l with [] -> "~" | _ -> String.concat "," (List.map hex_of_bytes l)
let handle fields =
  match fields with
  | ["build"; cwd; a; e; mp; mc; files] ->
    (match run_build (bytes_of_hex cwd) (pairs files) (effective_lua_path_now (opt a) (opt e))
             (bytes_of_hex mp) (bytes_of_hex mc) with
     | Ok (code, names) -> "OK " ^ hex_of_bytes code ^ " " ^ hexlist names
     | Err e -> "ERR " ^ err_name e)
  | ["walk"; c; gl] ->
    (match run_walk (bytes_of_hex c) (gl = "1") with
     | Ok ((items, e), echo) ->
       let it = match items with [] -> "~" | _ ->
         String.concat "," (List.map (fun (n, g) -> hex_of_bytes n ^ ":" ^ (if g then "1" else "0")) items) in
       "OK " ^ it ^ " " ^ (match e with None -> "~" | Some e -> err_name e) ^ " " ^ hex_of_bytes echo
     | Err e -> "ERR " ^ err_name e)
  | _ -> failwith "bad request"
let () = main_loop handle
