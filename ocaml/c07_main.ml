(* C07 model runner.
   lex <chunks>        chunks = "." (no chunk) or hex|hex|... ("-" = empty chunk)
     -> OK <token_count> <tok;tok;...>   tok = Class:data:line:col:quote:ml:code:value:extent:strvalue
        (quote hex or -, ml = N | S<hex>, value = num/den as [-]0x<hex> | E<err> | _ )
     -> ERR <name>
   re <matcher> <hex>  matcher = index into the regenerated table -> M <matchedhex> | N   (scanner vs re) *)
(* arbitrary-size integers as [-]0x<hex> (io.ml's str_of_z / z_of_str go through OCaml's 63-bit int) *)
let rec pos_bits p = match p with XH -> [1] | XO q -> 0 :: pos_bits q | XI q -> 1 :: pos_bits q
let bigstr_of_z x =
  let hex_of_pos p =
    let bits = Array.of_list (pos_bits p) in
    let n = Array.length bits in
    let nd = (n + 3) / 4 in
    let b = Buffer.create (nd + 2) in
    for i = nd - 1 downto 0 do
      let v = ref 0 in
      for j = 3 downto 0 do
        let k = 4 * i + j in
        v := !v * 2 + (if k < n then bits.(k) else 0)
      done;
      Buffer.add_char b "0123456789abcdef".[!v]
    done;
    Buffer.contents b in
  match x with Z0 -> "0x0" | Zpos p -> "0x" ^ hex_of_pos p | Zneg p -> "-0x" ^ hex_of_pos p
let z_of_bigstr s =
  let neg = String.length s > 0 && s.[0] = '-' in
  let start = if neg then 3 else 2 in
  let p = ref None in
  for i = start to String.length s - 1 do
    let d = hexval s.[i] in
    for j = 3 downto 0 do
      let bit = (d lsr j) land 1 in
      p := (match !p with
            | None -> if bit = 1 then Some XH else None
            | Some q -> Some (if bit = 1 then XI q else XO q))
    done
  done;
  match !p with None -> Z0 | Some q -> if neg then Zneg q else Zpos q
let kind_name k = match k with
  | KSpace -> "TokSpace" | KNewline -> "TokNewline" | KComment -> "TokComment" | KString -> "TokString"
  | KNumber -> "TokNumber" | KName -> "TokName" | KLabel -> "TokLabel" | KKeyword -> "TokKeyword"
  | KSymbol -> "TokSymbol"
let chunks_of s = if s = "." then [] else List.map bytes_of_hex (String.split_on_char '|' s)
let render_tok t =
  let v = match t.t_kind with
    | KNumber -> (match tok_value t.t_data with
                  | Ok (n, d) -> bigstr_of_z n ^ "/" ^ bigstr_of_z d
                  | Err e -> "E" ^ err_name e)
    | _ -> "_" in
  String.concat ":" [kind_name t.t_kind; hex_of_bytes t.t_data; str_of_z t.t_line; str_of_z t.t_col;
                     hex_of_bytes t.t_quote;
                     (match t.t_ml with None -> "N" | Some e -> "S" ^ hex_of_bytes e);
                     hex_of_bytes (tok_code t); v; hex_of_bytes t.t_ext;
                     (match t.t_kind with KString -> hex_of_bytes (tok_str_value t) | _ -> "-")]
let handle fields =
  match fields with
  | ["lex"; cs] ->
    (match model_lex (chunks_of cs) with
     | Ok ts -> "OK " ^ str_of_z (token_count ts) ^ " " ^ (match ts with [] -> "." | _ -> String.concat ";" (List.map render_tok ts))
     | Err e -> "ERR " ^ err_name e)
  | ["re"; idx; h] ->
    let (m, _) = List.nth token_matchers (int_of_string idx) in
    (match run_matcher m (bytes_of_hex h) with
     | Some (a, _) -> "M " ^ hex_of_bytes a
     | None -> "N")
  | _ -> failwith "bad request"
let () = main_loop handle
