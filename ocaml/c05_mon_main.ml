(* C05 monitor runner (extracted from Spec/PxcFormat.v + Instances/HoldsC05.v).
   stream <text> <stream>                                   -> true | false
   area <text> <area>                                       -> true | false
   readback <text> <area> <raised 0/1> <code_length> <code> -> true | false
   agree <n> <stream> <raised 0/1> <code_length> <code>     -> true | false
   specdec <n> <stream>     -> SOME <out> | NONE     (reference decoder, used by the search and for reports)
   specall <stream>         -> SOME <out> | NONE
   carried <text>           -> true | false *)
let handle fields =
  match fields with
  | ["stream"; t; s] -> string_of_bool (holds_C05_stream (bytes_of_hex t) (bytes_of_hex s))
  | ["area"; t; a] -> string_of_bool (holds_C05_area (bytes_of_hex t) (bytes_of_hex a))
  | ["readback"; t; a; r; n; c] ->
    string_of_bool (holds_C05_readback (bytes_of_hex t) (bytes_of_hex a) (r = "1") (z_of_str n) (bytes_of_hex c))
  | ["agree"; n; s; r; cl; c] ->
    string_of_bool (holds_C05_agree (z_of_str n) (bytes_of_hex s) (r = "1") (z_of_str cl) (bytes_of_hex c))
  | ["specdec"; n; s] ->
    (match pxc_decode (z_of_str n) (bytes_of_hex s) with Some o -> "SOME " ^ hex_of_bytes o | None -> "NONE")
  | ["specall"; s] ->
    (match pxc_decode_all (bytes_of_hex s) with Some o -> "SOME " ^ hex_of_bytes o | None -> "NONE")
  | ["carried"; t] -> string_of_bool (carried (bytes_of_hex t))
  | _ -> failwith "bad request"

let () = main_loop handle
