(* C15 monitor runner.
   hold <bs hex> <text ints> <enc hex> <raised 0/1> <back hex>  -> true|false
   pf <sp0>|<sp1>|...|<sp255>   (each comma separated code points) -> true|false *)
let handle fields =
  match fields with
  | ["hold"; bs; text; enc; raised; back] ->
    string_of_bool (holds_C15 (bytes_of_hex bs) (ints_of_str text) (bytes_of_hex enc) (raised = "1") (bytes_of_hex back))
  | ["pf"; sps] ->
    string_of_bool (holds_C15_prefix_free (List.map ints_of_str (String.split_on_char '|' sps)))
  | _ -> failwith "bad request"
let () = main_loop handle
