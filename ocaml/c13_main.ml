(* C13 model runner.  Contents are interned identifiers (integers).
   build <ns> <files> <empty>   ->  RET1 <reason> | RAISED <err> | WROTE <writer> <lbl 0/1> <cart> <stored label>
     ns    : name:n | name:s:<hex> | name:b:<0|1>  joined by ','            (name in hex)
     files : ~ | name:<exists 0/1>:<cart>:<lua>:<label> joined by ','
     cart  : E.<err> | C.<lua>/<gfx>/<gff>/<map>/<sfx>/<music>/<label|~>/<version>
     lua   : E.<err> | L.<id>          label : ~ | <id> *)
let all_errs = [AssertionError; IndexError; ValueError; TypeError; KeyError; UnicodeError; LexerError; ParserError;
                AttributeError; InvalidP8Header; InvalidP8Section; IncludeOutside; IncludeNotFound; BuildError;
                OtherError; OutOfFuel]
let err_of_name s = try List.find (fun e -> err_name e = s) all_errs with Not_found -> OtherError
let split c s = String.split_on_char c s
let opt_id s = if s = "~" then None else Some (z_of_str s)
let str_opt o = match o with None -> "~" | Some x -> str_of_z x
let parse_cart s =
  match split '.' s with
  | ["E"; e] -> Err (err_of_name e)
  | ["C"; body] ->
    (match split '/' body with
     | [a; b; c; d; e; f; l; v] ->
       Ok { c_secs = { x_lua = z_of_str a; x_gfx = z_of_str b; x_gff = z_of_str c; x_map = z_of_str d;
                       x_sfx = z_of_str e; x_music = z_of_str f };
            c_label = opt_id l; c_version = z_of_str v }
     | _ -> failwith "bad cart")
  | _ -> failwith "bad cart"
let str_cart c =
  let s = c.c_secs in
  String.concat "/" [str_of_z s.x_lua; str_of_z s.x_gfx; str_of_z s.x_gff; str_of_z s.x_map; str_of_z s.x_sfx;
                     str_of_z s.x_music; str_opt c.c_label; str_of_z c.c_version]
let parse_lua s =
  match split '.' s with
  | ["E"; e] -> Err (err_of_name e)
  | ["L"; i] -> Ok (z_of_str i)
  | _ -> failwith "bad lua"
let parse_files s =
  if s = "~" then [] else
  List.map (fun t -> match split ':' t with
    | [n; ex; c; l; lb] -> (bytes_of_hex n, (ex = "1", parse_cart c, parse_lua l, opt_id lb))
    | _ -> failwith "bad file entry") (split ',' s)
let mk_world files empty =
  let find p = try Some (List.assoc p files) with Not_found -> None in
  { w_exists = (fun p -> match find p with Some (e, _, _, _) -> e | None -> false);
    w_cart = (fun p -> match find p with Some (_, c, _, _) -> c | None -> Err OtherError);
    w_luafile = (fun p _ -> match find p with Some (_, _, l, _) -> l | None -> Err OtherError);
    w_empty = empty;
    w_png_label = (fun p -> match find p with Some (_, _, _, lb) -> lb | None -> None) }
let parse_ns s =
  if s = "~" then [] else
  List.map (fun t -> match split ':' t with
    | [n; "n"] -> (bytes_of_hex n, VNone)
    | [n; "s"; h] -> (bytes_of_hex n, VStr (bytes_of_hex h))
    | [n; "b"; b] -> (bytes_of_hex n, VBool (b = "1"))
    | _ -> failwith "bad ns entry") (split ',' s)
let str_reason r =
  match r with
  | BadOutName -> "badout"
  | Conflict s -> "conflict:" ^ hex_of_bytes s
  | Missing s -> "missing:" ^ hex_of_bytes s
  | BadType s -> "badtype:" ^ hex_of_bytes s
let str_writer w = match w with WDefault -> "default" | WMinify -> "minify" | WFormat -> "format" | WFormatTuple -> "format-tuple"
let handle fields =
  match fields with
  | ["build"; ns; files; empty] ->
    let ns = parse_ns ns in
    let empty = (match parse_cart empty with Ok c -> c | Err _ -> failwith "bad empty") in
    let w = mk_world (parse_files files) empty in
    (match do_build_now w ns with
     | Ret1 r -> "RET1 " ^ str_reason r
     | Raised e -> "RAISED " ^ err_name e
     | Wrote (c, wr, lbl) ->
       let filename = (match ns_get ns (bytes_of_hex "66696c656e616d65") with Some (VStr f) -> f | _ -> []) in
       let st = (match stored_label_now w filename c lbl with
                 | Ok (l, _) -> str_opt l
                 | Err e -> "ERR") in
       "WROTE " ^ str_writer wr ^ " " ^ (if lbl then "1" else "0") ^ " " ^ str_cart c ^ " " ^ st)
  | _ -> failwith "bad request"
let () = main_loop handle
