(* C04 monitor runner (extracted from Spec/P8PngSpec.v, Spec/PxcFormat.v, Instances/HoldsC04.v).
   image <gfx> <map> <gff> <music> <sfx> <text> <version> <label rows> <out rows>           -> true | false
   readback <gfx> <map> <gff> <music> <sfx> <text> <version> <gfx'> <map'> <gff'> <music'> <sfx'> <code'> <version'> -> true | false
   refused <text>                                                                            -> true | false
   refusedw <text> <stream>   (a refusal although <stream> is a valid compressed form that fits) -> true | false
   romtext <rows>      -> SOME <text> | NONE    (independent reading of the code area; for reports) *)
let rows_of_str s = if s = "-" then [] else List.map bytes_of_hex (String.split_on_char '|' s)

let handle fields =
  match fields with
  | ["image"; g; m; f; mu; sf; t; v; label; out] ->
    string_of_bool (holds_C04_image (bytes_of_hex g) (bytes_of_hex m) (bytes_of_hex f) (bytes_of_hex mu)
                      (bytes_of_hex sf) (bytes_of_hex t) (z_of_str v) (rows_of_str label) (rows_of_str out))
  | ["readback"; g; m; f; mu; sf; t; v; g2; m2; f2; mu2; sf2; c2; v2] ->
    string_of_bool (holds_C04_readback (bytes_of_hex g) (bytes_of_hex m) (bytes_of_hex f) (bytes_of_hex mu)
                      (bytes_of_hex sf) (bytes_of_hex t) (z_of_str v)
                      (bytes_of_hex g2) (bytes_of_hex m2) (bytes_of_hex f2) (bytes_of_hex mu2)
                      (bytes_of_hex sf2) (bytes_of_hex c2) (z_of_str v2))
  | ["refused"; t] -> string_of_bool (holds_C04_refused (bytes_of_hex t))
  | ["refusedw"; t; st] -> string_of_bool (holds_C04_refused_witness (bytes_of_hex t) (bytes_of_hex st))
  | ["pixels"; pd; label; out; back] ->
    string_of_bool (holds_C04_pixels (bytes_of_hex pd) (rows_of_str label) (rows_of_str out) (bytes_of_hex back))
  | ["flag"; b] -> string_of_bool (b = "1")     (* a check made by the harness itself: destination left untouched *)
  | ["romtext"; rows] ->
    let rom = rom_of_rows (rows_of_str rows) in
    let rec drop n l = if n <= 0 then l else match l with [] -> [] | _ :: r -> drop (n - 1) r in
    let rec take n l = if n <= 0 then [] else match l with [] -> [] | x :: r -> x :: take (n - 1) r in
    (match area_text (take 15616 (drop 17152 rom)) with Some t -> "SOME " ^ hex_of_bytes t | None -> "NONE")
  | _ -> failwith "bad request"

let () = main_loop handle
