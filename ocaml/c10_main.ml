(* C10 model runner (Model/FmtSpaces.v).
   fmt <at_start 0/1> <at_end 0/1> <indentwidth> <indent> <run hex>  -> <hex>   LuaFormatterWriter pipeline
   min <edge 0/1> <run hex>                                          -> <hex>   LuaMinifyWriter pipeline *)
let handle fields =
  match fields with
  | ["fmt"; a; e; w; d; h] ->
    hex_of_bytes (fmt_run { f_at_start = (a = "1"); f_at_end = (e = "1"); f_width = z_of_str w; f_depth = z_of_str d }
                    (bytes_of_hex h))
  | ["min"; e; h] -> hex_of_bytes (min_run (e = "1") (bytes_of_hex h))
  | _ -> failwith "bad request"
let () = main_loop handle
