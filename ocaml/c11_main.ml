(* C11 model runner: the trace of file operations the protocol model predicts (data = lengths).
   tofile <dest> <exists 0/1> <label ~|hex> <chunks> <fail ~|k>                                   -> trace
   proc <overwrite 0/1> <fname> <incs ~|hex,..> <loads 0/1> <out_exists 0/1> <chunks> <fail>     -> <out name hex> <trace>
   build <out> <exists 0/1> <sources ~|hex,..> <writes 0/1> <chunks> <fail>                      -> trace
   many <overwrite 0/1> <fname/incs/loads/out_exists/chunks|...> <fail>                          -> trace
   trace syntax: T<h> R<hex> W<hex>:<h> w<h>:<n> r<h> s<h> c<h> X<hex> M<hex>:<hex> E !  joined by ','  (~ = empty) *)
let str_op o =
  match o with
  | OpenTemp h -> "T" ^ str_of_z h
  | OpenRead p -> "R" ^ hex_of_bytes p
  | OpenWrite (p, h) -> "W" ^ hex_of_bytes p ^ ":" ^ str_of_z h
  | Write (h, d) -> "w" ^ str_of_z h ^ ":" ^ str_of_z d
  | ReadAll h -> "r" ^ str_of_z h
  | Seek h -> "s" ^ str_of_z h
  | Close h -> "c" ^ str_of_z h
  | Remove p -> "X" ^ hex_of_bytes p
  | Rename (p, q) -> "M" ^ hex_of_bytes p ^ ":" ^ hex_of_bytes q
  | EncoderDone -> "E"
  | Raise -> "!"
let str_trace tr = match tr with [] -> "~" | _ -> String.concat "," (List.map str_op tr)
let hexlist s = if s = "~" then [] else List.map bytes_of_hex (String.split_on_char ',' s)
let opt s = if s = "~" then None else Some (bytes_of_hex s)
let fail s = if s = "~" then None else Some (nat_of_int (int_of_string s))
let handle fields =
  match fields with
  | ["tofile"; dest; ex; lbl; chunks; f] ->
    str_trace (to_file_trace_now (bytes_of_hex dest) (ex = "1") (opt lbl) (ints_of_str chunks) (fail f))
  | ["proc"; ow; fname; incs; loads; oex; chunks; f] ->
    let fn = bytes_of_hex fname in
    hex_of_bytes (out_fname (ow = "1") fn) ^ " " ^
    str_trace (process_one_trace_now (ow = "1") fn (hexlist incs) (loads = "1") (oex = "1") (ints_of_str chunks) (fail f))
  | ["build"; out; ex; srcs; writes; chunks; f] ->
    str_trace (build_trace_now (bytes_of_hex out) (ex = "1") (hexlist srcs) (writes = "1") (ints_of_str chunks) (fail f))
  | ["many"; ow; files; f] ->
    (* files: fname/incs/loads/out_exists/chunks joined by '|' *)
    let parse t = (match String.split_on_char '/' t with
      | [fn; incs; loads; oex; chunks] ->
        { ci_fname = bytes_of_hex fn; ci_incs = hexlist incs; ci_loads = (loads = "1"); ci_out_exists = (oex = "1");
          ci_chunks = ints_of_str chunks }
      | _ -> failwith "bad file entry") in
    str_trace (process_many_trace_now (ow = "1") (List.map parse (String.split_on_char '|' files)) (fail f))
  | _ -> failwith "bad request"
let () = main_loop handle
