(* C18 model runner.
   wcd <gfx> <map> <gff> <music> <sfx> <addr> <data>   ->  OK g|m|f|mu|sf   or  ERR <name> *)
let handle fields =
  match fields with
  | ["wcd"; g; m; f; mu; sf; addr; data] ->
    (match write_cart_data (List.map bytes_of_hex [g; m; f; mu; sf]) (bytes_of_hex data) (z_of_str addr) with
     | Ok st -> "OK " ^ String.concat "|" (List.map hex_of_bytes st)
     | Err e -> "ERR " ^ err_name e)
  | _ -> failwith "bad request"

let () = main_loop handle
