(* C05 model runner.
   frb <dat> <pos>            -> <best_len> <block_offset>
   comp <text>                -> OK <stream>            | ERR <name>
   dec <codedata>             -> OK <code_length> <code> <compressed_size> | ERR <name>
   gbc <text>                 -> OK <area>              | ERR <name>
   gcb <codedata> <version>   -> OK <code_length> <code> <compressed_size or None> | ERR <name> *)
let handle fields =
  match fields with
  | ["frb"; dat; pos] ->
    let (a, b) = find_repeatable_block (bytes_of_hex dat) (z_of_str pos) in
    str_of_z a ^ " " ^ str_of_z b
  | ["comp"; t] ->
    (match compress_code (bytes_of_hex t) with
     | Ok s -> "OK " ^ hex_of_bytes s
     | Err e -> "ERR " ^ err_name e)
  | ["dec"; cd] ->
    (match decompress_code (bytes_of_hex cd) with
     | Ok ((n, code), cs) -> "OK " ^ str_of_z n ^ " " ^ hex_of_bytes code ^ " " ^ str_of_z cs
     | Err e -> "ERR " ^ err_name e)
  | ["gbc"; t] ->
    (match get_bytes_from_code (bytes_of_hex t) with
     | Ok s -> "OK " ^ hex_of_bytes s
     | Err e -> "ERR " ^ err_name e)
  | ["gcb"; cd; v] ->
    (match get_code_from_bytes (bytes_of_hex cd) (z_of_str v) with
     | Ok ((n, code), cs) ->
       "OK " ^ str_of_z n ^ " " ^ hex_of_bytes code ^ " " ^ (match cs with Some c -> str_of_z c | None -> "None")
     | Err e -> "ERR " ^ err_name e)
  | _ -> failwith "bad request"

let () = main_loop handle
