(* Shared I/O glue for the extracted model runners. Appended textually after the
   extracted code of one property (so the extracted [z]/[positive]/[nat] types are in
   scope) and before that property's *_main.ml. Line protocol: one request per line,
   fields separated by one space; byte strings are hex ("-" = empty); integers decimal. *)

let rec pos_of_int (n : int) : positive =
  if n = 1 then XH
  else if n land 1 = 0 then XO (pos_of_int (n lsr 1))
  else XI (pos_of_int (n lsr 1))

let z_of_int (n : int) : z =
  if n = 0 then Z0 else if n > 0 then Zpos (pos_of_int n) else Zneg (pos_of_int (- n))

let rec int_of_pos (p : positive) : int =
  match p with XH -> 1 | XO q -> 2 * int_of_pos q | XI q -> 2 * int_of_pos q + 1

let int_of_z (x : z) : int =
  match x with Z0 -> 0 | Zpos p -> int_of_pos p | Zneg p -> - (int_of_pos p)

let rec nat_of_int (n : int) : nat = if n <= 0 then O else S (nat_of_int (n - 1))
let rec int_of_nat (n : nat) : int = match n with O -> 0 | S k -> 1 + int_of_nat k

let byte_tab : z array = Array.init 256 z_of_int

let hexval c =
  match c with
  | '0'..'9' -> Char.code c - 48
  | 'a'..'f' -> Char.code c - 87
  | 'A'..'F' -> Char.code c - 55
  | _ -> failwith "bad hex"

let bytes_of_hex (s : string) : z list =
  if s = "-" then [] else begin
    let n = String.length s / 2 in
    let rec go i acc =
      if i < 0 then acc
      else go (i - 1) (byte_tab.(hexval s.[2*i] * 16 + hexval s.[2*i+1]) :: acc) in
    go (n - 1) []
  end

let hex_of_bytes (l : z list) : string =
  match l with
  | [] -> "-"
  | _ ->
    let b = Buffer.create 64 in
    List.iter (fun x ->
      let v = int_of_z x in
      if v < 0 || v > 255 then Buffer.add_string b (Printf.sprintf "<%d>" v)
      else Buffer.add_string b (Printf.sprintf "%02x" v)) l;
    Buffer.contents b

(* integer lists: comma separated decimals, "-" = empty *)
let ints_of_str (s : string) : z list =
  if s = "-" then [] else List.map (fun t -> z_of_int (int_of_string t)) (String.split_on_char ',' s)

let str_of_ints (l : z list) : string =
  match l with [] -> "-" | _ -> String.concat "," (List.map (fun x -> string_of_int (int_of_z x)) l)

let z_of_str s = z_of_int (int_of_string s)
let str_of_z x = string_of_int (int_of_z x)

let err_name (e : err) : string =
  match e with
  | AssertionError -> "AssertionError" | IndexError -> "IndexError" | ValueError -> "ValueError"
  | TypeError -> "TypeError" | KeyError -> "KeyError" | UnicodeError -> "UnicodeError"
  | LexerError -> "LexerError" | ParserError -> "ParserError" | AttributeError -> "AttributeError"
  | InvalidP8Header -> "InvalidP8Header" | InvalidP8Section -> "InvalidP8Section"
  | IncludeOutside -> "IncludeOutside" | IncludeNotFound -> "IncludeNotFound"
  | BuildError -> "BuildError" | OtherError -> "OtherError" | OutOfFuel -> "OutOfFuel"

let main_loop (handle : string list -> string) : unit =
  (try
    while true do
      let line = input_line stdin in
      let fields = String.split_on_char ' ' line in
      let out = (try handle fields with
                 | Failure m -> "DRIVER-ERROR " ^ m
                 | Not_found -> "DRIVER-ERROR not_found"
                 | Invalid_argument m -> "DRIVER-ERROR invalid_argument " ^ m
                 | Stack_overflow -> "DRIVER-ERROR stack_overflow") in
      print_string out; print_char '\n'
    done
  with End_of_file -> ());
  flush stdout
