(* C18 monitor runner.
   hold <5 regions before> <addr> <data> <raised 0/1> <5 regions after>  ->  true | false *)
let handle fields =
  match fields with
  | ["hold"; g; m; f; mu; sf; addr; data; raised; g2; m2; f2; mu2; sf2] ->
    string_of_bool (holds_C18 (List.map bytes_of_hex [g; m; f; mu; sf]) (z_of_str addr) (bytes_of_hex data)
                      (raised = "1") (List.map bytes_of_hex [g2; m2; f2; mu2; sf2]))
  | _ -> failwith "bad request"

let () = main_loop handle
