(* Section model runner (C16, C03, C17).
   tl <sec> <data>           -> OK l1|l2|...  | ERR e      (sec: gfx map gff music sfx)
   fl <sec> <l1|l2|...>      -> OK <data>     | ERR e
   seq <hasgfx 0/1> <gfx> <map> <gff> <music> <sfx> <op;op;...>
                             -> r1;r2;...;rn <gfx> <map> <gff> <music> <sfx>   (stops at the first error) *)
let lines_of s = if s = "" || s = "." then [] else List.map bytes_of_hex (String.split_on_char '|' s)
let str_of_lines ls = match ls with [] -> "." | _ -> String.concat "|" (List.map hex_of_bytes ls)
let res f = function Ok v -> "OK " ^ f v | Err e -> "ERR " ^ err_name e
let zopt s = if s = "N" then None else Some (z_of_str s)
let bopt s = if s = "N" then None else Some (s = "1")
let rows_of s = if s = "." then [] else List.map bytes_of_hex (String.split_on_char '/' s)
let str_of_rows rs = match rs with [] -> "." | _ -> String.concat "/" (List.map hex_of_bytes rs)
let sb b = if b then "1" else "0"

let to_lines sec d =
  match sec with
  | "gfx" -> Ok (gfx_to_lines d)
  | "map" -> Ok (map_to_lines d)
  | "gff" -> Ok (gff_to_lines d)
  | "music" -> music_to_lines d
  | "sfx" -> sfx_to_lines d
  | _ -> failwith "sec"

let from_lines sec ls =
  match sec with
  | "gfx" -> gfx_from_lines ls
  | "map" | "gff" -> base_from_lines ls
  | "music" -> music_from_lines ls
  | "sfx" -> sfx_from_lines ls
  | _ -> failwith "sec"

(* state: gfx map gff music sfx *)
let do_op hasgfx (g, m, f, mu, sf) op =
  let a = String.split_on_char ',' op in
  let z = z_of_str in
  match a with
  | ["gs"; id; w; h] -> (match get_sprite g (z id) (z w) (z h) with
      | Ok rows -> Ok (str_of_rows rows, (g, m, f, mu, sf)) | Err e -> Err e)
  | ["ss"; id; xo; yo; rows] -> (match set_sprite g (z id) (rows_of rows) (z xo) (z yo) with
      | Ok g' -> Ok ("None", (g', m, f, mu, sf)) | Err e -> Err e)
  | ["mgc"; x; y] -> (match map_get_cell m g hasgfx (z x) (z y) with
      | Ok v -> Ok (str_of_z v, (g, m, f, mu, sf)) | Err e -> Err e)
  | ["msc"; x; y; v] -> (match map_set_cell m g hasgfx (z x) (z y) (z v) with
      | Ok (m', g') -> Ok ("None", (g', m', f, mu, sf)) | Err e -> Err e)
  | ["mgr"; x; y; w; h] -> (match map_get_rect_tiles m g hasgfx (z x) (z y) (z w) (z h) with
      | Ok rows -> Ok (str_of_rows rows, (g, m, f, mu, sf)) | Err e -> Err e)
  | ["msr"; x; y; rows] -> (match map_set_rect_tiles m g hasgfx (rows_of rows) (z x) (z y) with
      | Ok (m', g') -> Ok ("None", (g', m', f, mu, sf)) | Err e -> Err e)
  | ["fg"; id; fl] -> (match gff_get_flags f (z id) (z fl) with
      | Ok v -> Ok (str_of_z v, (g, m, f, mu, sf)) | Err e -> Err e)
  | ["fs"; id; fl] -> (match gff_set_flags f (z id) (z fl) with
      | Ok f' -> Ok ("None", (g, m, f', mu, sf)) | Err e -> Err e)
  | ["fc"; id; fl] -> (match gff_clear_flags f (z id) (z fl) with
      | Ok f' -> Ok ("None", (g, m, f', mu, sf)) | Err e -> Err e)
  | ["fr"; id; fl] -> (match gff_reset_flags f (z id) (z fl) with
      | Ok f' -> Ok ("None", (g, m, f', mu, sf)) | Err e -> Err e)
  | ["sgn"; id; n] -> (match sfx_get_note sf (z id) (z n) with
      | Ok (((p, w), v), e) -> Ok (String.concat ":" (List.map str_of_z [p; w; v; e]), (g, m, f, mu, sf))
      | Err e -> Err e)
  | ["ssn"; id; n; p; w; v; e] -> (match sfx_set_note sf (z id) (z n) (zopt p) (zopt w) (zopt v) (zopt e) with
      | Ok sf' -> Ok ("None", (g, m, f, mu, sf')) | Err e -> Err e)
  | ["sgp"; id] -> (match sfx_get_properties sf (z id) with
      | Ok (((a, b), c), d) -> Ok (String.concat ":" (List.map str_of_z [a; b; c; d]), (g, m, f, mu, sf))
      | Err e -> Err e)
  | ["ssp"; id; a; b; c; d] -> (match sfx_set_properties sf (z id) (zopt a) (zopt b) (zopt c) (zopt d) with
      | Ok sf' -> Ok ("None", (g, m, f, mu, sf')) | Err e -> Err e)
  | ["mugc"; id; ch] -> (match music_get_channel mu (z id) (z ch) with
      | Ok None -> Ok ("None", (g, m, f, mu, sf))
      | Ok (Some v) -> Ok (str_of_z v, (g, m, f, mu, sf)) | Err e -> Err e)
  | ["musc"; id; ch; pat] -> (match music_set_channel mu (z id) (z ch) (zopt pat) with
      | Ok mu' -> Ok ("None", (g, m, f, mu', sf)) | Err e -> Err e)
  | ["mugp"; id] -> (match music_get_properties mu (z id) with
      | Ok ((b, e), s) -> Ok (sb b ^ ":" ^ sb e ^ ":" ^ sb s, (g, m, f, mu, sf)) | Err e -> Err e)
  | ["musp"; id; b; e; s] -> (match music_set_properties mu (z id) (bopt b) (bopt e) (bopt s) with
      | Ok mu' -> Ok ("None", (g, m, f, mu', sf)) | Err e -> Err e)
  | _ -> failwith ("bad op " ^ op)

let handle fields =
  match fields with
  | ["tl"; sec; d] -> res str_of_lines (to_lines sec (bytes_of_hex d))
  | ["fl"; sec; ls] -> res hex_of_bytes (from_lines sec (lines_of ls))
  | ["seq"; hasgfx; g; m; f; mu; sf; ops] ->
    let st = ref (bytes_of_hex g, bytes_of_hex m, bytes_of_hex f, bytes_of_hex mu, bytes_of_hex sf) in
    let outs = ref [] in
    let stop = ref false in
    List.iter (fun op ->
      if not !stop then
        match do_op (hasgfx = "1") !st op with
        | Ok (r, st') -> outs := r :: !outs; st := st'
        | Err e -> outs := ("ERR " ^ err_name e) :: !outs; stop := true)
      (String.split_on_char ';' ops);
    let (g, m, f, mu, sf) = !st in
    String.concat ";" (List.rev !outs) ^ " " ^ String.concat " " (List.map hex_of_bytes [g; m; f; mu; sf])
  | _ -> failwith "bad request"
let () = main_loop handle
