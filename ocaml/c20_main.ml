(* C20 model runner.
   re <line>                          -> NONE | <path> <ext> <tab|~>        (INCLUDE_LINE_RE.match(line).groups())
   tab <l,l,..|~> <n|~>               -> l,l,..|~                            (lines_for_tab)
   flines <bytes>                     -> l,l,..|~                            (for line in fh)
   pi <cwd> <home> <filename|~> <l,l,..|~> <files> <carts>  -> OK l,l,..|~ | ERR <name>
      files = path=content;...  (every regular file; ~ none)    carts = path=l,l,..;... (l,l may be ~)  *)
let lines s = if s = "~" then [] else List.map bytes_of_hex (String.split_on_char ',' s)
let show_lines l = match l with [] -> "~" | _ -> String.concat "," (List.map hex_of_bytes l)
let assoc s f =
  if s = "~" then [] else
  List.map (fun kv -> match String.split_on_char '=' kv with
    | [k; v] -> (bytes_of_hex k, f v)
    | _ -> failwith "bad pair") (String.split_on_char ';' s)
let handle fields =
  match fields with
  | ["re"; l] ->
    (match match_include_line (bytes_of_hex l) with
     | None -> "NONE"
     | Some ((p, e), t) -> hex_of_bytes p ^ " " ^ hex_of_bytes e ^ " " ^ (match t with None -> "~" | Some n -> str_of_z n))
  | ["tab"; ls; n] -> show_lines (lines_for_tab (lines ls) (if n = "~" then None else Some (z_of_str n)))
  | ["flines"; b] -> show_lines (file_lines (bytes_of_hex b))
  | ["pi"; cwd; home; fn; ls; files; carts] ->
    let fl = assoc files bytes_of_hex in
    let cl = assoc carts lines in
    let fs = { fs_isfile = (fun p -> List.mem_assoc p fl);
               fs_read = (fun p -> List.assoc_opt p fl);
               fs_cart = (fun p -> List.assoc_opt p cl) } in
    (match process_includes_now (bytes_of_hex cwd) (bytes_of_hex home) fs
             (if fn = "~" then None else Some (bytes_of_hex fn)) (lines ls) with
     | Ok out -> "OK " ^ show_lines out
     | Err e -> "ERR " ^ err_name e)
  | _ -> failwith "bad request"
let () = main_loop handle
