(* C17 monitor runner.
   hold <gfx> <map> <gff> <music> <sfx> <op> <raised 0/1> <value> <gfx'> <map'> <gff'> <music'> <sfx'> -> true|false
   (value syntax: None | int | O<int>/ONone | R<rows> | T<a:b:..> | B<bbb>) *)
let handle fields =
  match fields with
  | ["hold"; g; m; f; mu; sf; o; raised; v; g2; m2; f2; mu2; sf2] ->
    string_of_bool (holds_C17 (mem_of g m f mu sf) (parse_op o) (raised = "1") (parse_val v) (mem_of g2 m2 f2 mu2 sf2))
  | ["holdseq"; g; m; f; mu; sf; ops; outs; g2; m2; f2; mu2; sf2] ->
    (* outs: r:v;r:v;...  with r = 0/1 (raised) and v a value ("-" when raised) *)
    let ops = List.map parse_op (String.split_on_char ';' ops) in
    let outs = List.map (fun s -> let r = s.[0] = '1' in
                                  let v = String.sub s 2 (String.length s - 2) in
                                  (r, if r then VNone else parse_val v)) (String.split_on_char ';' outs) in
    string_of_bool (holds_C17_seq (mem_of g m f mu sf) ops outs (mem_of g2 m2 f2 mu2 sf2))
  | ["contract"; o] -> string_of_bool (in_contract (parse_op o))
  | _ -> failwith "bad request"
let () = main_loop handle
