(* C09 monitor runner.
   hold <input tokens> <tree> <end> <valid 0/1> <output tokens | !>   ->  true | false <failed clauses> *)
let clauses l = String.concat "," (List.filter_map (fun (n, b) -> if b then None else Some n) l)

let handle fields =
  match fields with
  | ["hold"; toks; t; e; valid; out] ->
    let ts = tokens_of_str toks in
    let root = tree_of_str (Array.of_list ts) t in
    let e = z_of_str e in
    let res = if out = "!" then None else Some (tokens_of_str out) in
    if holds_C09 ts root e (valid = "1") res then "true"
    else (match res with
          | None -> "false raised-on-valid-program"
          | Some o -> "false " ^ clauses ["consumed", consumed ts e; "same-code", same_code ts o;
                                         "lines-kept", lines_kept ts root o])
  | _ -> failwith "bad request"

let () = main_loop handle
