(* Parsing / printing of accessor operations and values (shared by the C17 model and monitor
   runners). op syntax: name,arg,arg,...  (rows: hex rows separated by '/', '.' = no rows;
   optional ints: N = None; optional bools: N/0/1) *)
let zopt s = if s = "N" then None else Some (z_of_str s)
let bopt s = if s = "N" then None else Some (s = "1")
let rows_of s = if s = "." then [] else List.map bytes_of_hex (String.split_on_char '/' s)
let str_of_rows rs = match rs with [] -> "." | _ -> String.concat "/" (List.map hex_of_bytes rs)
let sb b = if b then "1" else "0"

let parse_op (s : string) : op =
  let z = z_of_str in
  match String.split_on_char ',' s with
  | ["gs"; id; w; h] -> GetSprite (z id, z w, z h)
  | ["ss"; id; xo; yo; rows] -> SetSprite (z id, z xo, z yo, rows_of rows)
  | ["mgc"; x; y] -> MapGet (z x, z y)
  | ["msc"; x; y; v] -> MapSet (z x, z y, z v)
  | ["mgr"; x; y; w; h] -> MapGetRect (z x, z y, z w, z h)
  | ["msr"; x; y; rows] -> MapSetRect (z x, z y, rows_of rows)
  | ["mgp"; x; y; w; h] -> MapGetRectPx (z x, z y, z w, z h)
  | ["fg"; id; fl] -> FlagGet (z id, z fl)
  | ["fs"; id; fl] -> FlagSet (z id, z fl)
  | ["fc"; id; fl] -> FlagClear (z id, z fl)
  | ["fr"; id; fl] -> FlagReset (z id, z fl)
  | ["sgn"; id; n] -> NoteGet (z id, z n)
  | ["ssn"; id; n; p; w; v; e] -> NoteSet (z id, z n, zopt p, zopt w, zopt v, zopt e)
  | ["sgp"; id] -> SfxPropGet (z id)
  | ["ssp"; id; a; b; c; d] -> SfxPropSet (z id, zopt a, zopt b, zopt c, zopt d)
  | ["mugc"; id; ch] -> ChanGet (z id, z ch)
  | ["musc"; id; ch; pat] -> ChanSet (z id, z ch, zopt pat)
  | ["mugp"; id] -> MusPropGet (z id)
  | ["musp"; id; b; e; s] -> MusPropSet (z id, bopt b, bopt e, bopt s)
  | _ -> failwith ("bad op " ^ s)

let str_of_val (v : val0) : string =
  match v with
  | VNone -> "None"
  | VInt x -> str_of_z x
  | VOptInt None -> "None"
  | VOptInt (Some x) -> str_of_z x
  | VRows r -> "R" ^ str_of_rows r
  | VTuple t -> "T" ^ String.concat ":" (List.map str_of_z t)
  | VBools (b, e, s) -> "B" ^ sb b ^ sb e ^ sb s

let parse_val (s : string) : val0 =
  if s = "None" then VNone
  else if s.[0] = 'R' then VRows (rows_of (String.sub s 1 (String.length s - 1)))
  else if s.[0] = 'T' then VTuple (List.map z_of_str (String.split_on_char ':' (String.sub s 1 (String.length s - 1))))
  else if s.[0] = 'B' then VBools (s.[1] = '1', s.[2] = '1', s.[3] = '1')
  else if s.[0] = 'O' then VOptInt (if s = "ONone" then None else Some (z_of_str (String.sub s 1 (String.length s - 1))))
  else VInt (z_of_str s)

let mem_of g m f mu sf : mem =
  { m_gfx = bytes_of_hex g; m_map = bytes_of_hex m; m_gff = bytes_of_hex f;
    m_music = bytes_of_hex mu; m_sfx = bytes_of_hex sf }
let str_of_mem (s : mem) =
  String.concat " " (List.map hex_of_bytes [s.m_gfx; s.m_map; s.m_gff; s.m_music; s.m_sfx])
