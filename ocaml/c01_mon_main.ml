(* C01 / C19 monitor runner (reference tokenizer Spec/LuaLex.v on both texts).
   c01 <src hex> <out hex> <count_in> <count_out>  -> true | false <clause> [<index> <input token> <output token>]
        clause: 1 output does not lex, 2 tokens differ, 3 renaming, 4 line groups, 5 token count, 6 stats count
   c19 <src hex> <out hex> <title N|hex> <byline N|hex>  -> true | false <clause>
        clause: 1 output does not lex, 2 header, 3 title/byline, 4 code tokens, 6 get_title/get_byline
   lex <hex>  -> N | <number of tokens> <number of significant tokens>   (is the text inside the defined dialect?) *)
let opt_of s = if s = "N" then None else Some (bytes_of_hex s)
let show_tok o = match o with
  | None -> "-"
  | Some t -> string_of_int (int_of_z (skind_code t.s_kind)) ^ ":" ^ hex_of_bytes t.s_raw
let handle fields =
  match fields with
  | ["c01"; s; o; ci; co] ->
    let s = bytes_of_hex s and o = bytes_of_hex o in
    if holds_C01_obs s o (z_of_str ci) (z_of_str co) then "true"
    else begin
      let d = int_of_z (diag_C01 s o) in
      if d = 0 then "false 6"
      else if d = 2 then
        (match where_C01 s o with
         | Some ((k, a), b) -> "false 2 " ^ str_of_z k ^ " " ^ show_tok a ^ " " ^ show_tok b
         | None -> "false 2")
      else "false " ^ string_of_int d
    end
  | ["c19"; s; o; t; b] ->
    let s = bytes_of_hex s and o = bytes_of_hex o in
    if holds_C19_obs s o (opt_of t) (opt_of b) then "true"
    else begin
      let d = int_of_z (diag_C19 s o) in
      "false " ^ string_of_int (if d = 0 then 6 else d)
    end
  | ["lex"; s] ->
    (match spec_toks (bytes_of_hex s) with
     | None -> "N"
     | Some ts -> string_of_int (List.length ts) ^ " " ^ string_of_int (List.length (sig_toks ts)))
  | _ -> failwith "bad request"
let () = main_loop handle
