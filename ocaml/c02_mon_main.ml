(* C02 monitor runner.  Name lists: "_" = empty list, else comma separated hex ("-" = empty name).
   <clause> <keep_all 0/1> <keep names> <reserved names> <names> <outs>  -> true|false
   clause: hold (all) | length | consistent | injective | kept | fresh *)
let names_of_str s =
  if s = "_" then [] else List.map bytes_of_hex (String.split_on_char ',' s)
let handle fields =
  match fields with
  | [cl; ka; keep; reserved; names; outs] ->
    let ka = (ka = "1") and keep = names_of_str keep and reserved = names_of_str reserved
    and names = names_of_str names and outs = names_of_str outs in
    string_of_bool (match cl with
      | "hold" -> holds_C02 ka keep reserved names outs
      | "length" -> holds_length names outs
      | "consistent" -> holds_consistent names outs
      | "injective" -> holds_injective names outs
      | "kept" -> holds_kept ka keep reserved names outs
      | "fresh" -> holds_fresh ka keep reserved names outs
      | _ -> failwith "bad clause")
  | _ -> failwith "bad request"
let () = main_loop handle
