(* Glue shared by the runners of the Lua text stack (C08 C09 C10): token lists and syntax
   trees on the line protocol.  Appended after the extracted code and io.ml.

   token      <class letter><q>.<data hex>[.<code hex>]     (code omitted when equal to data)
              class letters: S space, N newline, C comment, T string, U number, A name,
              L label, K keyword, Y symbol;  q = quote info of strings, else 0
   token list tokens joined by ','   ("-" = empty)
   tree       N<tag>:<start>:<end>:<0|1>(<field>,...)   T<token index>   L(<item>,...)
              Z (None)   Bt / Bf   Y<hex> (bytes)
              hidden entries of the model (Kw, Hid) are not printed; Paren is transparent *)

let kclass_of_char c =
  match c with
  | 'S' -> CSpace | 'N' -> CNewline | 'C' -> CComment | 'T' -> CString | 'U' -> CNumber
  | 'A' -> CName | 'L' -> CLabel | 'K' -> CKeyword | 'Y' -> CSymbol
  | _ -> failwith "bad token class"

let token_of_str (s : string) : token =
  match String.split_on_char '.' s with
  | [h; d] ->
    let data = bytes_of_hex d in
    { tk = kclass_of_char h.[0]; tq = z_of_int (int_of_string (String.sub h 1 (String.length h - 1)));
      tdata = data; tcode = data }
  | [h; d; c] ->
    { tk = kclass_of_char h.[0]; tq = z_of_int (int_of_string (String.sub h 1 (String.length h - 1)));
      tdata = bytes_of_hex d; tcode = bytes_of_hex c }
  | _ -> failwith "bad token"

let tokens_of_str (s : string) : token list =
  if s = "-" then [] else List.map token_of_str (String.split_on_char ',' s)

let rec dump_tree (b : Buffer.t) (t : tree) : unit =
  match t with
  | Node (tag, s, e, sh, fs) ->
    Buffer.add_string b (Printf.sprintf "N%d:%d:%d:%d(" (int_of_z tag) (int_of_z s) (int_of_z e) (if sh then 1 else 0));
    dump_list b fs; Buffer.add_char b ')'
  | Tok (i, _) -> Buffer.add_string b (Printf.sprintf "T%d" (int_of_z i))
  | Lst l -> Buffer.add_string b "L("; dump_list b l; Buffer.add_char b ')'
  | PNone -> Buffer.add_char b 'Z'
  | PBool v -> Buffer.add_string b (if v then "Bt" else "Bf")
  | PBytes v -> Buffer.add_char b 'Y'; Buffer.add_string b (hex_of_bytes v)
  | Kw _ -> () | Hid _ -> ()
  | Paren (_, _, x) -> dump_tree b x
and dump_list b l =
  let first = ref true in
  List.iter (fun x ->
    match x with
    | Kw _ | Hid _ -> ()
    | _ -> (if not !first then Buffer.add_char b ','); first := false; dump_tree b x) l

let str_of_tree (t : tree) : string =
  let b = Buffer.create 1024 in dump_tree b t; Buffer.contents b

(* reader for the same syntax; tokens are looked up in the token array *)
let tree_of_str (toks : token array) (s : string) : tree =
  let n = String.length s in
  let pos = ref 0 in
  let peek () = if !pos < n then s.[!pos] else '\000' in
  let next () = let c = peek () in incr pos; c in
  let read_int () =
    let st = !pos in
    if peek () = '-' then incr pos;
    while (match peek () with '0'..'9' -> true | _ -> false) do incr pos done;
    int_of_string (String.sub s st (!pos - st)) in
  let read_hex () =
    let st = !pos in
    while (match peek () with '0'..'9' | 'a'..'f' | '-' -> true | _ -> false) do incr pos done;
    bytes_of_hex (String.sub s st (!pos - st)) in
  let expect c = if next () <> c then failwith "bad tree syntax" in
  let rec tree () =
    match next () with
    | 'N' ->
      let tag = read_int () in expect ':';
      let st = read_int () in expect ':';
      let en = read_int () in expect ':';
      let sh = read_int () in
      let fs = items () in
      Node (z_of_int tag, z_of_int st, z_of_int en, sh = 1, fs)
    | 'T' ->
      let i = read_int () in
      if i < 0 || i >= Array.length toks then failwith "token index out of range";
      Tok (z_of_int i, toks.(i))
    | 'L' -> Lst (items ())
    | 'Z' -> PNone
    | 'B' -> (match next () with 't' -> PBool true | 'f' -> PBool false | _ -> failwith "bad bool")
    | 'Y' -> PBytes (read_hex ())
    | 'W' -> Kw (z_of_int (read_int ()))
    | 'P' ->
      let i = read_int () in expect ':';
      let j = read_int () in expect '(';
      let x = tree () in expect ')';
      Paren (z_of_int i, z_of_int j, x)
    | 'H' -> expect '('; let x = tree () in expect ')'; Hid x
    | _ -> failwith "bad tree syntax"
  and items () =
    expect '(';
    if peek () = ')' then (incr pos; [])
    else begin
      let acc = ref [tree ()] in
      while peek () = ',' do incr pos; acc := tree () :: !acc done;
      expect ')';
      List.rev !acc
    end in
  let t = tree () in
  if !pos <> n then failwith "trailing characters after tree";
  t
