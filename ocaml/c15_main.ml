(* C15 model runner.
   p2u <hex>      -> code points (comma separated)
   u2p <ints>     -> OK <hex> | ERR <name>
   enc <ints>     -> <hex>
   dec <hex>      -> OK <ints> | NONE *)
let handle fields =
  match fields with
  | ["p2u"; h] -> str_of_ints (p8_p2u (bytes_of_hex h))
  | ["u2p"; s] -> (match p8_u2p (ints_of_str s) with Ok b -> "OK " ^ hex_of_bytes b | Err e -> "ERR " ^ err_name e)
  | ["enc"; s] -> hex_of_bytes (utf8_encode (ints_of_str s))
  | ["dec"; h] -> (match utf8_decode (bytes_of_hex h) with Some l -> "OK " ^ str_of_ints l | None -> "NONE")
  | _ -> failwith "bad request"
let () = main_loop handle
