(* C13 monitor runner.  Contents are interned identifiers (integers; equal id <-> equal bytes).
   holds <out> <srcs> <empties> <lua_path> <files> <empty> <failed 0/1> <untouched 0/1> <after>  -> true|false
     srcs    : six entries joined by ',' in the order lua,gfx,gff,map,sfx,music : ~ | <hex name>
     empties : six 0/1 joined by ','
     files / cart syntax as in c13_main.ml
     after   : ~ | <lua>/<gfx>/<gff>/<map>/<sfx>/<music>/<label|~>
   spec <out> <srcs> <empties> <lua_path> <files> <empty>   -> FAIL | OK <secs> <keep:<label|~> | any> *)
let all_errs = [AssertionError; IndexError; ValueError; TypeError; KeyError; UnicodeError; LexerError; ParserError;
                AttributeError; InvalidP8Header; InvalidP8Section; IncludeOutside; IncludeNotFound; BuildError;
                OtherError; OutOfFuel]
let err_of_name s = try List.find (fun e -> err_name e = s) all_errs with Not_found -> OtherError
let split c s = String.split_on_char c s
let opt_id s = if s = "~" then None else Some (z_of_str s)
let str_opt o = match o with None -> "~" | Some x -> str_of_z x
let parse_cart s =
  match split '.' s with
  | ["E"; e] -> Err (err_of_name e)
  | ["C"; body] ->
    (match split '/' body with
     | [a; b; c; d; e; f; l; v] ->
       Ok { c_secs = { x_lua = z_of_str a; x_gfx = z_of_str b; x_gff = z_of_str c; x_map = z_of_str d;
                       x_sfx = z_of_str e; x_music = z_of_str f };
            c_label = opt_id l; c_version = z_of_str v }
     | _ -> failwith "bad cart")
  | _ -> failwith "bad cart"
let parse_lua s =
  match split '.' s with
  | ["E"; e] -> Err (err_of_name e)
  | ["L"; i] -> Ok (z_of_str i)
  | _ -> failwith "bad lua"
let parse_files s =
  if s = "~" then [] else
  List.map (fun t -> match split ':' t with
    | [n; ex; c; l; lb] -> (bytes_of_hex n, (ex = "1", parse_cart c, parse_lua l, opt_id lb))
    | _ -> failwith "bad file entry") (split ',' s)
let mk_world files empty =
  let find p = try Some (List.assoc p files) with Not_found -> None in
  { w_exists = (fun p -> match find p with Some (e, _, _, _) -> e | None -> false);
    w_cart = (fun p -> match find p with Some (_, c, _, _) -> c | None -> Err OtherError);
    w_luafile = (fun p _ -> match find p with Some (_, _, l, _) -> l | None -> Err OtherError);
    w_empty = empty;
    w_png_label = (fun p -> match find p with Some (_, _, _, lb) -> lb | None -> None) }
let sec_index s = match s with SLua -> 0 | SGfx -> 1 | SGff -> 2 | SMap -> 3 | SSfx -> 4 | SMusic -> 5
let mk_args out srcs empties lp =
  let srcs = Array.of_list (split ',' srcs) and empties = Array.of_list (split ',' empties) in
  if Array.length srcs <> 6 || Array.length empties <> 6 then failwith "bad args";
  { b_out = bytes_of_hex out;
    b_src = (fun s -> let t = srcs.(sec_index s) in if t = "~" then None else Some (bytes_of_hex t));
    b_empty = (fun s -> empties.(sec_index s) = "1");
    b_lua_path = (if lp = "~" then None else Some (bytes_of_hex lp)) }
let str_secs s =
  String.concat "/" [str_of_z s.x_lua; str_of_z s.x_gfx; str_of_z s.x_gff; str_of_z s.x_map; str_of_z s.x_sfx; str_of_z s.x_music]
let zeqb a b = zlist_eqb [a] [b]
let world_of files empty = mk_world (parse_files files) (match parse_cart empty with Ok c -> c | Err _ -> failwith "bad empty")
let handle fields =
  match fields with
  | ["holds"; out; srcs; empties; lp; files; empty; failed; untouched; after] ->
    let w = world_of files empty in
    let args = mk_args out srcs empties lp in
    let aft = if after = "~" then None else
        (match split '/' after with
         | [a; b; c; d; e; f; l] ->
           Some ({ x_lua = z_of_str a; x_gfx = z_of_str b; x_gff = z_of_str c; x_map = z_of_str d;
                   x_sfx = z_of_str e; x_music = z_of_str f }, opt_id l)
         | _ -> failwith "bad after") in
    string_of_bool (holds_C13 zeqb w args { o_failed = (failed = "1"); o_untouched = (untouched = "1"); o_after = aft })
  | ["spec"; out; srcs; empties; lp; files; empty] ->
    let w = world_of files empty in
    let args = mk_args out srcs empties lp in
    (match build_spec w args with
     | None -> "FAIL"
     | Some (x, req) -> "OK " ^ str_secs x ^ " " ^ (match req with KeepLabel l -> "keep:" ^ str_opt l | AnyLabel -> "any"))
  | _ -> failwith "bad request"
let () = main_loop handle
