"""Regenerate rocq/theories/Generated/*.v from /repo's working tree.

Run under /venv/bin/python with PYTHONPATH=/repo (the harness does that).
Writes a file only when its content changed, so `make` stays incremental but is never
stale.  Each generated file covers one source module, so a construct the translator does
not understand breaks only the cone of properties that depend on that module.

Usage: gen.py <outdir> [--repo /repo]
Prints a JSON report {file: {kernels: n, failed: [...], changed: bool}} on stdout.
"""
import ast
import importlib
import json
import os
import random
import sys

sys.path.insert(0, os.path.dirname(os.path.abspath(__file__)))
import py2gallina as P  # noqa: E402
import kernels as KS    # noqa: E402

HEADER = ('(* GENERATED from %s by /verif/gen/gen.py -- do not edit; rewritten on every run. *)\n'
          'From Coq Require Import ZArith List Bool.\nImport ListNotations.\nOpen Scope Z_scope.\n\n')


def zlist(xs):
    return '[' + '; '.join(str(int(x)) if x >= 0 else '(%d)' % x for x in xs) + ']'


def zlistlist(xss):
    return '[' + ';\n   '.join(zlist(xs) for xs in xss) + ']'


def write_if_changed(path, text):
    old = None
    if os.path.exists(path):
        with open(path) as fh:
            old = fh.read()
    if old != text:
        with open(path, 'w') as fh:
            fh.write(text)
        return True
    return False


def eval_kernel_py(node, tr, g, rng):
    """Evaluate the selected Python expression on random arguments (translator self-test)."""
    import copy
    samples = []
    corner = [0, 1, 2, 3, 7, 8, 15, 16, 31, 32, 63, 64, 127, 128, 129, 255, 256,
              0x1fff, 0x2000, 0x2fff, 0x3000, 0x42ff, 0x4300, 0x4301]
    norm = P.Normalizer(tr).visit(copy.deepcopy(node))
    code = compile(ast.Expression(body=ast.fix_missing_locations(norm)), '<kernel>', 'eval')
    tries = 0
    while len(samples) < 24 and tries < 400:
        tries += 1
        env = {k: v for k, v in g.items() if isinstance(v, (int, bytes, list, tuple))}
        args = []
        for p in tr.params:
            t = tr.ptype[p]
            if t == 'Z':
                v = rng.choice(corner) if rng.random() < 0.5 else rng.randrange(0, 70000)
                if rng.random() < 0.1 and not p.startswith('len_'):
                    v = -v
                args.append(('Z', v))
                env[p] = v
            elif t == 'bool':
                v = rng.random() < 0.5
                args.append(('bool', v))
                env[p] = v
            else:
                arr = [rng.randrange(256) for _ in range(8)]
                args.append(('arr', arr))
                env[p] = ModArr(arr)
        try:
            r = eval(code, {'__builtins__': {'len': len, 'min': min, 'max': max}}, env)
        except Exception:
            continue
        if isinstance(r, bool):
            samples.append((args, ('bool', r)))
        elif isinstance(r, int):
            samples.append((args, ('Z', r)))
    return samples


class ModArr:
    """Total array: index taken modulo 8 (the Coq side does the same)."""
    def __init__(self, arr):
        self.arr = arr

    def __getitem__(self, i):
        return self.arr[i % 8]


def coq_arg(a):
    t, v = a
    if t == 'Z':
        return str(v) if v >= 0 else '(%d)' % v
    if t == 'bool':
        return 'true' if v else 'false'
    return '(fun i => nth (Z.to_nat (i mod 8)) %s 0)' % zlist(v)


def gen_kernel_file(repo, modname, relpath, specs, outdir, seed):
    path = os.path.join(repo, relpath)
    with open(path) as fh:
        src = fh.read()
    tree = ast.parse(src)
    mod = importlib.import_module(modname)
    g = {k: v for k, v in vars(mod).items() if not k.startswith('__')}
    out = [HEADER % relpath]
    tests = [HEADER % relpath, 'From PV Require Import Generated.%s.\n\n' % specs['file']]
    failed = []
    rng = random.Random(seed)
    for k in specs['kernels']:
        text, errmsg = P.translate_kernel(tree, g, k['name'], k['fn'], k['sel'], k['params'], k['ret'])
        out.append(text + '\n')
        if errmsg is not None:
            failed.append({'kernel': k['name'], 'reason': errmsg})
            continue
        # translator self-test lemma: Coq evaluation == Python evaluation on random tuples
        fn = P.find_function(tree, k['fn'])
        node = P.select(fn, k['sel'])
        tr = P.Translator(g, k['params'])
        if k['ret'] == 'bytes':
            continue
        samples = eval_kernel_py(node, tr, g, rng)
        if samples:
            lhs = '; '.join('%s %s' % (k['name'], ' '.join(coq_arg(a) for a in args)) for args, _ in samples)
            rhs = '; '.join(coq_arg(r) for _, r in samples)
            tests.append('Lemma kt_%s : [%s]\n  = [%s].\nProof. vm_compute. reflexivity. Qed.\n\n' % (k['name'], lhs, rhs))
    extra = specs.get('extra')
    if extra:
        out.append(extra(mod, tree, src))
    changed = write_if_changed(os.path.join(outdir, specs['file'] + '.v'), ''.join(out))
    changed_t = write_if_changed(os.path.join(outdir, specs['file'] + '_selftest.v'), ''.join(tests))
    return {'kernels': len(specs['kernels']), 'failed': failed, 'changed': changed or changed_t}


def main():
    outdir = sys.argv[1]
    repo = '/repo'
    if '--repo' in sys.argv:
        repo = sys.argv[sys.argv.index('--repo') + 1]
    only = None
    if '--only' in sys.argv:
        only = set(sys.argv[sys.argv.index('--only') + 1].split(','))
    os.makedirs(outdir, exist_ok=True)
    report = {}
    for modname, relpath, specs in KS.MODULES:
        if only and specs['file'] not in only:
            continue
        try:
            report[specs['file']] = gen_kernel_file(repo, modname, relpath, specs, outdir, seed=20260926)
        except Exception as e:  # import failure etc.: fail closed for this module
            text = HEADER % relpath + 'Definition generation_failed := untranslatable__module__%s.\n' % (
                ''.join(ch if ch.isalnum() else '_' for ch in '%s_%s' % (type(e).__name__, e))[:120])
            write_if_changed(os.path.join(outdir, specs['file'] + '.v'), text)
            write_if_changed(os.path.join(outdir, specs['file'] + '_selftest.v'), HEADER % relpath)
            report[specs['file']] = {'kernels': 0, 'failed': [{'kernel': '*', 'reason': repr(e)}], 'changed': True}
    json.dump(report, sys.stdout, indent=1)
    print()


if __name__ == '__main__':
    main()
