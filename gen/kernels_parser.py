"""Tables regenerated for the parser stack (C08 C09 C10).

T_parser  (pico8/lua/parser.py, runtime values): BINOP_PATS and UNOP_PATS in order
          (kind 0 = TokSymbol, 1 = TokKeyword; data bytes) and _ast_node_types (class name,
          field names) in order.  A node tag of the model is the index in this table.
T_fmtre   (pico8/lua/lua.py, source text): the re.sub pipelines of
          LuaFormatterWriter._get_code_for_spaces and LuaMinifyWriter._get_code_for_spaces,
          in statement order.  Each step is emitted as raw data
             (source bytes, (anchored at start, atoms, anchored at end), replacement pieces, guard)
          atoms   = [(byte set, (min, max))]   max = -1 for unbounded (greedy)
          pieces  = [(0, literal bytes) | (1, [])]   1 = b' ' * self._indent_mult * self._indent
          guard   = 0 always | 1 start_pos != 0 | 2 start_pos == 0 | 3 self._pos == len(self._tokens)
          Fail closed: any statement of the pipeline part that is not of this shape, any regex
          outside the fragment (literal / set / greedy repeat of a literal or set / leading ^ /
          trailing $), any other replacement expression or guard makes the definition an unbound
          identifier, so the cone does not compile.  The sources are additionally pinned by
          reflexivity lemmas in Proofs/FmtSpacesProofs.v (number and order of the re.sub calls).
"""
import ast

try:
    import re._parser as _sre
    import re._constants as _srec
except ImportError:  # older Pythons
    import sre_parse as _sre
    import sre_constants as _srec


def _zl(xs):
    return '[' + '; '.join(str(int(x)) for x in xs) + ']'


# ----------------------------------------------------------------------------- parser.py
def parser_extra(mod, tree, src):
    from pico8.lua import lexer

    def pats(ps, what):
        rows = []
        for p in ps:
            if type(p) is lexer.TokSymbol:
                k = 0
            elif type(p) is lexer.TokKeyword:
                k = 1
            else:
                return 'Definition %s := untranslatable__%s__pattern_kind.\n' % (what, what)
            rows.append('(%d, %s)' % (k, _zl(p._data)))
        return 'Definition %s : list (Z * list Z) :=\n  [%s].\n\n' % (what, ';\n   '.join(rows))

    out = ['(* BINOP_PATS / UNOP_PATS in tuple order: (0 symbol | 1 keyword, data) *)\n',
           pats(mod.BINOP_PATS, 'binop_pats'), pats(mod.UNOP_PATS, 'unop_pats')]
    rows = []
    for name, fields in mod._ast_node_types:
        cls = getattr(mod, name, None)
        if cls is None or tuple(cls._fields) != tuple(fields) or cls._name != name:
            return 'Definition ast_node_types := untranslatable__ast_node_types__class_%s.\n' % name
        rows.append('(%s, [%s])' % (_zl(name.encode()), '; '.join(_zl(f.encode()) for f in fields)))
    out.append('(* _ast_node_types in order: (class name, field names); node tag = index *)\n'
               'Definition ast_node_types : list (list Z * list (list Z)) :=\n  [%s].\n' % ';\n   '.join(rows))
    return ''.join(out)


PARSER = {'file': 'T_parser', 'kernels': [], 'extra': parser_extra}


# ----------------------------------------------------------------------------- lua.py re.sub pipelines
class _Bad(Exception):
    pass


def _simple_pattern(src):
    """regex source -> (anchored_start, [(set, min, max)], anchored_end) or raise _Bad."""
    try:
        p = _sre.parse(src)
    except Exception:
        raise _Bad('regex_does_not_parse')
    if p.state.flags & ~(_srec.SRE_FLAG_UNICODE):
        # bytes patterns carry no flag; str patterns would carry UNICODE
        if p.state.flags:
            raise _Bad('regex_flags')
    items = list(p)
    a0 = a1 = False
    if items and items[0] == (_srec.AT, _srec.AT_BEGINNING):
        a0 = True
        items = items[1:]
    if items and items[-1] == (_srec.AT, _srec.AT_END):
        a1 = True
        items = items[:-1]

    def cset(it):
        op, av = it
        if op == _srec.LITERAL:
            return [av]
        if op == _srec.IN:
            s = []
            for o2, a2 in av:
                if o2 != _srec.LITERAL:
                    raise _Bad('regex_set_item')
                s.append(a2)
            return s
        raise _Bad('regex_atom_%s' % str(op).lower())
    atoms = []
    for it in items:
        op, av = it
        if op == _srec.MAX_REPEAT:
            lo, hi, sub = av
            sub = list(sub)
            if len(sub) != 1 or lo not in (0, 1) or hi not in (1, _srec.MAXREPEAT):
                raise _Bad('regex_repeat')
            atoms.append((cset(sub[0]), lo, 1 if hi == 1 else -1))
        else:
            atoms.append((cset(it), 1, 1))
    if not atoms and not (a0 or a1):
        raise _Bad('regex_empty')
    return a0, atoms, a1


_GUARDS = {
    'start_pos != 0': 1,
    'start_pos == 0': 2,
    'self._pos == len(self._tokens)': 3,
}


def _repl_pieces(e):
    """replacement expression -> [(0, bytes) | (1, b'')] or raise _Bad."""
    if isinstance(e, ast.Constant) and isinstance(e.value, bytes):
        if b'\\' in e.value:
            raise _Bad('replacement_with_backslash')
        return [(0, e.value)]
    if isinstance(e, ast.BinOp) and isinstance(e.op, ast.Add):
        return _repl_pieces(e.left) + _repl_pieces(e.right)
    if isinstance(e, ast.BinOp) and isinstance(e.op, ast.Mult):
        if ast.unparse(e) == "b' ' * self._indent_mult * self._indent":
            return [(1, b'')]
    raise _Bad('replacement_expression')


def _pipeline(tree, qualname):
    """-> list of (src, pattern, pieces, guard) in statement order; raise _Bad."""
    import py2gallina as P
    fn = P.find_function(tree, qualname)
    steps = []
    started = False

    def sub_call(st):
        """`spaces = re.sub(<const>, <repl>, spaces)` -> (src, repl expr) | None"""
        if not (isinstance(st, ast.Assign) and len(st.targets) == 1 and isinstance(st.targets[0], ast.Name)
                and st.targets[0].id == 'spaces' and isinstance(st.value, ast.Call)):
            return None
        c = st.value
        if ast.unparse(c.func) != 're.sub':
            return None
        if len(c.args) != 3 or c.keywords or not isinstance(c.args[0], ast.Constant) \
                or not isinstance(c.args[0].value, bytes) or ast.unparse(c.args[2]) != 'spaces':
            raise _Bad('re_sub_call_shape')
        return c.args[0].value, c.args[1]

    def has_sub(node):
        return any(isinstance(n, ast.Attribute) and ast.unparse(n) == 're.sub' for n in ast.walk(node))

    for st in fn.body:
        if isinstance(st, ast.Expr) and isinstance(st.value, ast.Constant):
            continue   # docstring
        sc = sub_call(st)
        if sc is not None:
            started = True
            steps.append((sc[0], _simple_pattern(sc[0]), _repl_pieces(sc[1]), 0))
            continue
        if isinstance(st, ast.If) and has_sub(st):
            started = True
            g = _GUARDS.get(ast.unparse(st.test))
            if g is None or st.orelse:
                raise _Bad('guard_expression')
            for s2 in st.body:
                sc = sub_call(s2)
                if sc is None:
                    raise _Bad('guarded_statement')
                steps.append((sc[0], _simple_pattern(sc[0]), _repl_pieces(sc[1]), g))
            continue
        if has_sub(st):
            raise _Bad('re_sub_in_other_statement')
        if started and not (isinstance(st, ast.Return) and ast.unparse(st) == 'return spaces'):
            raise _Bad('statement_after_pipeline')
    if not steps:
        raise _Bad('no_re_sub')
    return steps


def _emit_pipeline(name, steps):
    rows = []
    for src, (a0, atoms, a1), pieces, g in steps:
        at = '; '.join('(%s, (%d, %d))' % (_zl(s), lo, hi) for s, lo, hi in atoms)
        pc = '; '.join('(%d, %s)' % (k, _zl(b)) for k, b in pieces)
        rows.append('(%s, (%s, [%s], %s), [%s], %d)' % (
            _zl(src), 'true' if a0 else 'false', at, 'true' if a1 else 'false', pc, g))
    return ('Definition %s : list (list Z * (bool * list (list Z * (Z * Z)) * bool) * list (Z * list Z) * Z) :=\n  [%s].\n\n'
            % (name, ';\n   '.join(rows)) +
            'Definition %s_sources : list (list Z) :=\n  [%s].\n\n' % (name, ';\n   '.join(_zl(s[0]) for s in steps)))


def fmtre_extra(mod, tree, src):
    out = ['(* re.sub pipelines, in order: (source, (^, atoms, $), replacement pieces, guard); see gen/kernels_parser.py *)\n']
    for name, qn in (('fmt_subs', 'LuaFormatterWriter._get_code_for_spaces'),
                     ('min_subs', 'LuaMinifyWriter._get_code_for_spaces')):
        try:
            out.append(_emit_pipeline(name, _pipeline(tree, qn)))
        except _Bad as e:
            out.append('Definition %s := untranslatable__%s__%s.\n' % (name, name, e.args[0]))
        except Exception as e:  # Untranslatable from find_function etc.
            out.append('Definition %s := untranslatable__%s__%s.\n' % (
                name, name, ''.join(ch if ch.isalnum() else '_' for ch in str(e))[:60]))
    out.append('Definition fmt_default_indent_width : Z := %d.\n' % mod.LuaFormatterWriter.DEFAULT_INDENT_WIDTH)
    return ''.join(out)


FMTRE = {'file': 'T_fmtre', 'kernels': [], 'extra': fmtre_extra}

MODULES = [
    ('pico8.lua.parser', 'pico8/lua/parser.py', PARSER),
    ('pico8.lua.lua', 'pico8/lua/lua.py', FMTRE),
]
