"""Regenerated tables of the lexer stack (C07 C06 C02 C19 C01).

T_lexer  (pico8/lua/lexer.py, runtime values):
  lua_keywords (sorted), keyword_order / symbols (order of _TOKEN_MATCHERS), token_matchers
  (every entry of _TOKEN_MATCHERS classified into a matcher id + token class; a pattern that is
  not recognised - or a symbol pattern that is not a pure literal - becomes an unbound
  identifier, so the cone fails closed), matcher_sources (the .pattern text of every
  non-keyword non-symbol matcher, pinned by a reflexivity lemma in Proofs/LexerProofs.v),
  string_escapes / string_reverse_escapes (dict items, insertion order, last-wins already
  applied by Python), process_token_regexes (bytes literals passed to re.* inside
  Lexer._process_token, source order).
T_luanames (pico8/lua/lua.py): pico8_builtins (sorted), name_chars, the two integer kernels of
  MinifyNameFactory._name_for_id and the pinned text of its (float) division.
"""
import ast

from kernels import K

KIND = {'TokSpace': 'KSpace', 'TokNewline': 'KNewline', 'TokComment': 'KComment', 'TokString': 'KString',
        'TokNumber': 'KNumber', 'TokName': 'KName', 'TokLabel': 'KLabel', 'TokKeyword': 'KKeyword',
        'TokSymbol': 'KSymbol'}

# pattern source -> matcher id.  The scanners of Model/Lexer.v are written for exactly these sources.
PINS = {
    br'--[^\r\n]*': 'MCommentDash',
    br'//[^\r\n]*': 'MCommentSlash',
    br'[ \t]+': 'MSpace',
    br'\r\n': 'MNlCrLf',
    br'\n': 'MNlLf',
    br'\r': 'MNlCr',
    br'0[xX][0-9a-fA-F]+(\.[0-9a-fA-F]+)?': 'MNumHex',
    br'0[xX]\.[0-9a-fA-F]+': 'MNumHexFrac',
    br'0[bB][01]+(\.[01]+)?': 'MNumBin',
    br'0[bB]\.[01]+': 'MNumBinFrac',
    br'[0-9]+(\.(?!\.)[0-9]*)?([eE]-?[0-9]+)?': 'MNumDec',
    br'\.[0-9]+([eE]-?[0-9]+)?': 'MNumDecFrac',
    br'::[a-zA-Z_\x80-\xff][a-zA-Z0-9_\x80-\xff]*::': 'MLabel',
    br'[a-zA-Z_\x80-\xff][a-zA-Z0-9_\x80-\xff]*': 'MName',
    br'\?': 'MQmark',
}


KW_TAIL = br'(?![a-zA-Z0-9_\x80-\xff])'


def zl(bs):
    return '[' + '; '.join(str(int(b)) for b in bs) + ']'


def zll(bss, sep=';\n   '):
    return '[' + sep.join(zl(b) for b in bss) + ']'


def pure_literal(pattern):
    """bytes of a regex that is a plain concatenation of literal characters, else None."""
    import re
    try:
        parser = re._parser
    except AttributeError:  # older Pythons
        import sre_parse as parser
    try:
        p = parser.parse(pattern)
    except Exception:
        return None
    out = []
    for op, av in p:
        if str(op) != 'LITERAL':
            return None
        out.append(av)
    return bytes(out)


def lexer_extra(mod, tree, src):
    import py2gallina as P
    out = []
    out.append('Inductive tok_kind : Set :=\n| KSpace | KNewline | KComment | KString | KNumber | KName | KLabel | KKeyword | KSymbol.\n\n')
    out.append('Inductive matcher_id : Set :=\n| MCommentDash | MCommentSlash | MSpace | MNlCrLf | MNlLf | MNlCr\n'
               '| MNumHex | MNumHexFrac | MNumBin | MNumBinFrac | MNumDec | MNumDecFrac | MLabel\n'
               '| MKeyword (k : list Z) | MSymbol (s : list Z) | MName | MQmark.\n\n')
    kws = sorted(mod.LUA_KEYWORDS)
    out.append('(* LUA_KEYWORDS, sorted *)\nDefinition lua_keywords : list (list Z) :=\n  %s.\n\n' % zll(kws))
    rows, sources, kw_order, symbols = [], [], [], []
    for i, (pat, cls) in enumerate(mod._TOKEN_MATCHERS):
        ps = pat.pattern
        kind = KIND.get(getattr(cls, '__name__', None))
        if kind is None or not isinstance(ps, bytes) or pat.flags != 0:
            rows.append('(untranslatable__matcher_%d_class_or_flags, KSpace)' % i)
            continue
        if ps in PINS:
            rows.append('(%s, %s)' % (PINS[ps], kind))
            sources.append(ps)
            continue
        # \b<keyword>(?!<name byte>)  -  the scanner scan_keyword of Model/Lexer.v is written for this shape
        if ps.startswith(br'\b') and ps.endswith(KW_TAIL) and ps[2:-len(KW_TAIL)] in mod.LUA_KEYWORDS \
                and kind == 'KKeyword':
            rows.append('(MKeyword %s, %s)' % (zl(ps[2:-len(KW_TAIL)]), kind))
            kw_order.append(ps[2:-len(KW_TAIL)])
            continue
        lit = pure_literal(ps)
        if lit and kind == 'KSymbol':
            rows.append('(MSymbol %s, %s)' % (zl(lit), kind))
            symbols.append(lit)
            continue
        rows.append('(untranslatable__matcher_%d_pattern_not_recognised, %s)' % (i, kind))
    out.append('(* _TOKEN_MATCHERS in table order: (matcher, token class) *)\n'
               'Definition token_matchers : list (matcher_id * tok_kind) :=\n  [%s].\n\n' % ';\n   '.join(rows))
    out.append('(* .pattern of every non-keyword non-symbol matcher, table order *)\n'
               'Definition matcher_sources : list (list Z) :=\n  %s.\n\n' % zll(sources))
    out.append('(* keywords in the order their patterns appear in the table (set iteration order) *)\n'
               'Definition keyword_order : list (list Z) :=\n  %s.\n\n' % zll(kw_order))
    out.append('(* symbol literals in table order *)\nDefinition symbols : list (list Z) :=\n  %s.\n\n' % zll(symbols, '; '))
    esc = ';\n   '.join('(%s, %s)' % (zl(k), zl(v)) for k, v in mod._STRING_ESCAPES.items())
    rev = ';\n   '.join('(%s, %s)' % (zl(k), zl(v)) for k, v in mod._STRING_REVERSE_ESCAPES.items())
    out.append('(* runtime value of _STRING_ESCAPES (dict items) *)\n'
               'Definition string_escapes : list (list Z * list Z) :=\n  [%s].\n\n' % esc)
    out.append('(* runtime value of _STRING_REVERSE_ESCAPES (dict items) *)\n'
               'Definition string_reverse_escapes : list (list Z * list Z) :=\n  [%s].\n\n' % rev)
    # bytes literals inside the arguments of re.<fn>(...) calls of Lexer._process_token, source order
    try:
        fn = P.find_function(tree, 'Lexer._process_token')
        lits = []
        for n in P.ordered_nodes(fn):
            if isinstance(n, ast.Call) and isinstance(n.func, ast.Attribute) and \
                    isinstance(n.func.value, ast.Name) and n.func.value.id == 're' and n.args:
                for c in ast.walk(n.args[0]):
                    if isinstance(c, ast.Constant) and isinstance(c.value, bytes):
                        lits.append((c.lineno, c.col_offset, c.value))
        lits.sort()
        out.append('(* bytes literals in the pattern arguments of the re.* calls of Lexer._process_token *)\n'
                   'Definition process_token_regexes : list (list Z) :=\n  %s.\n' % zll([v for _, _, v in lits]))
    except Exception as e:  # fail closed
        out.append('Definition process_token_regexes := untranslatable__process_token_regexes.\n')
    return ''.join(out)


LEXER = {'file': 'T_lexer', 'kernels': [], 'extra': lexer_extra}


def luanames_extra(mod, tree, src):
    import py2gallina as P
    out = []
    out.append('(* PICO8_BUILTINS, sorted *)\nDefinition pico8_builtins : list (list Z) :=\n  %s.\n\n'
               % zll(sorted(mod.PICO8_BUILTINS)))
    out.append('(* MinifyNameFactory.PRESERVED_NAMES, sorted *)\nDefinition preserved_names : list (list Z) :=\n  %s.\n\n'
               % zll(sorted(mod.MinifyNameFactory.PRESERVED_NAMES)))
    out.append('Definition name_chars : list Z := %s.\n\n' % zl(mod.MinifyNameFactory.NAME_CHARS))
    # the quotient int(id / len(NAME_CHARS)) uses float division: not an integer kernel; pin its text
    try:
        fn = P.find_function(tree, 'MinifyNameFactory._name_for_id')
        call = P.select(fn, ('call', 'int', 0))
        text = ast.unparse(call).encode()
        out.append('(* the recursive-call argument of _name_for_id (float division, then int()) *)\n'
                   'Definition nfi_quotient_src : list Z := %s.\n' % zl(text))
        ret = P.select(fn, ('return', 0, None))
        out.append('Definition nfi_return_src : list Z := %s.\n' % zl(ast.unparse(ret).encode()))
    except Exception:
        out.append('Definition nfi_quotient_src := untranslatable__nfi_quotient.\n')
    return ''.join(out)


NFI = 'MinifyNameFactory._name_for_id'
LUANAMES = {
    'file': 'T_luanames',
    'kernels': [
        K('nfi_recurse', NFI, ('if', 0), ['id'], 'bool'),
        K('nfi_digit_idx', NFI, ('idx_of', ('elt', ('arg_of', ('call', 'bytes', 0), 0), 0)), ['id']),
    ],
    'extra': luanames_extra,
}

MODULES = [
    ('pico8.lua.lexer', 'pico8/lua/lexer.py', LEXER),
    ('pico8.lua.lua', 'pico8/lua/lua.py', LUANAMES),
]
