#!/usr/bin/env python3
"""Developer step (not run by the checks): write the committed pin lemma files from /repo's current sources.

  PYTHONPATH=/repo /venv/bin/python gen/mkpins.py [file id ...]      (ids: gen/kernels_pins.py PINS; default all)

Writes rocq/theories/Proofs/ParserPins.v, LexerPins.v, AstWriterPins.v: one reflexivity lemma per pinned function
(gen/kernels_pins.py), with the digest written out, and one for the list of pinned names.  Run it only after the
hand-written models (Model/Parser.v, Model/Lexer.v, Model/AstWriter.v) have been compared with the edited source;
a registered check never rewrites these files.
"""
import ast
import os
import sys

sys.path.insert(0, os.path.dirname(os.path.abspath(__file__)))
import kernels_pins as KP  # noqa: E402

VERIF = os.path.dirname(os.path.dirname(os.path.abspath(__file__)))
REPO = os.environ.get('PICOTOOL_REPO', '/repo')

def main():
    only = set(sys.argv[1:])
    for fid, modname, rel, classes, mf, name, what in KP.PINS:
        if only and fid not in only:
            continue
        fileid = 'T_pins_' + fid
        tree = ast.parse(open(os.path.join(REPO, rel)).read())
        short = fid
        fs = KP.functions(tree, classes, module_functions=mf)
        out = ['(* Source pins of %s: %s.\n   WRITTEN BY gen/mkpins.py (developer step) from the sources the hand-written model was compared with;\n'
               '   each lemma fails when the function it names has been edited since (digest of ast.unparse, docstrings\n'
               '   dropped; regenerated on every run into Generated/%s.v). *)\n' % (rel, what, fileid),
               'From Coq Require Import ZArith List.\nImport ListNotations.\nOpen Scope Z_scope.\nFrom PV Require Import Generated.%s.\n\n' % fileid]
        for pin, fn in fs:
            out.append('Lemma %s_ok : %s = %s.\nProof. reflexivity. Qed.\n' % (pin, pin, KP._zl(KP.digest(fn))))
        names = '; '.join(KP._zl(p.encode()) for p, _ in fs)
        out.append('\n(* no function was added to or removed from the pinned classes *)\nLemma pin_names__%s_ok : pin_names__%s =\n  [%s].\nProof. reflexivity. Qed.\n' % (short, short, names))
        path = os.path.join(VERIF, 'rocq', 'theories', 'Proofs', name + '.v')
        open(path, 'w').write(''.join(out))
        print('wrote %s (%d functions)' % (path, len(fs)))


if __name__ == '__main__':
    main()
