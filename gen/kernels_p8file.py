"""Regenerated description of the .p8 text writer / reader (pico8/game/formatter/p8.py) for C03.

K_p8file.v gets:
  * p8_header_title, the regex sources of HEADER_VERSION_RE and SECTION_DELIM_RE (pinned in the proofs),
  * p8_write_events: the statement sequence of P8Formatter.to_file as data, interpreted by Model/P8File.v:
      (0, bytes)   outstr.write(<literal>)
      (1, [sec])   for line in game.<sec>.to_lines(): outstr.write(line)      sec: 0 gfx 1 map 2 gff 3 music 4 sfx
      (2, [])      the __lua__ loop: every chunk of game.lua.to_lines() through p8scii_to_unicode + UTF-8
      (3, bytes)   if not ended_in_newline: outstr.write(<literal>)
      (4, bytes)   if game.label: outstr.write(<literal>)
      (5, [])      if game.label: for line in game.label.to_lines(): outstr.write(line)
      (6, fmt)     outstr.write(bytes('version %s\\n' % game.version, 'utf-8'))   fmt = the format string
      (7, [])      the sanity re-lex of the transformed Lua (may raise; output unaffected)
  * p8_read_sections: the section-name dispatch of P8Formatter.from_file: name -> 0..4 as above, 5 lua, 6 label,
    in source order; anything else raises InvalidP8SectionError.
  * p8_pad_sections: the loop after the dispatch that fills a short data section up to its full size,
        for name, full in ((<name>, <Class>), ...):
            section = getattr(new_game, name)
            if section is not None:
                default = full.empty(version=data.version)._data
                if len(section._data) < len(default):
                    section._data.extend(default[len(section._data):])
    as the list, in source order, of (section key as above, the bytes of <Class>.empty(version=v)._data taken from the
    running code - required to be the same for every version tried).  No such loop (the code before the fix) = [].
    The whole body of from_file must be: the four prelude statements, the dispatch loop, at most one such loop,
    `return new_game`.
Anything the extractor does not recognise becomes an unbound identifier (fail closed).
"""
import ast
import re

SEC = {'gfx': 0, 'map': 1, 'gff': 2, 'music': 3, 'sfx': 4, 'lua': 5, 'label': 6}


def _zl(b):
    return '[' + '; '.join(str(x) for x in b) + ']'


def _is_outstr_write(node):
    return (isinstance(node, ast.Expr) and isinstance(node.value, ast.Call) and
            isinstance(node.value.func, ast.Attribute) and node.value.func.attr == 'write' and
            isinstance(node.value.func.value, ast.Name) and node.value.func.value.id == 'outstr' and
            len(node.value.args) == 1 and not node.value.keywords)


def _lit_write(node, mod):
    """outstr.write(b'...') or outstr.write(HEADER_TITLE_STR) -> bytes | None"""
    if not _is_outstr_write(node):
        return None
    a = node.value.args[0]
    if isinstance(a, ast.Constant) and isinstance(a.value, bytes):
        return a.value
    if isinstance(a, ast.Name) and isinstance(getattr(mod, a.id, None), bytes):
        return getattr(mod, a.id)
    return None


def _section_loop(node, owner='game'):
    """for line in game.<sec>.to_lines(): outstr.write(line) -> sec name | None"""
    if not (isinstance(node, ast.For) and isinstance(node.target, ast.Name) and not node.orelse):
        return None
    it = node.iter
    if not (isinstance(it, ast.Call) and not it.args and not it.keywords and isinstance(it.func, ast.Attribute) and
            it.func.attr == 'to_lines' and isinstance(it.func.value, ast.Attribute) and
            isinstance(it.func.value.value, ast.Name) and it.func.value.value.id == owner):
        return None
    if len(node.body) != 1 or not _is_outstr_write(node.body[0]):
        return None
    a = node.body[0].value.args[0]
    if not (isinstance(a, ast.Name) and a.id == node.target.id):
        return None
    return it.func.value.attr


def _is_lua_loop(node):
    """for line in game.lua.to_lines(writer_cls=.., writer_args=..):
           outstr.write(bytes(lua.p8scii_to_unicode(line), 'utf-8')); ended_in_newline = line.endswith(b'\\n')"""
    if not (isinstance(node, ast.For) and isinstance(node.target, ast.Name) and not node.orelse and len(node.body) == 2):
        return False
    src = ast.unparse(node)
    want = ("for line in game.lua.to_lines(writer_cls=lua_writer_cls, writer_args=lua_writer_args):\n"
            "    outstr.write(bytes(lua.p8scii_to_unicode(line), 'utf-8'))\n"
            "    ended_in_newline = line.endswith(b'\\n')")
    return src == want


def _only_warnings(node):
    """if transformed_lua.get_x_count() > LIMIT: (util.error(...) | if filename is not None: util.error(...))*"""
    if not isinstance(node, ast.If) or node.orelse:
        return False
    for n in ast.walk(node):
        if isinstance(n, ast.Call):
            f = n.func
            ok = (isinstance(f, ast.Attribute) and (
                (isinstance(f.value, ast.Name) and f.value.id == 'util' and f.attr == 'error') or
                (isinstance(f.value, ast.Name) and f.value.id == 'transformed_lua' and f.attr in ('get_char_count', 'get_token_count')) or
                f.attr == 'format'))
            if not ok:
                return False
        if isinstance(n, (ast.Assign, ast.AugAssign, ast.Return, ast.Raise, ast.For, ast.While)):
            return False
    return True


PAD_BODY = ("section = getattr(new_game, name)\n"
            "if section is not None:\n"
            "    default = full.empty(version=data.version)._data\n"
            "    if len(section._data) < len(default):\n"
            "        section._data.extend(default[len(section._data):])")


def _bytes_expr(b):
    """a Gallina list for the bytes b: `repeat v (Z.to_nat n)` for a constant region, else the literal"""
    if len(b) > 8 and len(set(b)) == 1:
        return 'repeat %d (Z.to_nat %d)' % (b[0], len(b))
    return _zl(b)


def _pad_table(mod, node, bad):
    head = 'Definition p8_pad_sections : list (Z * list Z) := '
    if bad:
        return head + 'untranslatable__from_file_pad_after_' + bad[len('untranslatable__'):] + '.'
    if node is None:
        return head + '[].'
    if node.orelse or ast.unparse(node.target) != '(name, full)' or \
            '\n'.join(ast.unparse(s) for s in node.body) != PAD_BODY:
        return head + 'untranslatable__from_file_pad_loop.'
    it = node.iter
    if not (isinstance(it, ast.Tuple) and it.elts):
        return head + 'untranslatable__from_file_pad_iter.'
    rows = []
    for e in it.elts:
        if not (isinstance(e, ast.Tuple) and len(e.elts) == 2 and isinstance(e.elts[0], ast.Constant) and
                isinstance(e.elts[0].value, str) and isinstance(e.elts[1], ast.Name)):
            return head + 'untranslatable__from_file_pad_pair.'
        name, cls = e.elts[0].value, getattr(mod, e.elts[1].id, None)
        if name not in SEC or name == 'lua' or cls is None or not hasattr(cls, 'empty'):
            return head + 'untranslatable__from_file_pad_name_%s.' % re.sub(r'\W', '_', name)
        try:
            ds = [bytes(cls.empty(version=v)._data) for v in (0, 1, 4, 8, 16, 29, 41, 255, 1000)]
        except Exception:  # noqa
            return head + 'untranslatable__from_file_pad_default_%s.' % name
        if any(d != ds[0] for d in ds):
            return head + 'untranslatable__from_file_pad_default_depends_on_version_%s.' % name
        rows.append('(%d, %s)' % (SEC[name], _bytes_expr(ds[0])))
    return head + '\n  [' + ';\n   '.join(rows) + '].'


def p8file_extra(mod, tree, src):
    import py2gallina as P
    out = []
    out.append('Definition p8_header_title : list Z := %s.' % _zl(mod.HEADER_TITLE_STR))
    out.append('Definition p8_version_re_src : list Z := %s.' % _zl(mod.HEADER_VERSION_RE.pattern))
    out.append('Definition p8_section_re_src : list Z := %s.' % _zl(mod.SECTION_DELIM_RE.pattern))
    # ---- writer
    fn = P.find_function(tree, 'P8Formatter.to_file')
    events = []
    body = [s for s in fn.body if not (isinstance(s, ast.Expr) and isinstance(s.value, ast.Constant) and isinstance(s.value.value, str))]
    bad = None
    for i, st in enumerate(body):
        lit = _lit_write(st, mod)
        if lit is not None:
            events.append((0, list(lit)))
            continue
        sec = _section_loop(st)
        if sec is not None and sec in SEC and SEC[sec] <= 4:
            events.append((1, [SEC[sec]]))
            continue
        if _is_lua_loop(st):
            events.append((2, []))
            continue
        u = ast.unparse(st)
        if u == "outstr.write(bytes('version %s\\n' % game.version, 'utf-8'))":
            events.append((6, list(b'version %s\n')))
            continue
        if u.startswith('transformed_lua = lua.Lua.from_lines(game.lua.to_lines(writer_cls=lua_writer_cls, writer_args=lua_writer_args)'):
            events.append((7, []))
            continue
        if u == 'ended_in_newline = None':
            continue
        if _only_warnings(st):
            continue
        if isinstance(st, ast.If) and not st.orelse and ast.unparse(st.test) == 'not ended_in_newline' and len(st.body) == 1:
            lit = _lit_write(st.body[0], mod)
            if lit is not None:
                events.append((3, list(lit)))
                continue
        if isinstance(st, ast.If) and not st.orelse and ast.unparse(st.test) == 'game.label':
            sub = []
            for s2 in st.body:
                lit = _lit_write(s2, mod)
                if lit is not None:
                    sub.append((4, list(lit)))
                    continue
                if _section_loop(s2) == 'label':
                    sub.append((5, []))
                    continue
                sub = None
                break
            if sub is not None:
                events.extend(sub)
                continue
        bad = 'untranslatable__to_file_stmt_%d_%s' % (i, type(st).__name__)
        break
    if bad:
        out.append('Definition p8_write_events : list (Z * list Z) := %s.' % bad)
    else:
        out.append('Definition p8_write_events : list (Z * list Z) :=\n  [' +
                   ';\n   '.join('(%d, %s)' % (t, _zl(p)) for t, p in events) + '].')
    # ---- reader dispatch
    fn = P.find_function(tree, 'P8Formatter.from_file')
    stmts = [s for s in fn.body if not (isinstance(s, ast.Expr) and isinstance(s.value, ast.Constant))]
    loop = [s for s in stmts if isinstance(s, ast.For)]
    disp = []
    bad = None
    shape = [type(s).__name__ for s in stmts]
    if shape not in (['Assign'] * 4 + ['For', 'Return'], ['Assign'] * 4 + ['For', 'For', 'Return']) or \
            ast.unparse(stmts[-1]) != 'return new_game':
        bad = 'untranslatable__from_file_body_shape'
    elif ast.unparse(loop[0].iter) != 'data.section_lines' or ast.unparse(loop[0].target) != 'section' or loop[0].orelse:
        bad = 'untranslatable__from_file_loop'
    else:
        node = loop[0].body[0] if len(loop[0].body) == 1 else None
        while node is not None:
            if not isinstance(node, ast.If):
                bad = 'untranslatable__from_file_dispatch'
                break
            t = node.test
            if not (isinstance(t, ast.Compare) and isinstance(t.left, ast.Name) and t.left.id == 'section' and
                    len(t.ops) == 1 and isinstance(t.ops[0], ast.Eq) and isinstance(t.comparators[0], ast.Constant) and
                    isinstance(t.comparators[0].value, str)):
                bad = 'untranslatable__from_file_test'
                break
            name = t.comparators[0].value
            # the attribute assigned in this branch must be the section of that name
            assigned = [ast.unparse(a.targets[0]) for a in node.body if isinstance(a, ast.Assign)]
            if name not in SEC or ('new_game.%s' % name) not in assigned:
                bad = 'untranslatable__from_file_branch_%s' % name
                break
            disp.append((name, SEC[name]))
            if len(node.orelse) == 1 and isinstance(node.orelse[0], ast.If):
                node = node.orelse[0]
            elif len(node.orelse) == 1 and isinstance(node.orelse[0], ast.Raise) and \
                    ast.unparse(node.orelse[0]) == 'raise InvalidP8SectionError(section)':
                node = None
            else:
                bad = 'untranslatable__from_file_else'
                break
    if bad:
        out.append('Definition p8_read_sections : list (list Z * Z) := %s.' % bad)
    else:
        out.append('Definition p8_read_sections : list (list Z * Z) :=\n  [' +
                   '; '.join('(%s, %d)' % (_zl(n.encode()), k) for n, k in disp) + '].')
    # ---- the padding loop after the dispatch
    out.append(_pad_table(mod, loop[1] if len(loop) == 2 else None, bad))
    # facts about from_file the model relies on, as pins on source text
    pre = [ast.unparse(s) for s in fn.body if not isinstance(s, (ast.For, ast.Return)) and
           not (isinstance(s, ast.Expr) and isinstance(s.value, ast.Constant))]
    want_pre = ['data = _get_raw_data_from_p8_file(instr, filename=filename)',
                'new_game = Game.make_empty_game(filename=filename)',
                'new_game.label = None',
                'new_game.version = data.version']
    out.append('Definition p8_from_file_prelude_ok : bool := %s.' % ('true' if pre == want_pre else 'false'))
    rd = P.find_function(tree, '_get_raw_data_from_p8_file')
    import hashlib
    canon = ast.unparse(rd)
    digest = hashlib.sha256(canon.encode()).digest()[:8]
    out.append('(* sha256[:8] of ast.unparse(_get_raw_data_from_p8_file): the hand-written model of the section splitter is '
               'pinned to this text *)')
    out.append('Definition p8_raw_reader_digest : list Z := %s.' % _zl(digest))
    return '\n'.join(out) + '\n'


P8FILE = {'file': 'K_p8file', 'kernels': [], 'extra': p8file_extra}

MODULES = [('pico8.game.formatter.p8', 'pico8/game/formatter/p8.py', P8FILE)]
