"""Regenerated data and pinned source texts of LuaMinifyTokenWriter (pico8/lua/lua.py) for C01 / C19.

T_minifier:
  fusing_chars          runtime value of LuaMinifyTokenWriter._FUSING_CHARS as an association list
                        (last byte of the previous chunk -> first bytes that must not follow it);
                        a key that is not a single byte becomes an unbound identifier (fail closed).
  closers_src           the bytes literal of the `token.code in b'...'` test (closing brackets)
  mtw_fuses_src         body of _fuses (docstring dropped), ast.unparse text
  mtw_to_lines_src      body of to_lines (docstring dropped)
  mtw_chunks_src        body of _minified_chunks
  mtw_init_flags_src    the flag initialisations of __init__
T_minifier_p8 (pico8/game/formatter/p8.py):
  p8_lua_section_src    the four statements of P8Formatter.to_file that write the __lua__ section
Each text is pinned by a reflexivity lemma in Proofs/TokWritersProofs.v: an edit of the writer breaks the
pin, i.e. the hand model (Model/TokWriters.v) must be revisited; nothing drifts silently.
"""
import ast


def zl(bs):
    return '[' + '; '.join(str(int(b)) for b in bs) + ']'


def emit(name, comment, thunk):
    try:
        text = thunk()
        if isinstance(text, str):
            text = text.encode()
        return '(* %s *)\nDefinition %s : list Z := %s.\n\n' % (comment, name, zl(text))
    except Exception as e:  # fail closed
        why = ''.join(ch if ch.isalnum() else '_' for ch in '%s_%s' % (type(e).__name__, e))[:80]
        return 'Definition %s : list Z := untranslatable__%s__%s.\n\n' % (name, name, why)


def body_text(fn):
    stmts = [s for s in fn.body if not (isinstance(s, ast.Expr) and isinstance(s.value, ast.Constant)
                                        and isinstance(s.value.value, str))]
    return ast.unparse(ast.Module(body=stmts, type_ignores=[]))


def lua_extra(mod, tree, src):
    import py2gallina as P
    cls = mod.LuaMinifyTokenWriter

    def table():
        items = []
        for k, v in cls._FUSING_CHARS.items():
            if not isinstance(k, bytes) or len(k) != 1 or not isinstance(v, bytes):
                raise ValueError('key_not_a_single_byte_%r' % (k,))
            items.append('(%d, %s)' % (k[0], zl(v)))
        return '[' + ';\n   '.join(items) + ']'

    try:
        tbl = ('(* LuaMinifyTokenWriter._FUSING_CHARS, dict items in insertion order *)\n'
               'Definition fusing_chars : list (Z * list Z) :=\n  %s.\n\n' % table())
    except Exception as e:
        why = ''.join(ch if ch.isalnum() else '_' for ch in '%s_%s' % (type(e).__name__, e))[:80]
        tbl = 'Definition fusing_chars : list (Z * list Z) := untranslatable__fusing_chars__%s.\n\n' % why

    def closers():
        fn = P.find_function(tree, 'LuaMinifyTokenWriter._minified_chunks')
        lits = [n.comparators[0].value for n in ast.walk(fn)
                if isinstance(n, ast.Compare) and len(n.ops) == 1 and isinstance(n.ops[0], ast.In)
                and isinstance(n.comparators[0], ast.Constant) and isinstance(n.comparators[0].value, bytes)
                and ast.unparse(n.left) == 'token.code']
        if len(lits) != 1:
            raise ValueError('expected_one_token_code_in_literal_found_%d' % len(lits))
        return lits[0]

    def init_flags():
        fn = P.find_function(tree, 'LuaMinifyTokenWriter.__init__')
        st = [s for s in fn.body if isinstance(s, ast.Assign) and ast.unparse(s.targets[0]).startswith('self._last_was')]
        return ast.unparse(ast.Module(body=st, type_ignores=[]))

    return (tbl +
            emit('closers_src', "the literal of `token.code in b'...'` in _minified_chunks", closers) +
            emit('mtw_fuses_src', 'LuaMinifyTokenWriter._fuses, body',
                 lambda: body_text(P.find_function(tree, 'LuaMinifyTokenWriter._fuses'))) +
            emit('mtw_to_lines_src', 'LuaMinifyTokenWriter.to_lines, body',
                 lambda: body_text(P.find_function(tree, 'LuaMinifyTokenWriter.to_lines'))) +
            emit('mtw_chunks_src', 'LuaMinifyTokenWriter._minified_chunks, body',
                 lambda: body_text(P.find_function(tree, 'LuaMinifyTokenWriter._minified_chunks'))) +
            emit('mtw_init_flags_src', 'LuaMinifyTokenWriter.__init__: initial flags', init_flags))


def p8_extra(mod, tree, src):
    import py2gallina as P

    def lua_section_loop():
        fn = P.find_function(tree, 'P8Formatter.to_file')
        idx = [i for i, st in enumerate(fn.body) if ast.unparse(st) == "outstr.write(b'__lua__\\n')"]
        if len(idx) != 1:
            raise ValueError('lua_section_start_found_%d_times' % len(idx))
        return ast.unparse(ast.Module(body=fn.body[idx[0]:idx[0] + 4], type_ignores=[]))
    return emit('p8_lua_section_src', 'P8Formatter.to_file: how the __lua__ section is written', lua_section_loop)


MODULES = [
    ('pico8.lua.lua', 'pico8/lua/lua.py', {'file': 'T_minifier', 'kernels': [], 'extra': lua_extra}),
    ('pico8.game.formatter.p8', 'pico8/game/formatter/p8.py', {'file': 'T_minifier_p8', 'kernels': [], 'extra': p8_extra}),
]
