"""Fail-closed translator: straight-line integer/boolean Python expressions -> Gallina over Z.

A kernel is selected inside a function of a /repo source file by (selector, index) and
translated to `Definition <name> (params) : Z|bool := ...`.  Anything outside the
supported fragment raises Untranslatable; the caller then emits a definition whose body
is an unbound identifier, so the generated file (and the cone of every property that
depends on it) does not compile: a broken proof obligation, never silent drift.

Python int semantics kept: unbounded Z; // and % are floor division (Z.div / Z.modulo
agree with Python for every sign combination); & | ^ ~ << >> are the two's-complement
operations of Z.land/lor/lxor/lnot/shiftl/shiftr.  Divisors and shift amounts must be
non-zero / non-negative *constants* (after folding module constants), because Python
raises there and Coq totalises.
"""
import ast


class Untranslatable(Exception):
    pass


def find_function(tree, qualname):
    parts = qualname.split('.')
    node = tree
    for p in parts:
        found = None
        for ch in ast.iter_child_nodes(node):
            if isinstance(ch, (ast.FunctionDef, ast.ClassDef)) and ch.name == p:
                found = ch
                break
        if found is None:
            raise Untranslatable('no_function_%s' % qualname.replace('.', '_'))
        node = found
    return node


def ordered_nodes(fn):
    """All nodes of the function in source order (line, column), depth-first on ties."""
    out = []

    def rec(n):
        out.append(n)
        for ch in ast.iter_child_nodes(n):
            rec(ch)
    for st in fn.body:
        rec(st)
    out2 = [n for n in out if hasattr(n, 'lineno')]
    idx = {id(n): i for i, n in enumerate(out2)}
    out2.sort(key=lambda n: (n.lineno, n.col_offset, idx[id(n)]))
    return out2


def select(fn, sel):
    kind = sel[0]
    if kind == 'idx_of':          # ('idx_of', inner): index of a subscript expression
        n = select(fn, sel[1])
        if not isinstance(n, ast.Subscript) or isinstance(n.slice, ast.Slice):
            raise Untranslatable('idx_of_non_subscript')
        return n.slice
    if kind in ('slice_lo', 'slice_hi'):
        n = select(fn, sel[1])
        if not isinstance(n, ast.Subscript) or not isinstance(n.slice, ast.Slice):
            raise Untranslatable('slice_of_non_slice')
        r = n.slice.lower if kind == 'slice_lo' else n.slice.upper
        if r is None or n.slice.step is not None:
            raise Untranslatable('open_slice')
        return r
    if kind == 'elt':             # ('elt', inner, i): element of a tuple/list display
        n = select(fn, sel[1])
        if not isinstance(n, (ast.Tuple, ast.List)) or sel[2] >= len(n.elts):
            raise Untranslatable('elt_of_non_display')
        return n.elts[sel[2]]
    if kind == 'arg_of':          # ('arg_of', inner, i): i-th positional argument of a call expression
        n = select(fn, sel[1])
        if not isinstance(n, ast.Call) or sel[2] >= len(n.args):
            raise Untranslatable('arg_of_non_call')
        return n.args[sel[2]]
    if kind == 'base_of':         # ('base_of', inner): value of a subscript expression
        n = select(fn, sel[1])
        if not isinstance(n, ast.Subscript):
            raise Untranslatable('base_of_non_subscript')
        return n.value
    nodes = ordered_nodes(fn)
    if kind == 'attr_assign':     # ('attr_assign', attr, k) -> RHS of k-th  <obj>.attr = ...
        _, attr, k = sel
        c = [n for n in nodes if isinstance(n, ast.Assign) and len(n.targets) == 1
             and isinstance(n.targets[0], ast.Attribute) and n.targets[0].attr == attr]
        return pick(c, k, sel).value
    if kind == 'aug_val':
        c = [n for n in nodes if isinstance(n, ast.AugAssign) and isinstance(n.target, ast.Subscript)]
        return pick(c, sel[1], sel).value
    if kind == 'call':            # ('call', name, k) -> the call node itself
        _, name, k = sel
        c = []
        for n in nodes:
            if isinstance(n, ast.Call):
                f = n.func
                if (isinstance(f, ast.Attribute) and f.attr == name) or \
                   (isinstance(f, ast.Name) and f.id == name):
                    c.append(n)
        return pick(c, k, sel)
    if kind == 'assign':          # ('assign', target, k) -> RHS
        _, target, k = sel
        c = [n for n in nodes if isinstance(n, ast.Assign) and len(n.targets) == 1
             and isinstance(n.targets[0], ast.Name) and n.targets[0].id == target]
        return pick(c, k, sel).value
    if kind in ('if', 'while', 'assert'):
        cls = {'if': ast.If, 'while': ast.While, 'assert': ast.Assert}[kind]
        c = [n for n in nodes if isinstance(n, cls)]
        return pick(c, sel[1], sel).test
    if kind == 'ifexp':           # ('ifexp', k) -> the whole conditional expression
        c = [n for n in nodes if isinstance(n, ast.IfExp)]
        return pick(c, sel[1], sel)
    if kind == 'call_arg':        # ('call_arg', name, k, argi)
        _, name, k, argi = sel
        c = []
        for n in nodes:
            if isinstance(n, ast.Call):
                f = n.func
                if (isinstance(f, ast.Attribute) and f.attr == name) or \
                   (isinstance(f, ast.Name) and f.id == name):
                    c.append(n)
        call = pick(c, k, sel)
        if argi >= len(call.args):
            raise Untranslatable('missing_call_arg')
        return call.args[argi]
    if kind == 'return':          # ('return', k, elt or None)
        _, k, elt = sel
        c = [n for n in nodes if isinstance(n, ast.Return)]
        r = pick(c, k, sel).value
        if elt is None:
            return r
        if not isinstance(r, ast.Tuple) or elt >= len(r.elts):
            raise Untranslatable('return_not_tuple')
        return r.elts[elt]
    if kind in ('store_idx', 'store_val'):   # k-th  X[idx] = val
        c = [n for n in nodes if isinstance(n, ast.Assign) and len(n.targets) == 1
             and isinstance(n.targets[0], ast.Subscript)]
        st = pick(c, sel[1], sel)
        return st.targets[0].slice if kind == 'store_idx' else st.value
    if kind in ('aug_idx', 'aug_new'):       # k-th  X[idx] op= val ; aug_new = X[idx] op val
        c = [n for n in nodes if isinstance(n, ast.AugAssign) and isinstance(n.target, ast.Subscript)]
        st = pick(c, sel[1], sel)
        if kind == 'aug_idx':
            return st.target.slice
        load = ast.Subscript(value=st.target.value, slice=st.target.slice, ctx=ast.Load())
        return ast.BinOp(left=load, op=st.op, right=st.value)
    if kind == 'augassign':       # ('augassign', target, k) -> value added/… to Name target
        _, target, k = sel
        c = [n for n in nodes if isinstance(n, ast.AugAssign) and isinstance(n.target, ast.Name)
             and n.target.id == target]
        st = pick(c, k, sel)
        return ast.BinOp(left=ast.Name(id=target, ctx=ast.Load()), op=st.op, right=st.value)
    if kind == 'tuple_elt':       # ('tuple_elt', target, k, i, j): element [i][j] of a nested tuple literal
        _, target, k, i, j = sel
        c = [n for n in nodes if isinstance(n, ast.Assign) and len(n.targets) == 1
             and isinstance(n.targets[0], ast.Name) and n.targets[0].id == target]
        v = pick(c, k, sel).value
        if not isinstance(v, ast.Tuple):
            raise Untranslatable('not_tuple')
        return v.elts[i].elts[j]
    raise Untranslatable('bad_selector_%s' % kind)


def pick(cands, k, sel):
    if k >= len(cands):
        raise Untranslatable('selector_miss_%s' % '_'.join(str(x) for x in sel))
    return cands[k]


BINOPS = {
    ast.Add: 'Z.add', ast.Sub: 'Z.sub', ast.Mult: 'Z.mul',
    ast.FloorDiv: 'Z.div', ast.Mod: 'Z.modulo',
    ast.BitAnd: 'Z.land', ast.BitOr: 'Z.lor', ast.BitXor: 'Z.lxor',
    ast.LShift: 'Z.shiftl', ast.RShift: 'Z.shiftr',
}
CMPOPS = {ast.Lt: 'Z.ltb', ast.LtE: 'Z.leb', ast.Gt: 'Z.gtb', ast.GtE: 'Z.geb', ast.Eq: 'Z.eqb'}


COQ_KEYWORDS = {'end', 'in', 'at', 'as', 'return', 'match', 'then', 'else', 'if', 'fun', 'let', 'fix',
                'with', 'for', 'forall', 'exists', 'Type', 'Prop', 'Set', 'using', 'where', 'cofix'}


def coqname(n):
    return n + '_' if n in COQ_KEYWORDS else n


class Translator:
    def __init__(self, modglobals, params):
        self.g = modglobals
        # params: list of 'name', 'name:bool', 'name:arr'
        self.params = []
        self.ptype = {}
        for p in params:
            if ':' in p:
                n, t = p.split(':')
            else:
                n, t = p, 'Z'
            self.params.append(n)
            self.ptype[n] = t
        self.used = set()

    def const_value(self, node):
        """Fold a constant integer expression (module constants allowed), else None."""
        try:
            s, t = self.tr(node, probe=True)
        except Untranslatable:
            return None
        try:
            code = compile(ast.Expression(body=node), '<k>', 'eval')
            v = eval(code, {'__builtins__': {'len': len, 'min': min, 'max': max}}, dict(self.g))
        except Exception:
            return None
        if isinstance(v, bool) or not isinstance(v, int):
            return None
        return v

    def zlit(self, v):
        return str(v) if v >= 0 else '(%d)' % v

    def array_name(self, base):
        if isinstance(base, ast.Name):
            return base.id
        if isinstance(base, ast.Attribute):
            parts = []
            b = base
            while isinstance(b, ast.Attribute):
                parts.append(b.attr)
                b = b.value
            if isinstance(b, ast.Name) and b.id == 'self':
                return 'self' + ''.join(reversed(parts))
        raise Untranslatable('subscript_base_%s' % type(base).__name__)

    def param(self, name, want):
        if name not in self.ptype:
            raise Untranslatable('free_variable_%s' % name)
        t = self.ptype[name]
        if t != want:
            raise Untranslatable('param_type_%s_is_%s_not_%s' % (name, t, want))
        self.used.add(name)
        return coqname(name)

    def tr(self, n, probe=False):
        """-> (coq text, 'Z' | 'bool')"""
        if isinstance(n, ast.Constant):
            if isinstance(n.value, bool):
                return ('true' if n.value else 'false'), 'bool'
            if isinstance(n.value, int):
                return self.zlit(n.value), 'Z'
            raise Untranslatable('constant_%s' % type(n.value).__name__)
        if isinstance(n, ast.Name):
            if n.id in self.ptype:
                t = self.ptype[n.id]
                if t == 'arr':
                    raise Untranslatable('array_used_as_value_%s' % n.id)
                self.used.add(n.id)
                return coqname(n.id), t
            if n.id in self.g and isinstance(self.g[n.id], int) and not isinstance(self.g[n.id], bool):
                return self.zlit(self.g[n.id]), 'Z'
            raise Untranslatable('free_variable_%s' % n.id)
        if isinstance(n, ast.BinOp):
            if type(n.op) not in BINOPS:
                raise Untranslatable('binop_%s' % type(n.op).__name__)
            a, ta = self.tr(n.left, probe)
            b, tb = self.tr(n.right, probe)
            if ta != 'Z' or tb != 'Z':
                raise Untranslatable('binop_on_bool')
            if isinstance(n.op, (ast.FloorDiv, ast.Mod)) and not probe:
                v = self.const_value(n.right)
                if v is None or v == 0:
                    raise Untranslatable('divisor_not_nonzero_constant')
            if isinstance(n.op, (ast.LShift, ast.RShift)) and not probe:
                v = self.const_value(n.right)
                if v is None or v < 0:
                    raise Untranslatable('shift_not_nonneg_constant')
            return '(%s %s %s)' % (BINOPS[type(n.op)], a, b), 'Z'
        if isinstance(n, ast.UnaryOp):
            a, ta = self.tr(n.operand, probe)
            if isinstance(n.op, ast.Invert) and ta == 'Z':
                return '(Z.lnot %s)' % a, 'Z'
            if isinstance(n.op, ast.USub) and ta == 'Z':
                return '(Z.opp %s)' % a, 'Z'
            if isinstance(n.op, ast.UAdd) and ta == 'Z':
                return a, 'Z'
            if isinstance(n.op, ast.Not) and ta == 'bool':
                return '(negb %s)' % a, 'bool'
            raise Untranslatable('unaryop_%s_on_%s' % (type(n.op).__name__, ta))
        if isinstance(n, ast.Compare) and len(n.ops) == 1 and isinstance(n.ops[0], (ast.Is, ast.IsNot)) \
                and isinstance(n.comparators[0], ast.Constant) and n.comparators[0].value is None:
            if isinstance(n.left, ast.Name):
                nm = n.left.id
            else:
                nm = self.array_name(n.left)
            p = self.param(nm + '_is_none', 'bool')
            return (p if isinstance(n.ops[0], ast.Is) else '(negb %s)' % p), 'bool'
        if isinstance(n, ast.Compare):
            parts = []
            left = n.left
            for op, right in zip(n.ops, n.comparators):
                a, ta = self.tr(left, probe)
                b, tb = self.tr(right, probe)
                if ta != 'Z' or tb != 'Z':
                    raise Untranslatable('compare_on_bool')
                if isinstance(op, ast.NotEq):
                    parts.append('(negb (Z.eqb %s %s))' % (a, b))
                elif type(op) in CMPOPS:
                    parts.append('(%s %s %s)' % (CMPOPS[type(op)], a, b))
                else:
                    raise Untranslatable('cmpop_%s' % type(op).__name__)
                left = right
            s = parts[0]
            for p in parts[1:]:
                s = '(andb %s %s)' % (s, p)
            return s, 'bool'
        if isinstance(n, ast.BoolOp):
            vals = [self.tr(v, probe) for v in n.values]
            if any(t != 'bool' for _, t in vals):
                raise Untranslatable('boolop_on_int')
            f = 'andb' if isinstance(n.op, ast.And) else 'orb'
            s = vals[0][0]
            for v, _ in vals[1:]:
                s = '(%s %s %s)' % (f, s, v)
            return s, 'bool'
        if isinstance(n, ast.IfExp):
            c, tc = self.tr(n.test, probe)
            if tc != 'bool':
                raise Untranslatable('ifexp_test_not_bool')
            a, ta = self.tr(n.body, probe)
            b, tb = self.tr(n.orelse, probe)
            if ta != tb:
                raise Untranslatable('ifexp_branch_types')
            return '(if %s then %s else %s)' % (c, a, b), ta
        if isinstance(n, ast.Subscript):
            if isinstance(n.slice, ast.Slice):
                raise Untranslatable('slice')
            if isinstance(n.slice, ast.Constant) and isinstance(n.slice.value, str) and isinstance(n.value, ast.Name):
                # attrs['planes'] : a scalar looked up in a dict by a literal key
                return self.param(n.value.id + '_' + n.slice.value, 'Z'), 'Z'
            arr = self.array_name(n.value)
            # module-level constant sequences are not arrays of the state
            self.param(arr, 'arr')
            i, ti = self.tr(n.slice, probe)
            if ti != 'Z':
                raise Untranslatable('index_not_int')
            return '(%s %s)' % (coqname(arr), i), 'Z'
        if isinstance(n, ast.Call):
            if isinstance(n.func, ast.Name) and n.func.id == 'len' and len(n.args) == 1 and not n.keywords:
                a = n.args[0]
                if isinstance(a, ast.Name):
                    if a.id in self.g and hasattr(self.g[a.id], '__len__') and ('len_' + a.id) not in self.ptype:
                        return self.zlit(len(self.g[a.id])), 'Z'
                    return self.param('len_' + a.id, 'Z'), 'Z'
                if isinstance(a, ast.Attribute) and isinstance(a.value, ast.Name):
                    base = a.value.id
                    if base == 'self':
                        return self.param('len_self' + a.attr, 'Z'), 'Z'
                    if base in self.g and hasattr(getattr(self.g[base], a.attr, None), '__len__'):
                        return self.zlit(len(getattr(self.g[base], a.attr))), 'Z'
                raise Untranslatable('len_of_expression')
            if isinstance(n.func, ast.Name) and n.func.id in ('min', 'max') and len(n.args) == 2 and not n.keywords:
                a, ta = self.tr(n.args[0], probe)
                b, tb = self.tr(n.args[1], probe)
                if ta != 'Z' or tb != 'Z':
                    raise Untranslatable('minmax_on_bool')
                return '(Z.%s %s %s)' % (n.func.id, a, b), 'Z'
            raise Untranslatable('call_%s' % (getattr(n.func, 'id', None) or getattr(n.func, 'attr', 'expr')))
        raise Untranslatable('node_%s' % type(n).__name__)


def translate_kernel(tree, modglobals, name, fn_qualname, sel, params, ret):
    """-> Coq definition text (never raises: failure is an unbound identifier)."""
    try:
        fn = find_function(tree, fn_qualname)
        node = select(fn, sel)
        tr = Translator(modglobals, params)
        if ret == 'bytes':
            if not (isinstance(node, ast.Constant) and isinstance(node.value, bytes)):
                raise Untranslatable('not_a_bytes_literal')
            return '(* %s %s *)\nDefinition %s : list Z :=\n  [%s].\n' % (
                fn_qualname, sel, name, '; '.join(str(b) for b in node.value)), None
        body, t = tr.tr(node)
        if t != ret:
            raise Untranslatable('result_type_%s_not_%s' % (t, ret))
        unused = [p for p in tr.params if p not in tr.used]
        if unused:
            raise Untranslatable('unused_param_%s' % '_'.join(unused))
        binders = []
        for p in tr.params:
            ty = {'Z': 'Z', 'bool': 'bool', 'arr': 'Z -> Z'}[tr.ptype[p]]
            binders.append('(%s : %s)' % (coqname(p), ty))
        src = ast.unparse(node).replace('*)', '* )').replace('(*', '( *')
        return '(* %s %s: %s *)\nDefinition %s %s : %s :=\n  %s.\n' % (
            fn_qualname, sel, src, name, ' '.join(binders), ret, body), None
    except Untranslatable as e:
        reason = ''.join(ch if ch.isalnum() or ch == '_' else '_' for ch in str(e))
        return 'Definition %s := untranslatable__%s__%s.\n' % (name, name, reason), str(e)


class Normalizer(ast.NodeTransformer):
    """Rewrites the recognised non-arithmetic forms to plain names so that the Python
    expression can be evaluated with a flat environment {param: value} (self-test)."""

    def __init__(self, tr):
        self.t = tr

    def visit_Call(self, n):
        if isinstance(n.func, ast.Name) and n.func.id == 'len' and len(n.args) == 1:
            a = n.args[0]
            nm = None
            if isinstance(a, ast.Name):
                nm = 'len_' + a.id
            elif isinstance(a, ast.Attribute):
                try:
                    nm = 'len_' + self.t.array_name(a)
                except Untranslatable:
                    nm = None
            if nm in self.t.ptype:
                return ast.copy_location(ast.Name(id=nm, ctx=ast.Load()), n)
        return self.generic_visit(n)

    def visit_Compare(self, n):
        if len(n.ops) == 1 and isinstance(n.ops[0], (ast.Is, ast.IsNot)) \
                and isinstance(n.comparators[0], ast.Constant) and n.comparators[0].value is None:
            nm = n.left.id if isinstance(n.left, ast.Name) else self.t.array_name(n.left)
            v = ast.Name(id=nm + '_is_none', ctx=ast.Load())
            if isinstance(n.ops[0], ast.IsNot):
                v = ast.UnaryOp(op=ast.Not(), operand=v)
            return ast.copy_location(v, n)
        return self.generic_visit(n)

    def visit_Subscript(self, n):
        if isinstance(n.slice, ast.Constant) and isinstance(n.slice.value, str) and isinstance(n.value, ast.Name):
            return ast.copy_location(ast.Name(id=n.value.id + '_' + n.slice.value, ctx=ast.Load()), n)
        try:
            arr = self.t.array_name(n.value)
        except Untranslatable:
            return self.generic_visit(n)
        if arr in self.t.ptype:
            new = ast.Subscript(value=ast.Name(id=arr, ctx=ast.Load()), slice=self.visit(n.slice), ctx=ast.Load())
            return ast.copy_location(new, n)
        return self.generic_visit(n)
