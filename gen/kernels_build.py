"""Regenerated shape facts for C13 (build.do_build) and C11 (file.to_file and the two formatters' to_file).

Emitted as byte-string lists in source order; Proofs/BuildProofs.v and Proofs/FsProofs.v pin each
of them with a reflexivity lemma, so an edit that changes which names do_build reads, in which order
to_file opens / writes / copies, or where the formatters call the stream, is a broken obligation of
the property cone (and then the check searches for a failing input).

  T_build_do   <- pico8/build/build.py (+tool)  do_build: the section tuple, .endswith constants, 'empty_' prefixes, constants
                                                 compared with `section`, getattr names, the ordered call skeleton; the
                                                 argparse destinations of `p8tool build`
  T_file_proto <- pico8/game/file.py            FORMATTERS order; to_file: ordered call skeleton, open modes
  (self-contained: the C11 / C13 cones import no generated file of another worker, so that a construct
   another worker's extractor can no longer locate does not take these cones down)
  T_p8_proto   <- pico8/game/formatter/p8.py    P8Formatter.to_file: ordered call skeleton
  T_png_proto  <- pico8/game/formatter/p8png.py P8PNGFormatter.to_file: ordered call skeleton
"""
import ast


def _zl(bs):
    return '[' + '; '.join(str(int(b)) for b in bs) + ']'


def _b(s):
    return s if isinstance(s, (bytes, bytearray)) else s.encode('utf-8')


def _zll(items):
    return '[' + ';\n   '.join(_zl(_b(x)) for x in items) + ']'


def _fail(name, why):
    return 'Definition %s := untranslatable__%s.\n' % (name, ''.join(c if c.isalnum() else '_' for c in why))


def _callname(n):
    f = n.func
    if isinstance(f, ast.Attribute):
        base = f.value
        if isinstance(base, ast.Name):
            return base.id + '.' + f.attr
        if isinstance(base, ast.Attribute):
            return base.attr + '.' + f.attr
        return '_.' + f.attr
    if isinstance(f, ast.Name):
        return f.id
    return '?'


def _skeleton(fn, keep=None):
    """Ordered list of: call names, 'return', 'raise', 'for', 'with', 'if', 'try' in source order,
    restricted to the names in `keep` (the I/O- and control-relevant ones) when given, so that edits
    which do not concern the modelled protocol (messages, extra getattr, ...) do not break the pin."""
    out = _skeleton_all(fn)
    if keep is not None:
        out = [x for x in out if x in keep]
    return out


def _skeleton_all(fn):
    import py2gallina as P
    out = []
    for n in P.ordered_nodes(fn):
        if isinstance(n, ast.Call):
            out.append(_callname(n))
        elif isinstance(n, ast.Return):
            out.append('return')
        elif isinstance(n, ast.Raise):
            out.append('raise')
        elif isinstance(n, ast.For):
            out.append('for')
        elif isinstance(n, ast.With):
            out.append('with')
        elif isinstance(n, ast.If):
            out.append('if')
        elif isinstance(n, ast.Try):
            out.append('try')
    return out


def build_extra(mod, tree, src):
    import py2gallina as P
    out = []
    try:
        f = P.find_function(tree, 'do_build')
        nodes = P.ordered_nodes(f)
        loops = [n for n in nodes if isinstance(n, ast.For) and isinstance(n.target, ast.Name) and n.target.id == 'section']
        if len(loops) != 1 or not isinstance(loops[0].iter, ast.Tuple):
            out.append(_fail('build_sections', 'section_loop'))
        else:
            out.append('Definition build_sections : list (list Z) :=\n  %s.\n' %
                       _zll([e.value for e in loops[0].iter.elts]))
        ends = [n.args[0].value for n in nodes
                if isinstance(n, ast.Call) and isinstance(n.func, ast.Attribute) and n.func.attr == 'endswith'
                and len(n.args) == 1 and isinstance(n.args[0], ast.Constant)]
        out.append('Definition build_endswith_consts : list (list Z) :=\n  %s.\n' % _zll(ends))
        pre = [n.left.value for n in nodes
               if isinstance(n, ast.BinOp) and isinstance(n.op, ast.Add) and isinstance(n.left, ast.Constant)
               and isinstance(n.left.value, str) and isinstance(n.right, ast.Name) and n.right.id == 'section']
        out.append('Definition build_empty_prefixes : list (list Z) :=\n  %s.\n' % _zll(pre))
        eqs = [n.comparators[0].value for n in nodes
               if isinstance(n, ast.Compare) and len(n.ops) == 1 and isinstance(n.ops[0], ast.Eq)
               and isinstance(n.left, ast.Name) and n.left.id == 'section'
               and isinstance(n.comparators[0], ast.Constant)]
        out.append('Definition do_build_section_eq_consts : list (list Z) :=\n  %s.\n' % _zll(eqs))
        ga = [n.args[1].value for n in nodes
              if isinstance(n, ast.Call) and isinstance(n.func, ast.Name) and n.func.id == 'getattr'
              and len(n.args) >= 2 and isinstance(n.args[0], ast.Name) and n.args[0].id == 'args'
              and isinstance(n.args[1], ast.Constant)]
        out.append('Definition do_build_getattr_names : list (list Z) :=\n  %s.\n' % _zll(ga))
        out.append('Definition do_build_skeleton : list (list Z) :=\n  %s.\n' % _zll(_skeleton(f, KEEP_BUILD)))
        # the args.<attr> reads (strict: AttributeError when the Namespace lacks them) inside the branch taken for
        # --lua-format and inside the branch taken for --lua-minify
        def _branch(flag):
            for n in nodes:
                if isinstance(n, ast.If) and isinstance(n.test, ast.Call) and isinstance(n.test.func, ast.Name) \
                        and n.test.func.id == 'getattr' and len(n.test.args) >= 2 \
                        and isinstance(n.test.args[1], ast.Constant) and n.test.args[1].value == flag:
                    return n
            return None

        def _strict_attrs(ifnode):
            res = []
            for st in ifnode.body:
                for n in ast.walk(st):
                    if isinstance(n, ast.Attribute) and isinstance(n.value, ast.Name) and n.value.id == 'args' \
                            and n.attr not in res:
                        res.append(n.attr)
            return res
        bf, bm = _branch('lua_format'), _branch('lua_minify')
        if bf is None or bm is None:
            out.append(_fail('do_build_format_attrs', 'writer_branches'))
        else:
            out.append('Definition do_build_format_attrs : list (list Z) :=\n  %s.\n' % _zll(_strict_attrs(bf)))
            out.append('Definition do_build_minify_attrs : list (list Z) :=\n  %s.\n' % _zll(_strict_attrs(bm)))
        # is lua_writer_cls assigned a tuple in the lua_format branch (observation O1)?
        tup = [n for n in nodes if isinstance(n, ast.Assign) and len(n.targets) == 1
               and isinstance(n.targets[0], ast.Name) and n.targets[0].id == 'lua_writer_cls'
               and isinstance(n.value, ast.Tuple)]
        out.append('Definition do_build_writer_cls_is_tuple : bool := %s.\n' % ('true' if tup else 'false'))
    except Exception as e:  # noqa
        out.append(_fail('do_build_skeleton', 'do_build_%s' % type(e).__name__))
    # argparse destinations of `p8tool build`: (dest, 1 = store_true flag / 0 = takes a string)
    try:
        import importlib
        tool = importlib.import_module('pico8.tool')
        ap = tool._get_argparser()
        sub = [a for a in ap._actions if hasattr(a, 'choices') and isinstance(a.choices, dict) and 'build' in a.choices][0]
        acts = [a for a in sub.choices['build']._actions if a.dest != 'help']
        rows = ';\n   '.join('(%s, %d)' % (_zl(_b(a.dest)), 1 if a.nargs == 0 else 0) for a in acts)
        out.append('Definition build_arg_dests : list (list Z * Z) :=\n  [%s].\n' % rows)
    except Exception as e:  # noqa
        out.append(_fail('build_arg_dests', 'argparse_%s' % type(e).__name__))
    return ''.join(out)


def file_extra(mod, tree, src):
    import py2gallina as P
    out = []
    out.append('Definition formatters_order : list (list Z) :=\n  %s.\n' % _zll([f.extension for f in mod.FORMATTERS]))
    try:
        f = P.find_function(tree, 'to_file')
        out.append('Definition to_file_skeleton : list (list Z) :=\n  %s.\n' % _zll(_skeleton(f)))
        modes = [kv for n in P.ordered_nodes(f) if isinstance(n, ast.Dict)
                 for k, kv in zip(n.keys, n.values) if isinstance(k, ast.Constant) and k.value == 'mode']
        out.append('Definition to_file_modes : list (list Z) :=\n  %s.\n' % _zll([m.value for m in modes]))
    except Exception as e:  # noqa
        out.append(_fail('to_file_skeleton', 'to_file_%s' % type(e).__name__))
    return ''.join(out)


KEEP_BUILD = {'return', 'raise', 'for', 'with', 'open', 'file.from_file', 'file.to_file', 'setattr', 'path.exists',
              'Game.make_empty_game', 'Lua.from_lines', '_evaluate_require', '_prepend_package_lua'}
KEEP_P8 = {'outstr.write', 'Lua.from_lines', 'lua.to_lines', 'gfx.to_lines', 'label.to_lines', 'gff.to_lines',
           'map.to_lines', 'sfx.to_lines', 'music.to_lines', 'for', 'raise', 'return', 'open'}
KEEP_PNG = {'try', 'with', 'open', 'png.Reader', 'r.read', 'raise', 'lua.to_lines', 'get_bytes_from_code',
            'gfx.to_bytes', 'map.to_bytes', 'gff.to_bytes', 'music.to_bytes', 'sfx.to_bytes', 'bytes',
            'get_pngdata_from_picodata', 'png.Writer', 'wr.write', 'outstr.write', 'return'}


def _proto_extra(qualname, defname, keep=None):
    def extra(mod, tree, src):
        import py2gallina as P
        try:
            f = P.find_function(tree, qualname)
            return 'Definition %s : list (list Z) :=\n  %s.\n' % (defname, _zll(_skeleton(f, keep)))
        except Exception as e:  # noqa
            return _fail(defname, '%s_%s' % (qualname, type(e).__name__))
    return extra


MODULES = [
    ('pico8.build.build', 'pico8/build/build.py',
     {'file': 'T_build_do', 'kernels': [], 'extra': build_extra}),
    ('pico8.game.file', 'pico8/game/file.py',
     {'file': 'T_file_proto', 'kernels': [], 'extra': file_extra}),
    ('pico8.game.formatter.p8', 'pico8/game/formatter/p8.py',
     {'file': 'T_p8_proto', 'kernels': [], 'extra': _proto_extra('P8Formatter.to_file', 'p8_to_file_skeleton', KEEP_P8)}),
    ('pico8.game.formatter.p8png', 'pico8/game/formatter/p8png.py',
     {'file': 'T_png_proto', 'kernels': [], 'extra': _proto_extra('P8PNGFormatter.to_file', 'png_to_file_skeleton', KEEP_PNG)}),
]
