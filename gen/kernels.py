"""Which expressions of /repo are regenerated into Gallina, and under which names.

K(name, function, selector, params, ret): see py2gallina.select for selectors.
The parameter list is the *expected* free-variable set of the expression (and fixes the
argument order of the Coq definition); any other free variable, or an unused expected
one, makes the kernel fail closed.
"""
import ast


def K(name, fn, sel, params=(), ret='Z'):
    return {'name': name, 'fn': fn, 'sel': sel, 'params': list(params), 'ret': ret}


# ----------------------------------------------------------------------------- game.py
def game_extra(mod, tree, src):
    import py2gallina as P
    fn = P.find_function(tree, 'Game.write_cart_data')
    order = {'gfx': 0, 'map': 1, 'gff': 2, 'music': 3, 'sfx': 4}
    names = []
    for n in P.ordered_nodes(fn):
        if isinstance(n, ast.Assign) and isinstance(n.targets[0], ast.Name) and n.targets[0].id == 'memmap':
            for e in n.value.elts:
                a = e.elts[2]   # self.<sec>._data
                ok = (isinstance(a, ast.Attribute) and a.attr == '_data' and
                      isinstance(a.value, ast.Attribute) and isinstance(a.value.value, ast.Name) and
                      a.value.value.id == 'self' and a.value.attr in order)
                if not ok:
                    return 'Definition wcd_region_ids := untranslatable__memmap_entry.\n'
                names.append(order[a.value.attr])
            break
    else:
        return 'Definition wcd_region_ids := untranslatable__no_memmap.\n'
    return ('(* region of each memmap row: 0 gfx, 1 map, 2 gff, 3 music, 4 sfx *)\n'
            'Definition wcd_region_ids : list Z := [%s].\n' % '; '.join(map(str, names)) +
            'Definition default_version : Z := %d.\n' % mod.DEFAULT_VERSION)


WCD = 'Game.write_cart_data'
GAME = {
    'file': 'K_game',
    'kernels': [
        K('wcd_guard', WCD, ('if', 0), ['start_addr', 'len_data'], 'bool'),
        K('wcd_skip', WCD, ('if', 1), ['start_addr', 'len_data', 'start_a', 'end_a'], 'bool'),
        K('wcd_data_start', WCD, ('assign', 'data_start_a', 0), ['start_addr', 'start_a']),
        K('wcd_data_end', WCD, ('assign', 'data_end_a', 0), ['start_addr', 'len_data', 'start_a', 'end_a']),
        K('wcd_text_start', WCD, ('assign', 'text_start_a', 0), ['start_addr', 'start_a']),
        K('wcd_text_end', WCD, ('assign', 'text_end_a', 0), ['start_addr', 'len_data', 'end_a']),
    ] + [K('wcd_mm_%d_%s' % (i, 'lo' if j == 0 else 'hi'), WCD, ('tuple_elt', 'memmap', 0, i, j))
         for i in range(5) for j in range(2)],
    'extra': game_extra,
}

# ----------------------------------------------------------------------------- gfx.py
GS = 'Gfx.get_sprite'
SS = 'Gfx.set_sprite'
GFX = {
    'file': 'K_gfx',
    'kernels': [
        K('gfx_to_lines_swap', 'Gfx.to_lines', ('call_arg', 'append', 0, 0), ['b']),
        K('gs_assert_id', GS, ('assert', 0), ['id'], 'bool'),
        K('gs_assert_w', GS, ('assert', 1), ['tile_width'], 'bool'),
        K('gs_assert_h', GS, ('assert', 2), ['tile_height'], 'bool'),
        K('gs_first_row', GS, ('assign', 'first_tile_row', 0), ['id']),
        K('gs_first_col', GS, ('assign', 'first_tile_col', 0), ['id']),
        K('gs_offedge', GS, ('if', 0), ['tx', 'ty'], 'bool'),
        K('gs_data_loc', GS, ('assign', 'data_loc', 0), ['ty', 'y_offset', 'tx', 'x_offset']),
        K('gs_even', GS, ('if', 1), ['x_offset'], 'bool'),
        K('gs_lo', GS, ('call_arg', 'append', 0, 0), ['b']),
        K('gs_hi', GS, ('call_arg', 'append', 1, 0), ['b']),
        K('ss_first_row', SS, ('assign', 'first_tile_row', 0), ['id']),
        K('ss_first_col', SS, ('assign', 'first_tile_col', 0), ['id']),
        K('ss_first_x', SS, ('assign', 'first_x_coord', 0), ['first_tile_col', 'tile_x_offset']),
        K('ss_first_y', SS, ('assign', 'first_y_coord', 0), ['first_tile_row', 'tile_y_offset']),
        K('ss_skip', SS, ('if', 0), ['val', 'first_y_coord', 'y', 'first_x_coord', 'x'], 'bool'),
        K('ss_data_loc', SS, ('assign', 'data_loc', 0), ['first_y_coord', 'y', 'first_x_coord', 'x']),
        K('ss_even', SS, ('if', 1), ['first_x_coord', 'x'], 'bool'),
        K('ss_b_even', SS, ('assign', 'b', 1), ['b', 'val']),
        K('ss_b_odd', SS, ('assign', 'b', 2), ['b', 'val']),
        # from_lines: the line-length filter and the bounds of the digit-swapping loop
        K('gfx_fl_skip', 'Gfx.from_lines', ('if', 0), ['len_line'], 'bool'),
        K('gfx_fl_range_lo', 'Gfx.from_lines', ('call_arg', 'range', 0, 0), []),
        K('gfx_fl_range_hi', 'Gfx.from_lines', ('call_arg', 'range', 0, 1), []),
        K('gfx_fl_range_step', 'Gfx.from_lines', ('call_arg', 'range', 0, 2), []),
    ],
    'extra': lambda mod, tree, src: (
        'Definition gfx_transparent : Z := %d.\n' % mod.TRANSPARENT +
        'Definition gfx_hex_line_bytes : Z := %d.\n' % mod.Gfx.HEX_LINE_LENGTH_BYTES +
        'Definition gfx_empty_len : Z := %d.\n' % len(mod.Gfx.empty()._data)),
}

# ----------------------------------------------------------------------------- gff.py
GFF = {
    'file': 'K_gff',
    'kernels': [
        K('gff_get_assert', 'Gff.get_flags', ('assert', 0), ['id'], 'bool'),
        K('gff_get', 'Gff.get_flags', ('return', 0, None), ['self_data:arr', 'id', 'flags']),
        K('gff_set_assert', 'Gff.set_flags', ('assert', 0), ['id'], 'bool'),
        K('gff_set_idx', 'Gff.set_flags', ('aug_idx', 0), ['id']),
        K('gff_set_new', 'Gff.set_flags', ('aug_new', 0), ['self_data:arr', 'id', 'flags']),
        K('gff_clear_assert', 'Gff.clear_flags', ('assert', 0), ['id'], 'bool'),
        K('gff_clear_idx', 'Gff.clear_flags', ('aug_idx', 0), ['id']),
        K('gff_clear_new', 'Gff.clear_flags', ('aug_new', 0), ['self_data:arr', 'id', 'flags']),
        K('gff_reset_assert', 'Gff.reset_flags', ('assert', 0), ['id'], 'bool'),
        K('gff_reset_idx', 'Gff.reset_flags', ('store_idx', 0), ['id']),
        K('gff_reset_val', 'Gff.reset_flags', ('store_val', 0), ['flags']),
    ],
    'extra': lambda mod, tree, src: (
        'Definition gff_hex_line_bytes : Z := %d.\n' % mod.Gff.HEX_LINE_LENGTH_BYTES +
        'Definition gff_empty_len : Z := %d.\n' % len(mod.Gff.empty()._data)),
}

# ----------------------------------------------------------------------------- map.py
GRP = 'Map.get_rect_pixels'


def _rows_table(name, fn, target, k):
    """The k-th `target = <display>` of fn evaluated with nothing but bytearray in scope (a list of
    bytearrays, e.g. `[bytearray(b'\\x00' * 8)] * 8`), dumped as list (list Z); anything else fails closed."""
    c = [n for n in ast.walk(fn) if isinstance(n, ast.Assign) and len(n.targets) == 1
         and isinstance(n.targets[0], ast.Name) and n.targets[0].id == target]
    c.sort(key=lambda n: (n.lineno, n.col_offset))
    try:
        v = eval(compile(ast.Expression(c[k].value), '<kernel>', 'eval'), {'__builtins__': {}, 'bytearray': bytearray}, {})
        if not isinstance(v, list) or not all(isinstance(r, (bytes, bytearray)) for r in v):
            raise ValueError
        return 'Definition %s : list (list Z) := [%s].\n' % (
            name, '; '.join('[%s]' % '; '.join(str(b) for b in r) for r in v))
    except Exception:
        return 'Definition %s : list (list Z) := untranslatable__%s.\n' % (name, name)


def map_extra(mod, tree, src):
    import inspect
    import py2gallina as P
    fn = P.find_function(tree, GRP)
    # the call self._gfx.get_sprite(id) relies on the defaults of Gfx.get_sprite: one positional argument, no keywords
    calls = [n for n in ast.walk(fn) if isinstance(n, ast.Call) and isinstance(n.func, ast.Attribute)
             and n.func.attr == 'get_sprite']
    one_arg = len(calls) == 1 and len(calls[0].args) == 1 and not calls[0].keywords
    from pico8.gfx.gfx import Gfx
    sig = inspect.signature(Gfx.get_sprite).parameters
    dw, dh = sig['tile_width'].default, sig['tile_height'].default
    ok = one_arg and isinstance(dw, int) and isinstance(dh, int)
    return ('Definition map_hex_line_bytes : Z := %d.\n' % mod.Map.HEX_LINE_LENGTH_BYTES +
            'Definition map_empty_len : Z := %d.\n' % len(mod.Map.empty()._data) +
            '(* Map.get_rect_pixels: pixel_row = [bytearray() ...]; sprite = [bytearray(b\'\\x00\' * 8)] * 8 *)\n' +
            _rows_table('map_grp_pixel_row_init', fn, 'pixel_row', 0) +
            _rows_table('map_grp_empty_sprite', fn, 'sprite', 0) +
            '(* Map.get_rect_pixels calls get_sprite(id): the defaults tile_width, tile_height of Gfx.get_sprite *)\n' +
            ('Definition map_grp_sprite_w : Z := %d.\nDefinition map_grp_sprite_h : Z := %d.\n' % (dw, dh) if ok else
             'Definition map_grp_sprite_w : Z := untranslatable__get_sprite_call.\n'
             'Definition map_grp_sprite_h : Z := untranslatable__get_sprite_call.\n'))


MAP = {
    'file': 'K_map',
    'kernels': [
        K('map_get_assert_x', 'Map.get_cell', ('assert', 0), ['x'], 'bool'),
        K('map_get_assert_y', 'Map.get_cell', ('assert', 1), ['y', 'self_gfx_is_none:bool'], 'bool'),
        K('map_get_upper', 'Map.get_cell', ('if', 0), ['y'], 'bool'),
        K('map_get_idx_map', 'Map.get_cell', ('idx_of', ('return', 0, None)), ['y', 'x']),
        K('map_get_idx_gfx', 'Map.get_cell', ('idx_of', ('return', 1, None)), ['y', 'x']),
        K('map_set_assert_x', 'Map.set_cell', ('assert', 0), ['x'], 'bool'),
        K('map_set_assert_y', 'Map.set_cell', ('assert', 1), ['y', 'self_gfx_is_none:bool'], 'bool'),
        K('map_set_assert_v', 'Map.set_cell', ('assert', 2), ['val'], 'bool'),
        K('map_set_upper', 'Map.set_cell', ('if', 0), ['y'], 'bool'),
        K('map_set_idx_map', 'Map.set_cell', ('store_idx', 0), ['y', 'x']),
        K('map_set_idx_gfx', 'Map.set_cell', ('store_idx', 1), ['y', 'x']),
        K('map_grt_assert_x', 'Map.get_rect_tiles', ('assert', 0), ['x'], 'bool'),
        K('map_grt_assert_w', 'Map.get_rect_tiles', ('assert', 1), ['width'], 'bool'),
        K('map_grt_assert_h', 'Map.get_rect_tiles', ('assert', 2), ['height'], 'bool'),
        K('map_grt_assert_y', 'Map.get_rect_tiles', ('assert', 3), ['y'], 'bool'),
        K('map_grt_assert_g', 'Map.get_rect_tiles', ('assert', 4), ['y', 'height', 'self_gfx_is_none:bool'], 'bool'),
        K('map_grt_offedge', 'Map.get_rect_tiles', ('if', 0), ['tile_y', 'tile_x'], 'bool'),
        K('map_srt_skip', 'Map.set_rect_tiles', ('if', 0), ['tile_y', 'y', 'tile_x', 'x'], 'bool'),
        K('map_srt_cx', 'Map.set_rect_tiles', ('call_arg', 'set_cell', 0, 0), ['tile_x', 'x']),
        K('map_srt_cy', 'Map.set_rect_tiles', ('call_arg', 'set_cell', 0, 1), ['tile_y', 'y']),
        # get_rect_pixels: the five asserts, the empty-tile test, the sprite id handed to get_sprite, the two
        # `for i in range(0, 8)` loops (the display of 8 row buffers and the empty sprite are dumped by map_extra)
        K('map_grp_assert_g', GRP, ('assert', 0), ['self_gfx_is_none:bool'], 'bool'),
        K('map_grp_assert_x', GRP, ('assert', 1), ['x'], 'bool'),
        K('map_grp_assert_w', GRP, ('assert', 2), ['width'], 'bool'),
        K('map_grp_assert_h', GRP, ('assert', 3), ['height'], 'bool'),
        K('map_grp_assert_yh', GRP, ('assert', 4), ['y', 'height'], 'bool'),
        K('map_grp_empty', GRP, ('if', 0), ['id'], 'bool'),
        K('map_grp_sprite_id', GRP, ('call_arg', 'get_sprite', 0, 0), ['id']),
        K('map_grp_ext_lo', GRP, ('call_arg', 'range', 0, 0), []),
        K('map_grp_ext_hi', GRP, ('call_arg', 'range', 0, 1), []),
        K('map_grp_out_lo', GRP, ('call_arg', 'range', 1, 0), []),
        K('map_grp_out_hi', GRP, ('call_arg', 'range', 1, 1), []),
    ],
    'extra': map_extra,
}

# ----------------------------------------------------------------------------- sfx.py
GN = 'Sfx.get_note'
SN = 'Sfx.set_note'
SFX = {
    'file': 'K_sfx',
    'kernels': [
        K('sfx_gn_lsb_idx', GN, ('idx_of', ('assign', 'lsb', 0)), ['id', 'note']),
        K('sfx_gn_msb_idx', GN, ('idx_of', ('assign', 'msb', 0)), ['id', 'note']),
        K('sfx_gn_pitch', GN, ('assign', 'pitch', 0), ['lsb']),
        K('sfx_gn_waveform', GN, ('assign', 'waveform', 0), ['msb', 'lsb']),
        K('sfx_gn_volume', GN, ('assign', 'volume', 0), ['msb']),
        K('sfx_gn_effect', GN, ('assign', 'effect', 0), ['msb']),
        K('sfx_sn_lsb_idx', SN, ('idx_of', ('assign', 'lsb', 0)), ['id', 'note']),
        K('sfx_sn_msb_idx', SN, ('idx_of', ('assign', 'msb', 0)), ['id', 'note']),
        K('sfx_sn_if_pitch', SN, ('if', 0), ['pitch_is_none:bool'], 'bool'),
        K('sfx_sn_assert_pitch', SN, ('assert', 0), ['pitch'], 'bool'),
        K('sfx_sn_lsb_pitch', SN, ('assign', 'lsb', 1), ['lsb', 'pitch']),
        K('sfx_sn_if_waveform', SN, ('if', 1), ['waveform_is_none:bool'], 'bool'),
        K('sfx_sn_assert_waveform', SN, ('assert', 1), ['waveform'], 'bool'),
        K('sfx_sn_lsb_waveform', SN, ('assign', 'lsb', 2), ['lsb', 'waveform']),
        K('sfx_sn_msb_waveform', SN, ('assign', 'msb', 1), ['msb', 'waveform']),
        K('sfx_sn_if_volume', SN, ('if', 2), ['volume_is_none:bool'], 'bool'),
        K('sfx_sn_assert_volume', SN, ('assert', 2), ['volume'], 'bool'),
        K('sfx_sn_msb_volume', SN, ('assign', 'msb', 2), ['msb', 'volume']),
        K('sfx_sn_if_effect', SN, ('if', 3), ['effect_is_none:bool'], 'bool'),
        K('sfx_sn_assert_effect', SN, ('assert', 3), ['effect'], 'bool'),
        K('sfx_sn_msb_effect', SN, ('assign', 'msb', 3), ['msb', 'effect']),
        K('sfx_sn_store_lsb_idx', SN, ('store_idx', 0), ['id', 'note']),
        K('sfx_sn_store_msb_idx', SN, ('store_idx', 1), ['id', 'note']),
    ] + [K('sfx_gp_idx_%d' % i, 'Sfx.get_properties', ('idx_of', ('return', 0, i)), ['id']) for i in range(4)]
      + [K('sfx_sp_idx_%d' % i, 'Sfx.set_properties', ('store_idx', i), ['id']) for i in range(4)]
      + [K('sfx_tl_wv_byte', 'Sfx.to_lines', ('elt', ('call_arg', 'bytes', 3, 0), 1), ['waveform', 'volume'])]
      # from_lines: the line-length filter, the note loop bounds, the slice bounds of every int(line[a:b], 16)
      + [K('sfx_fl_skip', 'Sfx.from_lines', ('if', 0), ['len_line'], 'bool'),
         K('sfx_fl_range_lo', 'Sfx.from_lines', ('call_arg', 'range', 0, 0), []),
         K('sfx_fl_range_hi', 'Sfx.from_lines', ('call_arg', 'range', 0, 1), []),
         K('sfx_fl_range_step', 'Sfx.from_lines', ('call_arg', 'range', 0, 2), [])]
      + [K('sfx_fl_prop%d_%s' % (k, 'lo' if j == 0 else 'hi'), 'Sfx.from_lines',
           ('slice_lo' if j == 0 else 'slice_hi', ('call_arg', 'int', k, 0)), []) for k in range(4) for j in range(2)]
      + [K('sfx_fl_note%d_%s' % (k, 'lo' if j == 0 else 'hi'), 'Sfx.from_lines',
           ('slice_lo' if j == 0 else 'slice_hi', ('call_arg', 'int', 4 + k, 0)), ['i']) for k in range(4) for j in range(2)],
    'extra': lambda mod, tree, src: (
        'Definition sfx_hex_line_bytes : Z := %d.\n' % mod.Sfx.HEX_LINE_LENGTH_BYTES +
        'Definition sfx_empty : list Z := [%s].\n' % '; '.join(str(b) for b in mod.Sfx.empty(version=8)._data)),
}

# ----------------------------------------------------------------------------- music.py
MT = 'Music.to_lines'
MF = 'Music.from_lines'
MUSIC = {
    'file': 'K_music',
    'kernels': [
        K('mus_tl_fstop', MT, ('assign', 'fstop', 0), ['self_data:arr', 'start_i']),
        K('mus_tl_frepeat', MT, ('assign', 'frepeat', 0), ['self_data:arr', 'start_i']),
        K('mus_tl_fnext', MT, ('assign', 'fnext', 0), ['self_data:arr', 'start_i']),
        K('mus_tl_flags', MT, ('assign', 'p8flags', 0), ['fstop', 'frepeat', 'fnext']),
        K('mus_tl_chan1', MT, ('assign', 'chan1', 0), ['self_data:arr', 'start_i']),
        K('mus_tl_chan2', MT, ('assign', 'chan2', 0), ['self_data:arr', 'start_i']),
        K('mus_tl_chan3', MT, ('assign', 'chan3', 0), ['self_data:arr', 'start_i']),
        K('mus_tl_chan4', MT, ('assign', 'chan4', 0), ['self_data:arr', 'start_i']),
        K('mus_fl_fstop', MF, ('assign', 'fstop', 0), ['flags']),
        K('mus_fl_frepeat', MF, ('assign', 'frepeat', 0), ['flags']),
        K('mus_fl_fnext', MF, ('assign', 'fnext', 0), ['flags']),
        K('mus_fl_b1', MF, ('call_arg', 'append', 0, 0), ['chan1:arr', 'fnext']),
        K('mus_fl_b2', MF, ('call_arg', 'append', 1, 0), ['chan2:arr', 'frepeat']),
        K('mus_fl_b3', MF, ('call_arg', 'append', 2, 0), ['chan3:arr', 'fstop']),
        K('mus_fl_b4', MF, ('call_arg', 'append', 3, 0), ['chan4:arr']),
        K('mus_gc_assert_id', 'Music.get_channel', ('assert', 0), ['id'], 'bool'),
        K('mus_gc_assert_ch', 'Music.get_channel', ('assert', 1), ['channel'], 'bool'),
        K('mus_gc_pattern', 'Music.get_channel', ('assign', 'pattern', 0), ['self_data:arr', 'id', 'channel']),
        K('mus_gc_silent', 'Music.get_channel', ('if', 0), ['pattern'], 'bool'),
        K('mus_sc_assert_id', 'Music.set_channel', ('assert', 0), ['id'], 'bool'),
        K('mus_sc_assert_ch', 'Music.set_channel', ('assert', 1), ['channel'], 'bool'),
        K('mus_sc_assert_pat', 'Music.set_channel', ('assert', 2), ['pattern_is_none:bool', 'pattern'], 'bool'),
        K('mus_sc_silent', 'Music.set_channel', ('assign', 'pattern', 0), ['channel']),
        K('mus_sc_idx', 'Music.set_channel', ('store_idx', 0), ['id', 'channel']),
        K('mus_sc_val', 'Music.set_channel', ('store_val', 0), ['self_data:arr', 'id', 'channel', 'pattern']),
        K('mus_gp_assert', 'Music.get_properties', ('assert', 0), ['id'], 'bool'),
        K('mus_gp_begin', 'Music.get_properties', ('assign', 'begin', 0), ['self_data:arr', 'id'], 'bool'),
        K('mus_gp_end', 'Music.get_properties', ('assign', 'end', 0), ['self_data:arr', 'id'], 'bool'),
        K('mus_gp_stop', 'Music.get_properties', ('assign', 'stop', 0), ['self_data:arr', 'id'], 'bool'),
        K('mus_sp_idx_0', 'Music.set_properties', ('store_idx', 0), ['id']),
        K('mus_sp_val_0', 'Music.set_properties', ('store_val', 0), ['self_data:arr', 'id', 'begin:bool']),
        K('mus_sp_idx_1', 'Music.set_properties', ('store_idx', 1), ['id']),
        K('mus_sp_val_1', 'Music.set_properties', ('store_val', 1), ['self_data:arr', 'id', 'end:bool']),
        K('mus_sp_idx_2', 'Music.set_properties', ('store_idx', 2), ['id']),
        K('mus_sp_val_2', 'Music.set_properties', ('store_val', 2), ['self_data:arr', 'id', 'stop:bool']),
    ],
    'extra': lambda mod, tree, src: (
        'Definition music_empty : list Z := [%s].\n' % '; '.join(str(b) for b in mod.Music.empty(version=8)._data)),
}


# ----------------------------------------------------------------------------- lua.py: P8SCII tables
def _zl(xs):
    return '[' + '; '.join(str(int(x)) for x in xs) + ']'


def p8scii_extra(mod, tree, src):
    cs = mod.P8SCII_CHARSET
    rows = ';\n   '.join('(%d, %s)' % (c.p8scii, _zl(ord(ch) for ch in c.p8string)) for c in cs)
    u2p = ';\n   '.join('(%s, %d)' % (_zl(ord(ch) for ch in k), v) for k, v in mod.UNICODE_TO_P8SCII.items())
    wid = ';\n   '.join('(%d, %d)' % (ord(k), v) for k, v in mod.UNICODE_CHAR_WIDTHS.items())
    return ('(* P8SCII_CHARSET in list order: (p8scii field, code points of p8string) *)\n'
            'Definition p8scii_charset : list (Z * list Z) :=\n  [%s].\n\n' % rows +
            '(* runtime value of UNICODE_TO_P8SCII, in dict order (keys are unique) *)\n'
            'Definition u2p_items : list (list Z * Z) :=\n  [%s].\n\n' % u2p +
            '(* runtime value of UNICODE_CHAR_WIDTHS *)\n'
            'Definition width_items : list (Z * Z) :=\n  [%s].\n' % wid)


P8SCII = {'file': 'T_p8scii', 'kernels': [], 'extra': p8scii_extra}

# ----------------------------------------------------------------------------- p8png.py
PD = 'get_picodata_from_pngdata'
PN = 'get_pngdata_from_picodata'


def p8png_extra(mod, tree, src):
    import py2gallina as P
    # picodata join order in P8PNGFormatter.to_file: game.<sec>.to_bytes() ... code_bytes, version
    fn = P.find_function(tree, 'P8PNGFormatter.to_file')
    order = {'gfx': 0, 'map': 1, 'gff': 2, 'music': 3, 'sfx': 4}
    ids = None
    for n in P.ordered_nodes(fn):
        if isinstance(n, ast.Assign) and isinstance(n.targets[0], ast.Name) and n.targets[0].id == 'picodata':
            call = n.value
            try:
                elts = call.args[0].elts
                ids = []
                for e in elts[:5]:
                    assert e.func.attr == 'to_bytes' and e.func.value.value.id == 'game'
                    ids.append(order[e.func.value.attr])
                assert isinstance(elts[5], ast.Name) and elts[5].id == 'code_bytes'
                assert ast.unparse(elts[6]) == 'bytes((game.version,))'
                assert len(elts) == 7 and ast.unparse(call.func) == "b''.join"
            except Exception:
                ids = None
            break
    t = ('Definition png_join_order : list Z := [%s].\n' % '; '.join(map(str, ids)) if ids is not None
         else 'Definition png_join_order := untranslatable__picodata_join.\n')
    # from_file: which raw field feeds which section
    return t


P8PNG = {
    'file': 'K_p8png',
    'kernels': (
        [K('pd_idx_%d' % k, PD, ('aug_idx', k), ['row_i', 'width', 'col_i']) for k in range(4)] +
        [K('pd_val_%d' % k, PD, ('aug_val', k), ['row:arr', 'col_i', 'attrs_planes']) for k in range(4)] +
        [K('pn_inrange', PN, ('if', 0), ['row_i', 'width', 'col_i', 'len_picodata'], 'bool'),
         K('pn_byte_idx', PN, ('idx_of', ('assign', 'picobyte', 0)), ['row_i', 'width', 'col_i'])] +
        [K('pn_idx_%d' % k, PN, ('store_idx', k), ['col_i', 'planes']) for k in range(4)] +
        [K('pn_val_%d' % k, PN, ('store_val', k), ['row:arr', 'col_i', 'planes', 'picobyte']) for k in range(4)] +
        [K('pn_copy_idx', PN, ('store_idx', 4), ['col_i', 'planes', 'n']),
         K('pn_copy_val', PN, ('store_val', 4), ['row:arr', 'col_i', 'planes', 'n']),
         K('gcb_full_len', 'get_code_from_bytes', ('assign', 'code_length', 1)),
         K('gbc_use_compressed', 'get_bytes_from_code', ('if', 0), ['len_compressed_bytes', 'len_code'], 'bool'),
         K('gbc_len_hi', 'get_bytes_from_code', ('elt', ('call_arg', 'bytes', 0, 0), 0), ['len_code']),
         K('gbc_len_lo', 'get_bytes_from_code', ('elt', ('call_arg', 'bytes', 0, 0), 1), ['len_code']),
         K('gbc_area_size', 'get_bytes_from_code', ('call_arg', 'bytearray', 0, 0)),
         K('gbc_magic', 'get_bytes_from_code', ('elt', ('call_arg', 'join', 0, 0), 0), [], 'bytes'),
         K('gbc_pad', 'get_bytes_from_code', ('elt', ('call_arg', 'join', 0, 0), 2), [], 'bytes'),
        ] +
        [K('raw_%s_%s' % (a, w), 'get_raw_data_from_p8png_file', ('slice_' + w, ('attr_assign', a, 0)))
         for a in ('gfx', 'p8map', 'gfx_props', 'song', 'sfx', 'codedata') for w in ('lo', 'hi')] +
        [K('raw_version_idx', 'get_raw_data_from_p8png_file', ('idx_of', ('attr_assign', 'version', 0)))]
    ),
    'extra': p8png_extra,
}

MODULES = [
    ('pico8.game.game', 'pico8/game/game.py', GAME),
    ('pico8.gfx.gfx', 'pico8/gfx/gfx.py', GFX),
    ('pico8.gff.gff', 'pico8/gff/gff.py', GFF),
    ('pico8.map.map', 'pico8/map/map.py', MAP),
    ('pico8.sfx.sfx', 'pico8/sfx/sfx.py', SFX),
    ('pico8.music.music', 'pico8/music/music.py', MUSIC),
    ('pico8.lua.lua', 'pico8/lua/lua.py', P8SCII),
    ('pico8.game.formatter.p8png', 'pico8/game/formatter/p8png.py', P8PNG),
]

# further kernel/table specs live in gen/kernels_*.py, each exposing MODULES (same format)
import glob as _glob
import importlib as _importlib
import os as _os
for _f in sorted(_glob.glob(_os.path.join(_os.path.dirname(_os.path.abspath(__file__)), 'kernels_*.py'))):
    _m = _importlib.import_module(_os.path.basename(_f)[:-3])
    MODULES.extend(_m.MODULES)

