"""Regenerated source facts for Model/FmtSpaces.v (C10, and the run lemmas of C09).

T_fmtspaces  (pico8/lua/lua.py, source text via ast):
  for W in (LuaFormatterWriter, LuaMinifyWriter), function W._get_code_for_spaces:
    <w>_resubs : every `re.sub(...)` call of the function in source order, as
                 (guard, regex source, replacement expression)
                 guard       = ast.unparse of the test of the enclosing `if` ('' when unguarded;
                               nested ifs joined by ' and ')
                 regex       = the bytes constant given as first argument (the regex SOURCE)
                 replacement = ast.unparse of the second argument
                 all three as byte lists.  A re.sub whose first argument is not a bytes constant, whose
                 third argument is not `spaces`, or which is not of the form `spaces = re.sub(..)` makes
                 the definition an unbound identifier (fail closed).
    <w>_fn_src : ast.unparse of the whole function with the docstring removed (pins the token-collecting
                 loop, the guards, the early return of the minifier and the order of everything).
  fmt_default_indent_width, and fmt_indent_attr_src (the expression LuaFormatterWriter.__init__ stores in
  self._indent_mult).
The hand-written scanners of Model/FmtSpaces.v are pinned to these constants by reflexivity lemmas in
Proofs/FmtSpacesProofs.v: an edited regex / guard / order is a broken obligation, not silent drift.
"""
import ast


def _zl(bs):
    return '[' + '; '.join(str(int(x)) for x in bytes(bs)) + ']'


class _Bad(Exception):
    pass


def _strip_doc(fn):
    body = list(fn.body)
    if body and isinstance(body[0], ast.Expr) and isinstance(body[0].value, ast.Constant) \
            and isinstance(body[0].value.value, str):
        body = body[1:]
    new = ast.FunctionDef(name=fn.name, args=fn.args, body=body, decorator_list=fn.decorator_list,
                          returns=fn.returns, type_comment=None)
    return ast.fix_missing_locations(new)


def _resubs(fn):
    out = []

    def is_resub(n):
        return isinstance(n, ast.Call) and ast.unparse(n.func) == 're.sub'

    def stmt(st, guards):
        if isinstance(st, ast.If):
            g = guards + [ast.unparse(st.test)]
            for s in st.body:
                stmt(s, g)
            if st.orelse:
                if any(is_resub(n) for s in st.orelse for n in ast.walk(s)):
                    raise _Bad('re_sub_in_else')
                for s in st.orelse:
                    stmt(s, guards + ['not (%s)' % ast.unparse(st.test)])
            return
        calls = [n for n in ast.walk(st) if is_resub(n)]
        if not calls:
            return
        if not (isinstance(st, ast.Assign) and len(st.targets) == 1 and isinstance(st.targets[0], ast.Name)
                and st.targets[0].id == 'spaces' and st.value is calls[0] and len(calls) == 1):
            raise _Bad('re_sub_statement_shape')
        c = calls[0]
        if len(c.args) != 3 or c.keywords or not isinstance(c.args[0], ast.Constant) \
                or not isinstance(c.args[0].value, bytes) or ast.unparse(c.args[2]) != 'spaces':
            raise _Bad('re_sub_call_shape')
        out.append((' and '.join(guards).encode(), c.args[0].value, ast.unparse(c.args[1]).encode()))
    for st in fn.body:
        stmt(st, [])
    if not out:
        raise _Bad('no_re_sub')
    return out


def fmt_extra(mod, tree, src):
    import py2gallina as P
    out = ['(* re.sub calls of the _get_code_for_spaces pipelines, in source order: (guard, regex source, replacement\n'
           '   expression), and the whole function text; see gen/kernels_fmt.py *)\n']
    for name, qn in (('fmtw', 'LuaFormatterWriter._get_code_for_spaces'),
                     ('minw', 'LuaMinifyWriter._get_code_for_spaces')):
        try:
            fn = P.find_function(tree, qn)
            rows = _resubs(fn)
            out.append('Definition %s_resubs : list (list Z * list Z * list Z) :=\n  [%s].\n\n' % (
                name, ';\n   '.join('(%s, %s, %s)' % (_zl(g), _zl(r), _zl(p)) for g, r, p in rows)))
            out.append('Definition %s_fn_src : list Z :=\n  %s.\n\n' % (name, _zl(ast.unparse(_strip_doc(fn)).encode())))
        except _Bad as e:
            out.append('Definition %s_resubs := untranslatable__%s__%s.\n' % (name, name, e.args[0]))
        except Exception as e:
            out.append('Definition %s_resubs := untranslatable__%s__%s.\n' % (
                name, name, ''.join(ch if ch.isalnum() else '_' for ch in str(e))[:60]))
    try:
        init = P.find_function(tree, 'LuaFormatterWriter.__init__')
        val = None
        for n in ast.walk(init):
            if isinstance(n, ast.Assign) and ast.unparse(n.targets[0]) == 'self._indent_mult':
                val = ast.unparse(n.value)
        if val is None:
            raise _Bad('no_indent_mult')
        out.append('Definition fmt_indent_attr_src : list Z :=\n  %s.\n' % _zl(val.encode()))
    except Exception:
        out.append('Definition fmt_indent_attr_src := untranslatable__fmt_indent_attr.\n')
    out.append('Definition fmtw_default_indent_width : Z := %d.\n' % mod.LuaFormatterWriter.DEFAULT_INDENT_WIDTH)
    return ''.join(out)


FMT = {'file': 'T_fmtspaces', 'kernels': [], 'extra': fmt_extra}

MODULES = [
    ('pico8.lua.lua', 'pico8/lua/lua.py', FMT),
]
