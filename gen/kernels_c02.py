"""Regenerated source texts for C02 that are not integer kernels: how the renaming factory is
wired into the minifier and into the two command-line entry points.

T_minwiring_lua   (pico8/lua/lua.py): the body of MinifyNameFactory.get_short_name, the factory
                  construction in LuaMinifyTokenWriter.__init__ and the two get_short_name calls of
                  LuaMinifyTokenWriter._minified_chunks (names, labels; to_lines only spaces the chunks) - as ast.unparse text.
T_minwiring_tool  (pico8/tool.py): the lua_writer_args of luamin().
T_minwiring_build (pico8/build/build.py): the writer-selection statement of do_build().
Each text is pinned by a reflexivity lemma in Proofs/NameFactoryProofs.v: an edit of the wiring
(e.g. a fix of S3) breaks the pin, i.e. the model must be revisited; nothing drifts silently.
A selection that no longer exists yields an unbound identifier (fail closed).
"""
import ast


def zl(bs):
    return '[' + '; '.join(str(int(b)) for b in bs) + ']'


def emit(name, comment, thunk):
    try:
        text = thunk()
        return '(* %s *)\nDefinition %s : list Z := %s.\n\n' % (comment, name, zl(text.encode()))
    except Exception as e:  # fail closed
        why = ''.join(ch if ch.isalnum() else '_' for ch in '%s_%s' % (type(e).__name__, e))[:80]
        return 'Definition %s : list Z := untranslatable__%s__%s.\n\n' % (name, name, why)


def no_debug(stmts):
    """statements without calls of util.debug (logging only)"""
    out = []
    for s in stmts:
        if isinstance(s, ast.Expr) and isinstance(s.value, ast.Call) and \
                isinstance(s.value.func, ast.Attribute) and s.value.func.attr == 'debug':
            continue
        out.append(s)
    return out


def lua_extra(mod, tree, src):
    import py2gallina as P

    def gsn_body():
        fn = P.find_function(tree, 'MinifyNameFactory.get_short_name')
        m = ast.Module(body=[s for s in fn.body if not (isinstance(s, ast.Expr) and isinstance(s.value, ast.Constant))],
                       type_ignores=[])
        # drop the util.debug(...) call inside `if name not in self._name_map:` (logging only)
        for n in ast.walk(m):
            if isinstance(n, (ast.If, ast.While)):
                n.body = no_debug(n.body)
        return ast.unparse(m)

    def factory_call():
        fn = P.find_function(tree, 'LuaMinifyTokenWriter.__init__')
        return ast.unparse(P.select(fn, ('call', 'MinifyNameFactory', 0)))

    def gsn_call(k):
        def f():
            fn = P.find_function(tree, 'LuaMinifyTokenWriter._minified_chunks')
            calls = [n for n in P.ordered_nodes(fn) if isinstance(n, ast.Call) and
                     isinstance(n.func, ast.Attribute) and n.func.attr == 'get_short_name']
            if len(calls) != 2:
                raise ValueError('expected_2_get_short_name_calls_found_%d' % len(calls))
            return ast.unparse(calls[k])
        return f

    def branch_tests():
        # the tests of the token-class dispatch that lead to the two calls
        fn = P.find_function(tree, 'LuaMinifyTokenWriter._minified_chunks')
        tests = [ast.unparse(n.test) for n in P.ordered_nodes(fn) if isinstance(n, ast.If) and
                 any(isinstance(c, ast.Call) and isinstance(c.func, ast.Attribute) and c.func.attr == 'get_short_name'
                     for s in n.body for c in ast.walk(s))]
        return ' | '.join(tests)

    return (emit('gsn_body_src', 'MinifyNameFactory.get_short_name, body (docstring and util.debug dropped)', gsn_body) +
            emit('mtw_factory_src', 'LuaMinifyTokenWriter.__init__: construction of the factory', factory_call) +
            emit('mtw_name_call_src', 'LuaMinifyTokenWriter._minified_chunks: renaming of a TokName', gsn_call(0)) +
            emit('mtw_label_call_src', 'LuaMinifyTokenWriter._minified_chunks: renaming of a TokLabel', gsn_call(1)) +
            emit('mtw_branch_tests_src', 'LuaMinifyTokenWriter._minified_chunks: tests guarding the two calls', branch_tests))


def tool_extra(mod, tree, src):
    import py2gallina as P

    def luamin_args():
        fn = P.find_function(tree, 'luamin')
        call = P.select(fn, ('call', 'to_file', 0))
        kws = {k.arg: k.value for k in call.keywords}
        return 'lua_writer_cls=%s, lua_writer_args=%s' % (ast.unparse(kws['lua_writer_cls']), ast.unparse(kws['lua_writer_args']))
    return emit('luamin_writer_src', 'tool.luamin: writer class and args handed to file.to_file', luamin_args)


def build_extra(mod, tree, src):
    import py2gallina as P

    def writer_selection():
        fn = P.find_function(tree, 'do_build')
        ifs = [n for n in fn.body if isinstance(n, ast.If) and 'lua_format' in ast.unparse(n.test)]
        if len(ifs) != 1:
            raise ValueError('writer_selection_not_found')
        pre = [n for n in fn.body if isinstance(n, ast.Assign) and isinstance(n.targets[0], ast.Name) and
               n.targets[0].id in ('lua_writer_cls', 'lua_writer_args')]
        call = [n for n in fn.body if isinstance(n, ast.Expr) and isinstance(n.value, ast.Call) and
                'to_file' in ast.unparse(n.value.func)]
        return ast.unparse(ast.Module(body=pre + ifs + call, type_ignores=[]))
    return emit('build_writer_selection_src', 'build.do_build: choice of Lua writer and its args', writer_selection)


MODULES = [
    ('pico8.lua.lua', 'pico8/lua/lua.py', {'file': 'T_minwiring_lua', 'kernels': [], 'extra': lua_extra}),
    ('pico8.tool', 'pico8/tool.py', {'file': 'T_minwiring_tool', 'kernels': [], 'extra': tool_extra}),
    ('pico8.build.build', 'pico8/build/build.py', {'file': 'T_minwiring_build', 'kernels': [], 'extra': build_extra}),
]
