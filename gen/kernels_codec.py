"""Regenerated items for C05 / C04 (worker `codec`): pico8/game/compress.py and the code-area
part of pico8/game/formatter/p8png.py that Generated/K_p8png.v does not already cover.

Files written: Generated/K_compress.v (+ _selftest) and Generated/K_p8png_codec.v (+ _selftest).

Beyond the standard K(...) kernels this module emits, through the `extra` hook, a few
definitions the stock selectors cannot reach (sub-expressions of a BoolOp, byte-string
constants used inside comparisons, `x[-1]`, `b' '[0]`).  They are translated by a small
subclass of the fail-closed translator and come with their own in-file self-test lemmas
(`kx_*`), evaluated against Python `eval` of the very same AST node.
"""
import ast
import copy
import random

from kernels import K


def _zl(xs):
    return '[' + '; '.join(str(int(x)) for x in xs) + ']'


# ----------------------------------------------------------------------------- extended translator
def _mk_translator(g, params):
    import py2gallina as P

    class CodecTranslator(P.Translator):
        """Adds:  <bytes literal>[<int literal>] -> the integer;  NAME[-1] -> parameter NAME_last."""

        def tr(self, n, probe=False):
            if isinstance(n, ast.Subscript) and isinstance(n.value, ast.Constant) and \
                    isinstance(n.value.value, bytes) and isinstance(n.slice, ast.Constant) and \
                    isinstance(n.slice.value, int) and 0 <= n.slice.value < len(n.value.value):
                return self.zlit(n.value.value[n.slice.value]), 'Z'
            if isinstance(n, ast.Subscript) and isinstance(n.value, ast.Name) and \
                    isinstance(n.slice, ast.UnaryOp) and isinstance(n.slice.op, ast.USub) and \
                    isinstance(n.slice.operand, ast.Constant) and n.slice.operand.value == 1:
                return self.param(n.value.id + '_last', 'Z'), 'Z'
            return super().tr(n, probe)
    return CodecTranslator(g, params)


def _emit(name, node, g, params, ret, what, samples_env=None, rng=None):
    """Coq definition (+ self-test lemma) for an AST expression node; fail-closed."""
    import py2gallina as P
    try:
        if node is None:
            raise P.Untranslatable('selector_miss')
        tr = _mk_translator(g, params)
        body, t = tr.tr(node)
        if t != ret:
            raise P.Untranslatable('result_type_%s_not_%s' % (t, ret))
        unused = [p for p in tr.params if p not in tr.used]
        if unused:
            raise P.Untranslatable('unused_param_%s' % '_'.join(unused))
        binders = ' '.join('(%s : %s)' % (P.coqname(p), {'Z': 'Z', 'bool': 'bool'}[tr.ptype[p]]) for p in tr.params)
        src = ast.unparse(node).replace('*)', '* )').replace('(*', '( *')
        text = '(* %s: %s *)\nDefinition %s %s : %s :=\n  %s.\n' % (what, src, name, binders, ret, body)
        # self-test: evaluate the same node in Python on concrete objects
        if samples_env is not None:
            code = compile(ast.Expression(body=ast.fix_missing_locations(copy.deepcopy(node))), '<kx>', 'eval')
            lhs, rhs = [], []
            for _ in range(24):
                env, args = samples_env(rng)
                genv = dict(g)
                genv.update(env)
                r = eval(code, {'__builtins__': {'len': len, 'min': min, 'max': max}}, genv)
                lhs.append('%s %s' % (name, ' '.join(('(%d)' % a if a < 0 else str(a)) for a in args)))
                rhs.append(('true' if r else 'false') if isinstance(r, bool) else (str(r) if r >= 0 else '(%d)' % r))
            text += 'Lemma kx_%s : [%s]\n  = [%s].\nProof. vm_compute. reflexivity. Qed.\n' % (
                name, '; '.join(lhs), '; '.join(rhs))
        return text + '\n'
    except P.Untranslatable as e:
        reason = ''.join(ch if ch.isalnum() or ch == '_' else '_' for ch in str(e))
        return 'Definition %s := untranslatable__%s__%s.\n\n' % (name, name, reason)


def _bytes_const(name, node, what):
    if isinstance(node, ast.Constant) and isinstance(node.value, bytes):
        return '(* %s *)\nDefinition %s : list Z := %s.\n\n' % (what, name, _zl(node.value))
    return 'Definition %s := untranslatable__%s__not_a_bytes_literal.\n\n' % (name, name)


def _nth(nodes, cls, k):
    c = [n for n in nodes if isinstance(n, cls)]
    return c[k] if k < len(c) else None


# ----------------------------------------------------------------------------- compress.py
FRB = '_find_repeatable_block'
CC = 'compress_code'
DC = 'decompress_code'


def compress_extra(mod, tree, src):
    import py2gallina as P
    g = {k: v for k, v in vars(mod).items() if not k.startswith('__')}
    rng = random.Random(20260926)
    out = []
    out.append('(* runtime values of the module constants *)\n')
    out.append('Definition compress_table : list Z := %s.\n' % _zl(mod.COMPRESSED_LUA_CHAR_TABLE))
    out.append('Definition future_code1 : list Z := %s.\n' % _zl(mod.PICO8_FUTURE_CODE1))
    out.append('Definition future_code2 : list Z := %s.\n\n' % _zl(mod.PICO8_FUTURE_CODE2))
    try:
        fn = P.find_function(tree, CC)
        nodes = P.ordered_nodes(fn)
        if0 = _nth(nodes, ast.If, 0)
        if1 = _nth(nodes, ast.If, 1)
    except P.Untranslatable:
        if0 = if1 = None
    # if b'_update60' in in_p and len(in_p) < PICO8_CODE_ALLOC_SIZE - (len(PICO8_FUTURE_CODE2) + 1):
    needle = lenok = None
    if if0 is not None and isinstance(if0.test, ast.BoolOp) and isinstance(if0.test.op, ast.And) and len(if0.test.values) == 2:
        a, b = if0.test.values
        if isinstance(a, ast.Compare) and len(a.ops) == 1 and isinstance(a.ops[0], ast.In) and \
                isinstance(a.comparators[0], ast.Name) and a.comparators[0].id == 'in_p':
            needle = a.left
        lenok = b
    out.append(_bytes_const('cc_needle', needle, "compress_code ('if', 0), left operand of `in in_p`"))

    def env_len(r):
        n = r.choice([0, 1, 9, 100, 65461, 65462, 65463, 65464, 65465, 65536, r.randrange(0, 70000)])
        return {'in_p': bytes(n), 'PICO8_CODE_ALLOC_SIZE': 0x10000 + 1}, [n, 0x10000 + 1]
    out.append(_emit('cc_suffix_len_ok', lenok, g, ['len_in_p', 'PICO8_CODE_ALLOC_SIZE'], 'bool',
                     "compress_code ('if', 0), second conjunct", env_len, rng))

    def env_last(r):
        c = r.choice([10, 32, 0, 9, 13, 33, 255, r.randrange(256)])
        return {'in_p': bytes([1, c])}, [c]
    out.append(_emit('cc_needs_newline', if1.test if if1 is not None else None, g, ['in_p_last'], 'bool',
                     "compress_code ('if', 1)", env_last, rng))
    # bytes appended when the test above holds:  in_p += b'\n'
    nl = None
    if if1 is not None and len(if1.body) == 1 and isinstance(if1.body[0], ast.AugAssign) and \
            isinstance(if1.body[0].op, ast.Add) and isinstance(if1.body[0].target, ast.Name) and if1.body[0].target.id == 'in_p':
        nl = if1.body[0].value
    out.append(_bytes_const('cc_newline', nl, "compress_code: in_p += <this> inside ('if', 1)"))
    # decompress_code: assert bytes(codedata[6:8]) == b'\x00\x00'
    lo = hi = zz = None
    try:
        fn = P.find_function(tree, DC)
        nodes = P.ordered_nodes(fn)
        a0 = _nth(nodes, ast.Assert, 0)
        t = a0.test
        if isinstance(t, ast.Compare) and len(t.ops) == 1 and isinstance(t.ops[0], ast.Eq) and \
                ast.unparse(t.left).startswith('bytes(codedata[') and isinstance(t.left.args[0].slice, ast.Slice):
            lo, hi, zz = t.left.args[0].slice.lower, t.left.args[0].slice.upper, t.comparators[0]
    except Exception:
        pass
    out.append(_emit('dc_assert_lo', lo, g, [], 'Z', "decompress_code ('assert', 0) slice lower bound"))
    out.append(_emit('dc_assert_hi', hi, g, [], 'Z', "decompress_code ('assert', 0) slice upper bound"))
    out.append(_bytes_const('dc_assert_bytes', zz, "decompress_code ('assert', 0) right-hand side"))
    # strip argument and the two newline tests of the suffix removal
    strip = None
    nlt = []
    try:
        for n in nodes:
            if isinstance(n, ast.Call) and isinstance(n.func, ast.Attribute) and n.func.attr == 'strip' and len(n.args) == 1:
                strip = n.args[0]
        ifs = [n for n in nodes if isinstance(n, ast.If)]
        nlt = [n.test for n in ifs if ast.unparse(n.test).startswith('code[-1]')]
    except Exception:
        pass
    out.append(_bytes_const('dc_strip_bytes', strip, 'decompress_code: argument of .strip()'))

    def env_code_last(r):
        c = r.choice([10, 32, 0, 13, r.randrange(256)])
        return {'code': bytes([7, c])}, [c]
    for k in range(2):
        out.append(_emit('dc_drop_newline_%d' % k, nlt[k] if k < len(nlt) else None, g, ['code_last'], 'bool',
                         'decompress_code: newline test %d after removing the suffix' % k, env_code_last, rng))
    return ''.join(out)


COMPRESS = {
    'file': 'K_compress',
    'kernels': [
        K('frb_max_block_len', FRB, ('assign', 'max_block_len', 0)),
        K('frb_window', FRB, ('assign', 'max_hist_len', 0)),
        K('frb_best_i0', FRB, ('assign', 'best_i', 0)),
        K('frb_best_len0', FRB, ('assign', 'best_len', 0)),
        K('frb_max_len', FRB, ('assign', 'max_len', 0), ['max_block_len', 'len_dat', 'pos']),
        K('frb_hist', FRB, ('assign', 'max_hist_len', 1), ['max_hist_len', 'pos']),
        K('frb_i0', FRB, ('assign', 'i', 0), ['pos', 'max_hist_len']),
        K('frb_outer', FRB, ('while', 0), ['i', 'pos'], 'bool'),
        K('frb_inner', FRB, ('while', 1), ['j', 'i', 'max_len', 'pos', 'dat:arr'], 'bool'),
        K('frb_better', FRB, ('if', 0), ['j', 'i', 'best_len'], 'bool'),
        K('frb_new_len', FRB, ('assign', 'best_len', 1), ['j', 'i']),
        K('frb_offset', FRB, ('assign', 'block_offset', 0), ['pos', 'best_i']),
        K('cc_alloc_size', CC, ('assign', 'PICO8_CODE_ALLOC_SIZE', 0)),
        K('cc_lit_first', CC, ('call_arg', 'range', 0, 0)),
        K('cc_lit_stop', CC, ('call_arg', 'range', 0, 1)),
        K('cc_loop', CC, ('while', 0), ['pos', 'len_in_p'], 'bool'),
        K('cc_is_block', CC, ('if', 2), ['block_len'], 'bool'),
        K('cc_b1', CC, ('call_arg', 'append', 0, 0), ['block_offset']),
        K('cc_b2', CC, ('call_arg', 'append', 1, 0), ['block_offset', 'block_len']),
        K('cc_adv_block', CC, ('augassign', 'pos', 0), ['pos', 'block_len']),
        K('cc_adv_lit', CC, ('augassign', 'pos', 1), ['pos']),
        K('dc_code_length', DC, ('assign', 'code_length', 0), ['codedata:arr']),
        K('dc_in_i0', DC, ('assign', 'in_i', 0)),
        K('dc_out_i0', DC, ('assign', 'out_i', 0)),
        K('dc_loop', DC, ('while', 0), ['out_i', 'code_length', 'in_i', 'len_codedata'], 'bool'),
        K('dc_is_raw', DC, ('if', 0), ['codedata:arr', 'in_i'], 'bool'),
        K('dc_is_lit', DC, ('if', 1), ['codedata:arr', 'in_i'], 'bool'),
        K('dc_offset', DC, ('assign', 'offset', 0), ['codedata:arr', 'in_i']),
        K('dc_length', DC, ('assign', 'length', 0), ['codedata:arr', 'in_i']),
        K('dc_copy_stop', DC, ('if', 2), ['out_i', 'code_length'], 'bool'),
        K('dc_copy_src', DC, ('idx_of', ('store_val', 2)), ['out_i', 'offset']),
    ],
    'extra': compress_extra,
}


# ----------------------------------------------------------------------------- p8png.py (code area only)
def p8png_codec_extra(mod, tree, src):
    import py2gallina as P
    g = {k: v for k, v in vars(mod).items() if not k.startswith('__')}
    out = []
    magic = hi = None
    cr = sp = nl = None
    try:
        fn = P.find_function(tree, 'get_code_from_bytes')
        nodes = P.ordered_nodes(fn)
        if0 = _nth(nodes, ast.If, 0)
        t = if0.test
        # bytes(codedata[:4]) != b':c:\x00'   (no other disjunct)
        if isinstance(t, ast.Compare) and len(t.ops) == 1 and isinstance(t.ops[0], ast.NotEq) and \
                ast.unparse(t.left).startswith('bytes(codedata[:') and t.left.args[0].slice.lower is None:
            hi, magic = t.left.args[0].slice.upper, t.comparators[0]
        for n in nodes:
            if isinstance(n, ast.Call) and isinstance(n.func, ast.Attribute) and n.func.attr == 'replace' and len(n.args) == 2:
                cr, sp = n.args
            if isinstance(n, ast.Assign) and isinstance(n.targets[0], ast.Name) and n.targets[0].id == 'code' and \
                    isinstance(n.value, ast.BinOp) and isinstance(n.value.op, ast.Add) and \
                    ast.unparse(n.value.left) == 'bytes(codedata[:code_length])':
                nl = n.value.right
    except Exception:
        pass
    out.append(_emit('gcb_magic_len', hi, g, [], 'Z', "get_code_from_bytes ('if', 0): upper bound of codedata[:n]"))
    out.append(_bytes_const('gcb_magic', magic, "get_code_from_bytes ('if', 0): the whole test is `bytes(codedata[:n]) != <this>`"))
    out.append(_bytes_const('gcb_raw_suffix', nl, 'get_code_from_bytes: code = bytes(codedata[:code_length]) + <this>'))
    out.append(_bytes_const('gcb_replace_from', cr, 'get_code_from_bytes: code.replace(<this>, ...)'))
    out.append(_bytes_const('gcb_replace_to', sp, 'get_code_from_bytes: code.replace(..., <this>)'))
    return ''.join(out)


P8PNG_CODEC = {
    'file': 'K_p8png_codec',
    'kernels': [
        K('gbc_too_big', 'get_bytes_from_code', ('if', 1), ['len_code_bytes'], 'bool'),
        K('gbc_hdr_pad', 'get_bytes_from_code', ('elt', ('call_arg', 'join', 0, 0), 2), [], 'bytes'),
        K('gcb_index_arg', 'get_code_from_bytes', ('call_arg', 'index', 0, 0)),
    ],
    'extra': p8png_codec_extra,
}

MODULES = [
    ('pico8.game.compress', 'pico8/game/compress.py', COMPRESS),
    ('pico8.game.formatter.p8png', 'pico8/game/formatter/p8png.py', P8PNG_CODEC),
]
