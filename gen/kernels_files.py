"""Regenerated constants for the file-level properties C11 C12 C13 C14 C20.

Three generated files, one per source module (a construct that can no longer be located
breaks only the cone that uses it, by emitting an unbound identifier):
  T_files_p8    <- pico8/game/formatter/p8.py   regex sources, PICO8_CART_PATHS
  T_files_build <- pico8/build/build.py         load path, game-loop names, preambles, the section
                                                tuple and extension tests of do_build, the require filter
  T_files_file  <- pico8/game/file.py + tool.py FORMATTERS order, argparse dests of `build`
Everything is a runtime value (import) or an AST constant selected by position; strings are
emitted as UTF-8 byte lists.  The models pin every item with a reflexivity lemma.
"""
import ast


def _zl(bs):
    return '[' + '; '.join(str(int(b)) for b in bs) + ']'


def _b(s):
    return s if isinstance(s, (bytes, bytearray)) else s.encode('utf-8')


def _zll(items):
    return '[' + ';\n   '.join(_zl(_b(x)) for x in items) + ']'


def _fail(name, why):
    return 'Definition %s := untranslatable__%s.\n' % (name, ''.join(c if c.isalnum() else '_' for c in why))


# ----------------------------------------------------------------------------- p8.py
def p8_extra(mod, tree, src):
    out = []
    for name in ('INCLUDE_LINE_RE', 'TAB_LINE_RE', 'HEADER_VERSION_RE', 'SECTION_DELIM_RE'):
        pat = getattr(mod, name, None)
        if pat is None or not isinstance(getattr(pat, 'pattern', None), bytes):
            out.append(_fail('src_' + name.lower(), 'no_bytes_regex_' + name))
            continue
        out.append('Definition src_%s : list Z := %s.\n' % (name.lower(), _zl(pat.pattern)))
        out.append('Definition flags_%s : Z := %d.\n' % (name.lower(), pat.flags))
    out.append('Definition pico8_cart_paths : list (list Z) :=\n  %s.\n' % _zll(mod.PICO8_CART_PATHS))
    out.append('Definition header_title_str : list Z := %s.\n' % _zl(mod.HEADER_TITLE_STR))
    # how the regexes are applied in the two functions we model: .match (anchored at 0, not fullmatch)
    import py2gallina as P
    for fn, rx, dname in (('process_includes', 'INCLUDE_LINE_RE', 'include_re_method'),
                          ('lines_for_tab', 'TAB_LINE_RE', 'tab_re_method')):
        try:
            f = P.find_function(tree, fn)
        except Exception:
            out.append(_fail(dname, 'no_function_' + fn))
            continue
        meths = [n.func.attr for n in P.ordered_nodes(f)
                 if isinstance(n, ast.Call) and isinstance(n.func, ast.Attribute)
                 and isinstance(n.func.value, ast.Name) and n.func.value.id == rx]
        if len(meths) != 1:
            out.append(_fail(dname, 'regex_use_count_%d' % len(meths)))
        else:
            out.append('Definition %s : list Z := %s.\n' % (dname, _zl(_b(meths[0]))))
    # the two containment tests, classified by shape (anything else: fail closed)
    #   include_containment_kind: 0 = plain str.startswith(root) ; 1 = equal to root or startswith(root + sep)
    #   root_detection_kind:      0 = plain str.startswith(candidate) ; 2 = startswith(candidate + sep)
    def _shape(expr):
        return ast.dump(ast.parse(expr, mode='eval').body)
    inc_shapes = {
        _shape("not inc_full_path.startswith(root_path)"): 0,
        _shape("inc_full_path != root_path and not inc_full_path.startswith(os.path.join(root_path, ''))"): 1,
    }
    root_shapes = {
        _shape("full_file_path.startswith(full_candidate_path)"): 0,
        _shape("full_file_path.startswith(os.path.join(full_candidate_path, ''))"): 2,
    }
    try:
        f = P.find_function(tree, 'process_includes')
        tests = [n.test for n in P.ordered_nodes(f)
                 if isinstance(n, ast.If) and n.body and isinstance(n.body[0], ast.Raise)
                 and 'P8IncludeOutsideOfAllowedDirectory' in ast.dump(n.body[0])]
        if len(tests) != 1 or ast.dump(tests[0]) not in inc_shapes:
            out.append(_fail('include_containment_kind', 'include_containment_shape'))
        else:
            out.append('Definition include_containment_kind : Z := %d.\n' % inc_shapes[ast.dump(tests[0])])
    except Exception as e:  # noqa
        out.append(_fail('include_containment_kind', 'process_includes_%s' % type(e).__name__))
    try:
        f = P.find_function(tree, 'get_root_include_path')
        tests = [n.test for n in P.ordered_nodes(f)
                 if isinstance(n, ast.If) and len(n.body) == 1 and isinstance(n.body[0], ast.Assign)
                 and ast.dump(n.body[0]) == ast.dump(ast.parse('root_path = full_candidate_path').body[0])]
        if len(tests) != 1 or ast.dump(tests[0]) not in root_shapes:
            out.append(_fail('root_detection_kind', 'root_detection_shape'))
        else:
            out.append('Definition root_detection_kind : Z := %d.\n' % root_shapes[ast.dump(tests[0])])
    except Exception as e:  # noqa
        out.append(_fail('root_detection_kind', 'get_root_include_path_%s' % type(e).__name__))
    # what process_includes yields for the lines of an include target: 0 = `yield line` at both sites,
    # 1 = `yield line if line.endswith(b'\\n') else line + b'\\n'` at both sites
    try:
        f = P.find_function(tree, 'process_includes')
        ys = []
        for n in P.ordered_nodes(f):
            if isinstance(n, ast.For) and isinstance(n.target, ast.Name) and n.target.id == 'line' \
                    and not (isinstance(n.iter, ast.Name) and n.iter.id == 'lualines'):
                ys.append([ast.dump(b) for b in n.body])
        y0 = [ast.dump(ast.parse('yield line').body[0])]
        y1 = [ast.dump(ast.parse("yield line if line.endswith(b'\\n') else line + b'\\n'").body[0])]
        if len(ys) == 2 and all(y == y0 for y in ys):
            out.append('Definition include_newline_kind : Z := 0.\n')
        elif len(ys) == 2 and all(y == y1 for y in ys):
            out.append('Definition include_newline_kind : Z := 1.\n')
        else:
            out.append(_fail('include_newline_kind', 'include_yield_shape'))
    except Exception as e:  # noqa
        out.append(_fail('include_newline_kind', 'process_includes_%s' % type(e).__name__))
    # which lines of an included cart are offered to lines_for_tab: 0 = the chunks of inc_game.lua.to_lines(),
    # 1 = the text lines of the joined code (io.BytesIO(b''.join(inc_game.lua.to_lines())))
    try:
        f = P.find_function(tree, 'process_includes')
        nodes = P.ordered_nodes(f)
        loops = [n for n in nodes if isinstance(n, ast.For) and isinstance(n.iter, ast.Call)
                 and isinstance(n.iter.func, ast.Name) and n.iter.func.id == 'lines_for_tab']
        kind = None
        if len(loops) == 1 and len(loops[0].iter.args) == 2:
            a0 = ast.dump(loops[0].iter.args[0])
            if a0 == ast.dump(ast.parse('inc_game.lua.to_lines()', mode='eval').body):
                kind = 0
            elif a0 == ast.dump(ast.parse('inc_code', mode='eval').body):
                asg = [n for n in nodes if isinstance(n, ast.Assign) and len(n.targets) == 1
                       and isinstance(n.targets[0], ast.Name) and n.targets[0].id == 'inc_code']
                want = ast.dump(ast.parse("inc_code = io.BytesIO(b''.join(inc_game.lua.to_lines()))").body[0])
                if len(asg) == 1 and ast.dump(asg[0]) == want:
                    kind = 1
        if kind is None:
            out.append(_fail('include_cart_lines_kind', 'include_cart_lines_shape'))
        else:
            out.append('Definition include_cart_lines_kind : Z := %d.\n' % kind)
    except Exception as e:  # noqa
        out.append(_fail('include_cart_lines_kind', 'process_includes_%s' % type(e).__name__))
    # how the name captured from an include line is turned into a str: 0 = str(inc_path_b, encoding='utf-8'),
    # 1 = lua.p8scii_to_unicode(inc_path_b)
    try:
        f = P.find_function(tree, 'process_includes')
        asg = [n for n in P.ordered_nodes(f) if isinstance(n, ast.Assign) and len(n.targets) == 1
               and isinstance(n.targets[0], ast.Name) and n.targets[0].id == 'inc_path']
        shapes = {ast.dump(ast.parse("str(inc_path_b, encoding='utf-8')", mode='eval').body): 0,
                  ast.dump(ast.parse("lua.p8scii_to_unicode(inc_path_b)", mode='eval').body): 1}
        if len(asg) == 1 and ast.dump(asg[0].value) in shapes:
            out.append('Definition include_name_decode_kind : Z := %d.\n' % shapes[ast.dump(asg[0].value)])
        else:
            out.append(_fail('include_name_decode_kind', 'include_name_decode_shape'))
    except Exception as e:  # noqa
        out.append(_fail('include_name_decode_kind', 'process_includes_%s' % type(e).__name__))
    return ''.join(out)


P8 = {'file': 'T_files_p8', 'kernels': [], 'extra': p8_extra}


# ----------------------------------------------------------------------------- build.py
def build_extra(mod, tree, src):
    import py2gallina as P
    out = []
    out.append('Definition default_lua_path : list Z := %s.\n' % _zl(_b(mod.DEFAULT_LUA_PATH)))
    out.append('Definition game_loop_function_names : list (list Z) :=\n  %s.\n' % _zll(mod.GAME_LOOP_FUNCTION_NAMES))
    out.append('Definition require_lua_preamble_package : list (list Z) :=\n  %s.\n' % _zll(mod.REQUIRE_LUA_PREAMBLE_PACKAGE))
    out.append('Definition require_lua_preamble_require : list (list Z) :=\n  %s.\n' % _zll(mod.REQUIRE_LUA_PREAMBLE_REQUIRE))
    import os
    out.append('Definition os_path_sep : list Z := %s.\n' % _zl(_b(os.path.sep)))

    # do_build: the tuple of the section loop and every .endswith() constant, in source order
    try:
        f = P.find_function(tree, 'do_build')
        nodes = P.ordered_nodes(f)
        loops = [n for n in nodes if isinstance(n, ast.For) and isinstance(n.target, ast.Name) and n.target.id == 'section']
        if len(loops) != 1 or not isinstance(loops[0].iter, ast.Tuple):
            out.append(_fail('build_sections', 'section_loop'))
        else:
            out.append('Definition build_sections : list (list Z) :=\n  %s.\n' %
                       _zll([e.value for e in loops[0].iter.elts]))
        ends = [n.args[0].value for n in nodes
                if isinstance(n, ast.Call) and isinstance(n.func, ast.Attribute) and n.func.attr == 'endswith'
                and len(n.args) == 1 and isinstance(n.args[0], ast.Constant)]
        out.append('Definition build_endswith_consts : list (list Z) :=\n  %s.\n' % _zll(ends))
        # getattr(args, 'empty_' + section, False): the prefix constant(s)
        pre = [n.left.value for n in nodes
               if isinstance(n, ast.BinOp) and isinstance(n.op, ast.Add) and isinstance(n.left, ast.Constant)
               and isinstance(n.left.value, str) and isinstance(n.right, ast.Name) and n.right.id == 'section']
        out.append('Definition build_empty_prefixes : list (list Z) :=\n  %s.\n' % _zll(pre))
    except Exception as e:  # noqa
        out.append(_fail('build_sections', 'do_build_%s' % type(e).__name__))

    # _evaluate_require: the test of the `if` that raises the "require() filename cannot ..." error, as a list of
    # atoms joined by `or`:  (0, [], [])  not require_path            (1, c, [])  c in require_path
    #                        (2, c, [])   require_path.startswith(c)  (3, c, d)   c in require_path.split(d)
    # require_filter_contains / require_filter_prefix (the first atom of kind 1 / 2) are kept for older users.
    def _atom(t):
        def isreq(x):
            return isinstance(x, ast.Name) and x.id == 'require_path'

        def isb(x):
            return isinstance(x, ast.Constant) and isinstance(x.value, bytes)
        if isinstance(t, ast.UnaryOp) and isinstance(t.op, ast.Not) and isreq(t.operand):
            return (0, b'', b'')
        if isinstance(t, ast.Compare) and len(t.ops) == 1 and isinstance(t.ops[0], ast.In) and isb(t.left):
            c = t.comparators[0]
            if isreq(c):
                return (1, t.left.value, b'')
            if (isinstance(c, ast.Call) and isinstance(c.func, ast.Attribute) and c.func.attr == 'split'
                    and isreq(c.func.value) and len(c.args) == 1 and not c.keywords and isb(c.args[0])
                    and len(c.args[0].value) == 1):
                return (3, t.left.value, c.args[0].value)
        if (isinstance(t, ast.Call) and isinstance(t.func, ast.Attribute) and t.func.attr == 'startswith'
                and isreq(t.func.value) and len(t.args) == 1 and not t.keywords and isb(t.args[0])):
            return (2, t.args[0].value, b'')
        return None
    try:
        f = P.find_function(tree, '_evaluate_require')
        ifs = [n for n in P.ordered_nodes(f)
               if isinstance(n, ast.If) and n.body and isinstance(n.body[0], ast.Raise) and not n.orelse
               and 'require() filename cannot' in ast.dump(n.body[0])]
        atoms = None
        if len(ifs) == 1:
            t = ifs[0].test
            vals = t.values if isinstance(t, ast.BoolOp) and isinstance(t.op, ast.Or) else [t]
            atoms = [_atom(v) for v in vals]
        if not atoms or any(a is None for a in atoms):
            out.append(_fail('require_filter_atoms', 'require_filter_shape'))
        else:
            rows = ';\n   '.join('(%d, %s, %s)' % (k, _zl(c), _zl(d)) for k, c, d in atoms)
            out.append('Definition require_filter_atoms : list (Z * list Z * list Z) :=\n  [%s].\n' % rows)
            k1 = [c for k, c, d in atoms if k == 1]
            k2 = [c for k, c, d in atoms if k == 2]
            if k1:
                out.append('Definition require_filter_contains : list Z := %s.\n' % _zl(k1[0]))
            if k2:
                out.append('Definition require_filter_prefix : list Z := %s.\n' % _zl(k2[0]))
    except Exception as e:  # noqa
        out.append(_fail('require_filter_atoms', 'evaluate_require_%s' % type(e).__name__))

    # _locate_require_file: split(';') and replace('?', p)
    try:
        f = P.find_function(tree, '_locate_require_file')
        consts = []
        for n in P.ordered_nodes(f):
            if isinstance(n, ast.Call) and isinstance(n.func, ast.Attribute) and n.func.attr in ('split', 'replace') \
                    and n.args and isinstance(n.args[0], ast.Constant):
                consts.append((n.func.attr, n.args[0].value))
        d = dict(consts)
        if sorted(d) != ['replace', 'split'] or len(consts) != 2:
            out.append(_fail('lua_path_separator', 'locate_shape'))
        else:
            out.append('Definition lua_path_separator : list Z := %s.\n' % _zl(_b(d['split'])))
            out.append('Definition lua_path_placeholder : list Z := %s.\n' % _zl(_b(d['replace'])))
    except Exception as e:  # noqa
        out.append(_fail('lua_path_separator', 'locate_%s' % type(e).__name__))
    return ''.join(out)


BUILD = {'file': 'T_files_build', 'kernels': [], 'extra': build_extra}


# ----------------------------------------------------------------------------- file.py (+ tool.py argparse)
def file_extra(mod, tree, src):
    out = []
    out.append('Definition formatters_order : list (list Z) :=\n  %s.\n' % _zll([f.extension for f in mod.FORMATTERS]))
    out.append('Definition formatters_classes : list (list Z) :=\n  %s.\n' % _zll([f.cls.__name__ for f in mod.FORMATTERS]))
    # to_file: mode of the temporary file and of the destination
    import py2gallina as P
    try:
        f = P.find_function(tree, 'to_file')
        modes = [kv for n in P.ordered_nodes(f) if isinstance(n, ast.Dict)
                 for k, kv in zip(n.keys, n.values) if isinstance(k, ast.Constant) and k.value == 'mode']
        out.append('Definition to_file_modes : list (list Z) :=\n  %s.\n' % _zll([m.value for m in modes]))
    except Exception as e:  # noqa
        out.append(_fail('to_file_modes', 'to_file_%s' % type(e).__name__))
    # argparse destinations of `p8tool build`: (dest, 1 = store_true flag / 0 = takes a string)
    try:
        import importlib
        tool = importlib.import_module('pico8.tool')
        ap = tool._get_argparser()
        sub = [a for a in ap._actions if hasattr(a, 'choices') and isinstance(a.choices, dict) and 'build' in a.choices][0]
        acts = [a for a in sub.choices['build']._actions if a.dest != 'help']
        rows = ';\n   '.join('(%s, %d)' % (_zl(_b(a.dest)), 1 if a.nargs == 0 else 0) for a in acts)
        out.append('Definition build_arg_dests : list (list Z * Z) :=\n  [%s].\n' % rows)
        lf = [a for a in ap._actions if hasattr(a, 'choices') and isinstance(a.choices, dict)][0].choices['luafmt']._actions
        rows = ';\n   '.join('(%s, %d)' % (_zl(_b(a.dest)), 1 if a.nargs == 0 else 0) for a in lf if a.dest != 'help')
        out.append('Definition luafmt_arg_dests : list (list Z * Z) :=\n  [%s].\n' % rows)
    except Exception as e:  # noqa
        out.append(_fail('build_arg_dests', 'argparse_%s' % type(e).__name__))
    return ''.join(out)


FILE = {'file': 'T_files_file', 'kernels': [], 'extra': file_extra}

MODULES = [
    ('pico8.game.formatter.p8', 'pico8/game/formatter/p8.py', P8),
    ('pico8.build.build', 'pico8/build/build.py', BUILD),
    ('pico8.game.file', 'pico8/game/file.py', FILE),
]
