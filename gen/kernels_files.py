"""Regenerated constants for the file-level properties C11 C12 C13 C14 C20.

Three generated files, one per source module (a construct that can no longer be located
breaks only the cone that uses it, by emitting an unbound identifier):
  T_files_p8    <- pico8/game/formatter/p8.py   regex sources, PICO8_CART_PATHS
  T_files_build <- pico8/build/build.py         load path, game-loop names, preambles, the section
                                                tuple and extension tests of do_build, the require filter
  T_files_file  <- pico8/game/file.py + tool.py FORMATTERS order, argparse dests of `build`
Everything is a runtime value (import) or an AST constant selected by position; strings are
emitted as UTF-8 byte lists.  The models pin every item with a reflexivity lemma.
"""
import ast


def _zl(bs):
    return '[' + '; '.join(str(int(b)) for b in bs) + ']'


def _b(s):
    return s if isinstance(s, (bytes, bytearray)) else s.encode('utf-8')


def _zll(items):
    return '[' + ';\n   '.join(_zl(_b(x)) for x in items) + ']'


def _fail(name, why):
    return 'Definition %s := untranslatable__%s.\n' % (name, ''.join(c if c.isalnum() else '_' for c in why))


# ----------------------------------------------------------------------------- p8.py
def p8_extra(mod, tree, src):
    out = []
    for name in ('INCLUDE_LINE_RE', 'TAB_LINE_RE', 'HEADER_VERSION_RE', 'SECTION_DELIM_RE'):
        pat = getattr(mod, name, None)
        if pat is None or not isinstance(getattr(pat, 'pattern', None), bytes):
            out.append(_fail('src_' + name.lower(), 'no_bytes_regex_' + name))
            continue
        out.append('Definition src_%s : list Z := %s.\n' % (name.lower(), _zl(pat.pattern)))
        out.append('Definition flags_%s : Z := %d.\n' % (name.lower(), pat.flags))
    out.append('Definition pico8_cart_paths : list (list Z) :=\n  %s.\n' % _zll(mod.PICO8_CART_PATHS))
    out.append('Definition header_title_str : list Z := %s.\n' % _zl(mod.HEADER_TITLE_STR))
    # how the regexes are applied in the two functions we model: .match (anchored at 0, not fullmatch)
    import py2gallina as P
    for fn, rx, dname in (('process_includes', 'INCLUDE_LINE_RE', 'include_re_method'),
                          ('lines_for_tab', 'TAB_LINE_RE', 'tab_re_method')):
        try:
            f = P.find_function(tree, fn)
        except Exception:
            out.append(_fail(dname, 'no_function_' + fn))
            continue
        meths = [n.func.attr for n in P.ordered_nodes(f)
                 if isinstance(n, ast.Call) and isinstance(n.func, ast.Attribute)
                 and isinstance(n.func.value, ast.Name) and n.func.value.id == rx]
        if len(meths) != 1:
            out.append(_fail(dname, 'regex_use_count_%d' % len(meths)))
        else:
            out.append('Definition %s : list Z := %s.\n' % (dname, _zl(_b(meths[0]))))
    return ''.join(out)


P8 = {'file': 'T_files_p8', 'kernels': [], 'extra': p8_extra}


# ----------------------------------------------------------------------------- build.py
def build_extra(mod, tree, src):
    import py2gallina as P
    out = []
    out.append('Definition default_lua_path : list Z := %s.\n' % _zl(_b(mod.DEFAULT_LUA_PATH)))
    out.append('Definition game_loop_function_names : list (list Z) :=\n  %s.\n' % _zll(mod.GAME_LOOP_FUNCTION_NAMES))
    out.append('Definition require_lua_preamble_package : list (list Z) :=\n  %s.\n' % _zll(mod.REQUIRE_LUA_PREAMBLE_PACKAGE))
    out.append('Definition require_lua_preamble_require : list (list Z) :=\n  %s.\n' % _zll(mod.REQUIRE_LUA_PREAMBLE_REQUIRE))
    import os
    out.append('Definition os_path_sep : list Z := %s.\n' % _zl(_b(os.path.sep)))

    # do_build: the tuple of the section loop and every .endswith() constant, in source order
    try:
        f = P.find_function(tree, 'do_build')
        nodes = P.ordered_nodes(f)
        loops = [n for n in nodes if isinstance(n, ast.For) and isinstance(n.target, ast.Name) and n.target.id == 'section']
        if len(loops) != 1 or not isinstance(loops[0].iter, ast.Tuple):
            out.append(_fail('build_sections', 'section_loop'))
        else:
            out.append('Definition build_sections : list (list Z) :=\n  %s.\n' %
                       _zll([e.value for e in loops[0].iter.elts]))
        ends = [n.args[0].value for n in nodes
                if isinstance(n, ast.Call) and isinstance(n.func, ast.Attribute) and n.func.attr == 'endswith'
                and len(n.args) == 1 and isinstance(n.args[0], ast.Constant)]
        out.append('Definition build_endswith_consts : list (list Z) :=\n  %s.\n' % _zll(ends))
        # getattr(args, 'empty_' + section, False): the prefix constant(s)
        pre = [n.left.value for n in nodes
               if isinstance(n, ast.BinOp) and isinstance(n.op, ast.Add) and isinstance(n.left, ast.Constant)
               and isinstance(n.left.value, str) and isinstance(n.right, ast.Name) and n.right.id == 'section']
        out.append('Definition build_empty_prefixes : list (list Z) :=\n  %s.\n' % _zll(pre))
    except Exception as e:  # noqa
        out.append(_fail('build_sections', 'do_build_%s' % type(e).__name__))

    # _evaluate_require: `if b'./' in require_path or require_path.startswith(b'/')`
    try:
        f = P.find_function(tree, '_evaluate_require')
        found = None
        for n in P.ordered_nodes(f):
            if isinstance(n, ast.If) and isinstance(n.test, ast.BoolOp) and isinstance(n.test.op, ast.Or) \
                    and len(n.test.values) == 2:
                a, b = n.test.values
                if (isinstance(a, ast.Compare) and len(a.ops) == 1 and isinstance(a.ops[0], ast.In)
                        and isinstance(a.left, ast.Constant) and isinstance(a.left.value, bytes)
                        and isinstance(a.comparators[0], ast.Name) and a.comparators[0].id == 'require_path'
                        and isinstance(b, ast.Call) and isinstance(b.func, ast.Attribute)
                        and b.func.attr == 'startswith' and isinstance(b.func.value, ast.Name)
                        and b.func.value.id == 'require_path' and len(b.args) == 1
                        and isinstance(b.args[0], ast.Constant) and isinstance(b.args[0].value, bytes)
                        and isinstance(n.body[0], ast.Raise)):
                    found = (a.left.value, b.args[0].value)
                    break
        if found is None:
            out.append(_fail('require_filter_contains', 'require_filter_shape'))
        else:
            out.append('Definition require_filter_contains : list Z := %s.\n' % _zl(found[0]))
            out.append('Definition require_filter_prefix : list Z := %s.\n' % _zl(found[1]))
    except Exception as e:  # noqa
        out.append(_fail('require_filter_contains', 'evaluate_require_%s' % type(e).__name__))

    # _locate_require_file: split(';') and replace('?', p)
    try:
        f = P.find_function(tree, '_locate_require_file')
        consts = []
        for n in P.ordered_nodes(f):
            if isinstance(n, ast.Call) and isinstance(n.func, ast.Attribute) and n.func.attr in ('split', 'replace') \
                    and n.args and isinstance(n.args[0], ast.Constant):
                consts.append((n.func.attr, n.args[0].value))
        d = dict(consts)
        if sorted(d) != ['replace', 'split'] or len(consts) != 2:
            out.append(_fail('lua_path_separator', 'locate_shape'))
        else:
            out.append('Definition lua_path_separator : list Z := %s.\n' % _zl(_b(d['split'])))
            out.append('Definition lua_path_placeholder : list Z := %s.\n' % _zl(_b(d['replace'])))
    except Exception as e:  # noqa
        out.append(_fail('lua_path_separator', 'locate_%s' % type(e).__name__))
    return ''.join(out)


BUILD = {'file': 'T_files_build', 'kernels': [], 'extra': build_extra}


# ----------------------------------------------------------------------------- file.py (+ tool.py argparse)
def file_extra(mod, tree, src):
    out = []
    out.append('Definition formatters_order : list (list Z) :=\n  %s.\n' % _zll([f.extension for f in mod.FORMATTERS]))
    out.append('Definition formatters_classes : list (list Z) :=\n  %s.\n' % _zll([f.cls.__name__ for f in mod.FORMATTERS]))
    # to_file: mode of the temporary file and of the destination
    import py2gallina as P
    try:
        f = P.find_function(tree, 'to_file')
        modes = [kv for n in P.ordered_nodes(f) if isinstance(n, ast.Dict)
                 for k, kv in zip(n.keys, n.values) if isinstance(k, ast.Constant) and k.value == 'mode']
        out.append('Definition to_file_modes : list (list Z) :=\n  %s.\n' % _zll([m.value for m in modes]))
    except Exception as e:  # noqa
        out.append(_fail('to_file_modes', 'to_file_%s' % type(e).__name__))
    # argparse destinations of `p8tool build`: (dest, 1 = store_true flag / 0 = takes a string)
    try:
        import importlib
        tool = importlib.import_module('pico8.tool')
        ap = tool._get_argparser()
        sub = [a for a in ap._actions if hasattr(a, 'choices') and isinstance(a.choices, dict) and 'build' in a.choices][0]
        acts = [a for a in sub.choices['build']._actions if a.dest != 'help']
        rows = ';\n   '.join('(%s, %d)' % (_zl(_b(a.dest)), 1 if a.nargs == 0 else 0) for a in acts)
        out.append('Definition build_arg_dests : list (list Z * Z) :=\n  [%s].\n' % rows)
        lf = [a for a in ap._actions if hasattr(a, 'choices') and isinstance(a.choices, dict)][0].choices['luafmt']._actions
        rows = ';\n   '.join('(%s, %d)' % (_zl(_b(a.dest)), 1 if a.nargs == 0 else 0) for a in lf if a.dest != 'help')
        out.append('Definition luafmt_arg_dests : list (list Z * Z) :=\n  [%s].\n' % rows)
    except Exception as e:  # noqa
        out.append(_fail('build_arg_dests', 'argparse_%s' % type(e).__name__))
    return ''.join(out)


FILE = {'file': 'T_files_file', 'kernels': [], 'extra': file_extra}

MODULES = [
    ('pico8.game.formatter.p8', 'pico8/game/formatter/p8.py', P8),
    ('pico8.build.build', 'pico8/build/build.py', BUILD),
    ('pico8.game.file', 'pico8/game/file.py', FILE),
]
