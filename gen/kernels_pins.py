"""Source pins of the hand-modelled control flow of the Lua text stack (C06 C07 C08 C09 C10 C14).

The parser (pico8/lua/parser.py), the lexer driver (pico8/lua/lexer.py) and the AST writers' tree walk
(pico8/lua/lua.py LuaASTEchoWriter / LuaFormatterWriter / BaseASTWalker) are modelled by hand
(Model/Parser.v, Model/Lexer.v, Model/AstWriter.v); the theorems are about those models and the
correspondence check runs them against the real code on generated inputs.  An edit of one of these functions
that no generated input happens to exercise would otherwise drift silently.  So every function / method of
the modelled classes is pinned: this module emits, per function,

    Definition pin__<Class>__<method> : list Z := <first 8 bytes of sha256(ast.unparse(function, docstring dropped))>.

and the committed files Proofs/ParserPins.v, Proofs/LexerPins.v, Proofs/AstWriterPins.v hold one reflexivity
lemma per definition (written by `gen/mkpins.py`, a developer step run when the model has been revisited).
An edited function => its lemma no longer checks => broken obligation `pin:<Class>.<method>` => the search of
DESIGN section 5 looks for a failing input; a function added to or removed from a pinned class changes the
`pin_names__<file>` list, which is pinned too.  Comments, blank lines and docstrings do not take part.

T_pins_parser      pico8/lua/parser.py   classes Parser, TokenBuffer-like helpers, Node, module functions
T_pins_lexer       pico8/lua/lexer.py    classes Lexer, Token and its subclasses
T_pins_luawriter   pico8/lua/lua.py      classes BaseASTWalker, BaseLuaWriter, LuaEchoWriter, LuaASTEchoWriter,
                                         LuaFormatterWriter, Lua
"""
import ast
import hashlib


def _zl(bs):
    return '[' + '; '.join(str(int(b)) for b in bs) + ']'


def _strip_doc(fn):
    fn = ast.parse(ast.unparse(fn)).body[0]
    for n in ast.walk(fn):
        if isinstance(n, (ast.FunctionDef, ast.ClassDef)) and n.body and isinstance(n.body[0], ast.Expr) and \
                isinstance(n.body[0].value, ast.Constant) and isinstance(n.body[0].value.value, str):
            n.body = n.body[1:] or [ast.Pass()]
    return fn


def digest(fn):
    return hashlib.sha256(ast.unparse(_strip_doc(fn)).encode()).digest()[:8]


# not behaviour any property speaks about: printable representations, and the token-group bookkeeping behind
# Node.tokens (used by no writer, no tool command and no property)
SKIP_METHODS = {'__repr__', '__str__'}
SKIP = {('Node', '_add_token_group'), ('Node', 'store_token_groups'), ('Node', 'tokens')}


def functions(tree, classes, module_functions=True):
    """-> [(pin name, FunctionDef)] in source order"""
    out = []
    for n in tree.body:
        if isinstance(n, ast.FunctionDef) and module_functions:
            out.append(('pin__mod__%s' % n.name, n))
        elif isinstance(n, ast.ClassDef) and (classes is None or n.name in classes):
            for m in n.body:
                if isinstance(m, ast.FunctionDef) and m.name not in SKIP_METHODS and (n.name, m.name) not in SKIP:
                    name = 'pin__%s__%s' % (n.name, m.name)
                    k = 2
                    while any(name == x for x, _ in out):     # property setters etc. share a name
                        name = 'pin__%s__%s_%d' % (n.name, m.name, k)
                        k += 1
                    out.append((name, m))
    return out


def make_extra(fileid, classes, module_functions=True):
    def extra(mod, tree, src):
        fs = functions(tree, classes, module_functions)
        out = ['(* sha256[:8] of ast.unparse of each pinned function, docstrings dropped (see gen/kernels_pins.py) *)\n']
        for name, fn in fs:
            out.append('Definition %s : list Z := %s.\n' % (name, _zl(digest(fn))))
        names = '; '.join(_zl(name.encode()) for name, _ in fs)
        out.append('\n(* the pinned functions, in source order *)\nDefinition pin_names__%s : list (list Z) :=\n  [%s].\n' % (fileid, names))
        return ''.join(out)
    return extra


PARSER_CLASSES = None        # every class of parser.py (Node, the generated node classes' factory, Parser, ParserError)
LEXER_CLASSES = None         # every class of lexer.py
LUA_CLASSES = {'BaseASTWalker', 'BaseLuaWriter', 'LuaEchoWriter', 'LuaASTEchoWriter', 'LuaFormatterWriter', 'Lua'}

MODULES = [
    ('pico8.lua.parser', 'pico8/lua/parser.py', {'file': 'T_pins_parser', 'kernels': [],
                                                  'extra': make_extra('parser', PARSER_CLASSES)}),
    ('pico8.lua.lexer', 'pico8/lua/lexer.py', {'file': 'T_pins_lexer', 'kernels': [],
                                                'extra': make_extra('lexer', LEXER_CLASSES)}),
    ('pico8.lua.lua', 'pico8/lua/lua.py', {'file': 'T_pins_luawriter', 'kernels': [],
                                            'extra': make_extra('luawriter', LUA_CLASSES, module_functions=False)}),
]
