"""Source pins of the hand-modelled control flow of the Lua text stack (C06 C07 C08 C09 C10 C14).

The parser (pico8/lua/parser.py), the lexer driver (pico8/lua/lexer.py) and the AST writers' tree walk
(pico8/lua/lua.py LuaASTEchoWriter / LuaFormatterWriter / BaseASTWalker) are modelled by hand
(Model/Parser.v, Model/Lexer.v, Model/AstWriter.v); the theorems are about those models and the
correspondence check runs them against the real code on generated inputs.  An edit of one of these functions
that no generated input happens to exercise would otherwise drift silently.  So every function / method of
the modelled classes is pinned: this module emits, per function,

    Definition pin__<Class>__<method> : list Z := <first 8 bytes of sha256(ast.unparse(function, docstring dropped))>.

and the committed files Proofs/ParserPins.v, Proofs/LexerPins.v, Proofs/AstWriterPins.v hold one reflexivity
lemma per definition (written by `gen/mkpins.py`, a developer step run when the model has been revisited).
An edited function => its lemma no longer checks => broken obligation `pin:<Class>.<method>` => the search of
DESIGN section 5 looks for a failing input; a function added to or removed from a pinned class changes the
`pin_names__<file>` list, which is pinned too.  Comments, blank lines and docstrings do not take part.

T_pins_parser      pico8/lua/parser.py   classes Parser, TokenBuffer-like helpers, Node, module functions
T_pins_lexer       pico8/lua/lexer.py    classes Lexer, Token and its subclasses
T_pins_luawriter   pico8/lua/lua.py      classes BaseASTWalker, BaseLuaWriter, LuaEchoWriter, LuaASTEchoWriter,
                                         LuaFormatterWriter, Lua
"""
import ast
import hashlib


def _zl(bs):
    return '[' + '; '.join(str(int(b)) for b in bs) + ']'


def _strip_doc(fn):
    fn = ast.parse(ast.unparse(fn)).body[0]
    for n in ast.walk(fn):
        if isinstance(n, (ast.FunctionDef, ast.ClassDef)) and n.body and isinstance(n.body[0], ast.Expr) and \
                isinstance(n.body[0].value, ast.Constant) and isinstance(n.body[0].value.value, str):
            n.body = n.body[1:] or [ast.Pass()]
    return fn


def digest(fn):
    return hashlib.sha256(ast.unparse(_strip_doc(fn)).encode()).digest()[:8]


# not behaviour any property speaks about: printable representations, and the token-group bookkeeping behind
# Node.tokens (used by no writer, no tool command and no property)
SKIP_METHODS = {'__repr__', '__str__'}
SKIP = {('Node', '_add_token_group'), ('Node', 'store_token_groups'), ('Node', 'tokens')}


def functions(tree, classes, module_functions=True):
    """-> [(pin name, FunctionDef)] in source order"""
    out = []
    for n in tree.body:
        if isinstance(n, ast.FunctionDef) and module_functions:
            out.append(('pin__mod__%s' % n.name, n))
        elif isinstance(n, ast.ClassDef) and (classes is None or n.name in classes):
            for m in n.body:
                if isinstance(m, ast.FunctionDef) and m.name not in SKIP_METHODS and (n.name, m.name) not in SKIP:
                    name = 'pin__%s__%s' % (n.name, m.name)
                    k = 2
                    while any(name == x for x, _ in out):     # property setters etc. share a name
                        name = 'pin__%s__%s_%d' % (n.name, m.name, k)
                        k += 1
                    out.append((name, m))
    return out


def make_extra(fileid, classes, module_functions=True):
    def extra(mod, tree, src):
        fs = functions(tree, classes, module_functions)
        out = ['(* sha256[:8] of ast.unparse of each pinned function, docstrings dropped (see gen/kernels_pins.py) *)\n']
        for name, fn in fs:
            out.append('Definition %s : list Z := %s.\n' % (name, _zl(digest(fn))))
        names = '; '.join(_zl(name.encode()) for name, _ in fs)
        out.append('\n(* the pinned functions, in source order *)\nDefinition pin_names__%s : list (list Z) :=\n  [%s].\n' % (fileid, names))
        return ''.join(out)
    return extra


PARSER_CLASSES = None        # every class of parser.py (Node, the generated node classes' factory, Parser, ParserError)
LEXER_CLASSES = None         # every class of lexer.py
LUA_CLASSES = {'BaseASTWalker', 'BaseLuaWriter', 'LuaEchoWriter', 'LuaASTEchoWriter', 'LuaFormatterWriter', 'Lua'}
# the rest of lua.py: the token-stream writers (luamin, the token-level formatter, --pure-lua), the name factory and
# the module functions (P8SCII conversion, title / byline lookup)
LUAMIN_CLASSES = {'LuaMinifyTokenWriter', 'LuaMinifyWriter', 'MinifyNameFactory', 'LuaFormatterTokenWriter',
                  'PureLuaWriter', 'LuaTokenEchoWriter'}

# (file id, module, source, classes (None = all), pin module functions?, lemma file, what the functions are modelled by)
PINS = [
    ('parser', 'pico8.lua.parser', 'pico8/lua/parser.py', PARSER_CLASSES, True, 'ParserPins',
     'the parser (Model/Parser.v)'),
    ('lexer', 'pico8.lua.lexer', 'pico8/lua/lexer.py', LEXER_CLASSES, True, 'LexerPins',
     'the lexer (Model/Lexer.v)'),
    ('luawriter', 'pico8.lua.lua', 'pico8/lua/lua.py', LUA_CLASSES, False, 'AstWriterPins',
     "the Lua container and the AST writers' walk (Model/AstWriter.v, Model/EchoWriter.v)"),
    # added 2026-10-02 (round s8): the modules whose control flow is modelled by hand outside the Lua text stack
    ('luamin', 'pico8.lua.lua', 'pico8/lua/lua.py', LUAMIN_CLASSES, True, 'LuaMinPins',
     'the token-stream writers, the name factory and the module functions of lua.py (Model/Minifier.v, Model/Names.v, Model/P8scii.v, Model/Header.v)'),
    ('luacontainer', 'pico8.lua.lua', 'pico8/lua/lua.py', {'Lua'}, False, 'LuaContainerPins',
     'the Lua container alone (token and character counts, title / byline, from_lines / to_lines wiring) for the properties that do not stand on the AST writers'),
    ('walker', 'pico8.lua.lua', 'pico8/lua/lua.py', {'BaseASTWalker'}, False, 'WalkerPins',
     'the generic tree walk alone (what build\'s RequireWalker inherits), for the properties that do not stand on the AST writers'),
    ('build', 'pico8.build.build', 'pico8/build/build.py', None, True, 'BuildPins',
     'p8tool build: region selection, require() evaluation, package embedding (Model/Build*.v, Model/Req*.v, Model/LoadPath.v)'),
    ('p8', 'pico8.game.formatter.p8', 'pico8/game/formatter/p8.py', None, True, 'P8Pins',
     'the .p8 reader / writer and #include (Model/P8File.v, Model/Include.v)'),
    ('p8png', 'pico8.game.formatter.p8png', 'pico8/game/formatter/p8png.py', None, True, 'P8PngPins',
     'the .p8.png reader / writer (Model/P8Png.v)'),
    ('compress', 'pico8.game.compress', 'pico8/game/compress.py', None, True, 'CompressPins',
     'code compression (Model/Compress.v)'),
    ('file', 'pico8.game.file', 'pico8/game/file.py', None, True, 'FilePins',
     'file.from_file / to_file: the write protocol (Model/WriteProtocol.v)'),
    ('game', 'pico8.game.game', 'pico8/game/game.py', None, True, 'GamePins',
     'the cart object: raw memory writes, empty carts (Model/CartMem.v)'),
    ('gfx', 'pico8.gfx.gfx', 'pico8/gfx/gfx.py', None, True, 'GfxPins', 'the sprite sheet section (Model/Sections.v, Model/Accessors.v)'),
    ('map', 'pico8.map.map', 'pico8/map/map.py', None, True, 'MapPins', 'the map section (Model/Sections.v, Model/Accessors.v)'),
    ('gff', 'pico8.gff.gff', 'pico8/gff/gff.py', None, True, 'GffPins', 'the sprite flags section'),
    ('sfx', 'pico8.sfx.sfx', 'pico8/sfx/sfx.py', None, True, 'SfxPins', 'the sound effects section'),
    ('music', 'pico8.music.music', 'pico8/music/music.py', None, True, 'MusicPins', 'the music section'),
    ('util', 'pico8.util', 'pico8/util.py', None, True, 'UtilPins', 'BaseSection (from_bytes / to_bytes / empty) and the message helpers'),
    ('fmtbase', 'pico8.game.formatter.base', 'pico8/game/formatter/base.py', None, True, 'FmtBasePins', 'the formatter base class'),
    ('tool', 'pico8.tool', 'pico8/tool.py', None, True, 'ToolPins', 'the command line wiring'),
]

MODULES = [(mod, rel, {'file': 'T_pins_' + fid, 'kernels': [], 'extra': make_extra(fid, classes, mf)})
           for fid, mod, rel, classes, mf, _lemmas, _what in PINS]
