"""Regenerated constants of the package embedding (property C14), from pico8/build/build.py.

One generated file, T_require (the preambles, DEFAULT_LUA_PATH, GAME_LOOP_FUNCTION_NAMES and the
require-string filter are already in T_files_build, gen/kernels_files.py):
  _prepend_package_lua : the two literals around the escaped package name, the ordered
                         (old, new) pairs of the .replace() chain that escapes it, the literals
                         appended after a package body (newline guard, closing end)
  RequireWalker._walk_FunctionCall : the two TokName literals (function name, option name) and the
                         integer literals of the argument-count tests, in source order
  _evaluate_require    : the token classes skipped in front of a game loop function, the literal
                         of the token put in its place, the node class whose statements are removed
Everything is an AST constant selected by position/shape; a shape that is no longer found emits an
unbound identifier, so the cone of C14 stops compiling (fail-closed).
"""
import ast


def _zl(bs):
    return '[' + '; '.join(str(int(b)) for b in bs) + ']'


def _b(s):
    return s if isinstance(s, (bytes, bytearray)) else s.encode('utf-8')


def _zll(items):
    return '[' + ';\n   '.join(_zl(_b(x)) for x in items) + ']'


def _fail(name, why):
    return 'Definition %s := untranslatable__%s.\n' % (name, ''.join(c if c.isalnum() else '_' for c in why))


def _isbytes(n):
    return isinstance(n, ast.Constant) and isinstance(n.value, bytes)


def require_extra(mod, tree, src):
    import py2gallina as P
    out = []

    # ---- _prepend_package_lua
    try:
        f = P.find_function(tree, '_prepend_package_lua')
        nodes = P.ordered_nodes(f)
        # b'package._c["' + escaped_pth + b'"]=function()\n'
        hdr = [n for n in nodes if isinstance(n, ast.BinOp) and isinstance(n.op, ast.Add)
               and isinstance(n.left, ast.BinOp) and isinstance(n.left.op, ast.Add)
               and _isbytes(n.left.left) and isinstance(n.left.right, ast.Name)
               and n.left.right.id == 'escaped_pth' and _isbytes(n.right)]
        if len(hdr) != 1:
            out.append(_fail('pkg_header_prefix', 'header_shape_%d' % len(hdr)))
        else:
            out.append('Definition pkg_header_prefix : list Z := %s.\n' % _zl(hdr[0].left.left.value))
            out.append('Definition pkg_header_suffix : list Z := %s.\n' % _zl(hdr[0].right.value))
        # escaped_pth = pth.replace(a, b).replace(c, d)...
        asg = [n for n in nodes if isinstance(n, ast.Assign) and len(n.targets) == 1
               and isinstance(n.targets[0], ast.Name) and n.targets[0].id == 'escaped_pth']
        pairs = None
        if len(asg) == 1:
            pairs = []
            v = asg[0].value
            while (isinstance(v, ast.Call) and isinstance(v.func, ast.Attribute) and v.func.attr == 'replace'
                   and len(v.args) == 2 and _isbytes(v.args[0]) and _isbytes(v.args[1]) and not v.keywords):
                pairs.insert(0, (v.args[0].value, v.args[1].value))
                v = v.func.value
            if not (isinstance(v, ast.Name) and v.id == 'pth'):
                pairs = None
        if pairs is None:
            out.append(_fail('pkg_escape_pairs', 'escape_chain_shape'))
        else:
            out.append('Definition pkg_escape_pairs : list (list Z * list Z) :=\n  [%s].\n' %
                       '; '.join('(%s, %s)' % (_zl(a), _zl(b)) for a, b in pairs))
        # package_header.append(<bytes literal>) in source order: the newline guard, then the closing end
        apps = [n.args[0].value for n in nodes
                if isinstance(n, ast.Call) and isinstance(n.func, ast.Attribute) and n.func.attr == 'append'
                and isinstance(n.func.value, ast.Name) and n.func.value.id == 'package_header'
                and len(n.args) == 1 and _isbytes(n.args[0])]
        out.append('Definition pkg_appended_literals : list (list Z) :=\n  %s.\n' % _zll(apps))
        # the guard: `if not package_header[-1].endswith(<literal>)`
        guards = [n.args[0].value for n in nodes
                  if isinstance(n, ast.Call) and isinstance(n.func, ast.Attribute) and n.func.attr == 'endswith'
                  and len(n.args) == 1 and _isbytes(n.args[0])]
        out.append('Definition pkg_newline_guard : list (list Z) :=\n  %s.\n' % _zll(guards))
    except Exception as e:  # noqa
        out.append(_fail('pkg_header_prefix', 'prepend_%s' % type(e).__name__))

    # ---- RequireWalker._walk_FunctionCall
    try:
        f = P.find_function(tree, 'RequireWalker._walk_FunctionCall')
        nodes = P.ordered_nodes(f)
        toknames = [n.args[0].value for n in nodes
                    if isinstance(n, ast.Call) and isinstance(n.func, ast.Attribute) and n.func.attr == 'TokName'
                    and len(n.args) == 1 and _isbytes(n.args[0])]
        out.append('Definition walker_tokname_literals : list (list Z) :=\n  %s.\n' % _zll(toknames))
        # integer literals compared with len(...), in source order, with the comparison operator
        ops = {ast.Lt: 0, ast.Gt: 1, ast.Eq: 2, ast.NotEq: 3, ast.LtE: 4, ast.GtE: 5}
        cmps = []
        for n in nodes:
            if (isinstance(n, ast.Compare) and len(n.ops) == 1 and isinstance(n.left, ast.Call)
                    and isinstance(n.left.func, ast.Name) and n.left.func.id == 'len'
                    and isinstance(n.comparators[0], ast.Constant) and isinstance(n.comparators[0].value, int)):
                cmps.append((ops.get(type(n.ops[0]), 9), n.comparators[0].value))
        out.append('Definition walker_len_tests : list (Z * Z) :=\n  [%s].\n' %
                   '; '.join('(%d, %d)' % c for c in cmps))
    except Exception as e:  # noqa
        out.append(_fail('walker_tokname_literals', 'walker_%s' % type(e).__name__))

    # ---- _evaluate_require: the strip block
    try:
        f = P.find_function(tree, '_evaluate_require')
        nodes = P.ordered_nodes(f)
        # isinstance(tokens[start], (lexer.TokSpace, lexer.TokNewline, lexer.TokComment))
        skipped = None
        for n in nodes:
            if (isinstance(n, ast.While) and isinstance(n.test, ast.Call) and isinstance(n.test.func, ast.Name)
                    and n.test.func.id == 'isinstance' and len(n.test.args) == 2
                    and isinstance(n.test.args[1], ast.Tuple)):
                skipped = [e.attr for e in n.test.args[1].elts if isinstance(e, ast.Attribute)]
        if skipped is None:
            out.append(_fail('strip_skipped_classes', 'skip_loop_shape'))
        else:
            out.append('Definition strip_skipped_classes : list (list Z) :=\n  %s.\n' % _zll(skipped))
        # tokens[start:s.end_pos] = [lexer.TokSpace(b' ')]
        repl = [(n.value.elts[0].func.attr, n.value.elts[0].args[0].value) for n in nodes
                if isinstance(n, ast.Assign) and len(n.targets) == 1 and isinstance(n.targets[0], ast.Subscript)
                and isinstance(n.targets[0].slice, ast.Slice) and isinstance(n.value, ast.List)
                and len(n.value.elts) == 1 and isinstance(n.value.elts[0], ast.Call)
                and isinstance(n.value.elts[0].func, ast.Attribute) and len(n.value.elts[0].args) == 1
                and _isbytes(n.value.elts[0].args[0])]
        if len(repl) != 1:
            out.append(_fail('strip_replacement_class', 'replacement_shape_%d' % len(repl)))
        else:
            out.append('Definition strip_replacement_class : list Z := %s.\n' % _zl(_b(repl[0][0])))
            out.append('Definition strip_replacement_data : list Z := %s.\n' % _zl(repl[0][1]))
        # isinstance(s, parser.StatFunction)
        cls = [n.args[1].attr for n in nodes
               if isinstance(n, ast.Call) and isinstance(n.func, ast.Name) and n.func.id == 'isinstance'
               and len(n.args) == 2 and isinstance(n.args[0], ast.Name) and n.args[0].id == 's'
               and isinstance(n.args[1], ast.Attribute)]
        out.append('Definition strip_statement_classes : list (list Z) :=\n  %s.\n' % _zll(cls))
    except Exception as e:  # noqa
        out.append(_fail('strip_skipped_classes', 'strip_%s' % type(e).__name__))
    return ''.join(out)


REQUIRE = {'file': 'T_require', 'kernels': [], 'extra': require_extra}

MODULES = [
    ('pico8.build.build', 'pico8/build/build.py', REQUIRE),
]
