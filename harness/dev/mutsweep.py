#!/usr/bin/env python3
"""Developer tool (not a registered check): generic mutation sweep over /repo's sources.

Purpose: find code whose behaviour no check is tied to.  Small syntactic mutants of pico8/*.py are made in a
private copy of the repository; a mutant that the pinned test suite still accepts is handed to the quick checks
of the properties anchored in that file (PICOTOOL_REPO=<copy>, run from a private copy of /verif so that /verif
and /repo stay untouched).  A mutant no check turns red is a *survivor*: either an equivalent mutant (no
behaviour a property speaks about changed) or a hole in the generators / the model - to be triaged by hand.

  mutsweep.py plan  <plan.json> [--n 200] [--seed 1] [--files a.py,b.py]
  mutsweep.py run   <plan.json> <results.jsonl> --via <copy of /verif> --lane k/n [--scratch /tmp/mut/lane0]
  mutsweep.py show  <results.jsonl> ...

Nothing here is evidence; survivors are listed in notes/mutation_sweep.md after triage.
"""
import ast
import copy
import json
import os
import random
import shutil
import subprocess
import sys

REPO = '/repo'
PY = '/venv/bin/python'

FILE_CHECKS = {
    'pico8/lua/lexer.py': ['C07', 'C06', 'C01', 'C03'],
    'pico8/lua/parser.py': ['C08', 'C09', 'C10', 'C14'],
    'pico8/lua/lua.py': ['C01', 'C02', 'C06', 'C09', 'C10', 'C15', 'C19', 'C03', 'C14'],
    'pico8/game/compress.py': ['C05', 'C04'],
    'pico8/game/formatter/p8.py': ['C03', 'C16', 'C20', 'C12', 'C13'],
    'pico8/game/formatter/p8png.py': ['C04', 'C16', 'C05'],
    'pico8/game/formatter/base.py': ['C03', 'C04', 'C11'],
    'pico8/game/game.py': ['C18', 'C17', 'C13', 'C04', 'C03'],
    'pico8/game/file.py': ['C11', 'C13', 'C03'],
    'pico8/build/build.py': ['C12', 'C13', 'C14', 'C02'],
    'pico8/gfx/gfx.py': ['C16', 'C17', 'C03'],
    'pico8/gff/gff.py': ['C16', 'C17', 'C03'],
    'pico8/map/map.py': ['C16', 'C17', 'C03'],
    'pico8/sfx/sfx.py': ['C16', 'C17', 'C03'],
    'pico8/music/music.py': ['C16', 'C17', 'C03'],
    'pico8/util.py': ['C16', 'C17', 'C03'],
    'pico8/tool.py': ['C09', 'C01', 'C11', 'C13', 'C02'],
}

CMP = {ast.Lt: ast.LtE, ast.LtE: ast.Lt, ast.Gt: ast.GtE, ast.GtE: ast.Gt, ast.Eq: ast.NotEq, ast.NotEq: ast.Eq,
       ast.In: ast.NotIn, ast.NotIn: ast.In, ast.Is: ast.IsNot, ast.IsNot: ast.Is}
BIN = {ast.Add: ast.Sub, ast.Sub: ast.Add, ast.Mult: ast.FloorDiv, ast.FloorDiv: ast.Mult, ast.LShift: ast.RShift,
       ast.RShift: ast.LShift, ast.BitAnd: ast.BitOr, ast.BitOr: ast.BitAnd, ast.Mod: ast.FloorDiv}


def sites(tree):
    """-> list of (kind, node index in ast.walk order, variant, lineno)"""
    out = []
    doc = set()
    for n in ast.walk(tree):
        if isinstance(n, (ast.FunctionDef, ast.ClassDef, ast.Module)) and n.body and isinstance(n.body[0], ast.Expr) \
                and isinstance(n.body[0].value, ast.Constant) and isinstance(n.body[0].value.value, str):
            doc.add(id(n.body[0].value))
    infunc = set()
    for f in ast.walk(tree):
        if isinstance(f, ast.FunctionDef):
            for n in ast.walk(f):
                infunc.add(id(n))
    for i, n in enumerate(ast.walk(tree)):
        if id(n) not in infunc:
            continue
        ln = getattr(n, 'lineno', 0)
        if isinstance(n, ast.Compare) and len(n.ops) == 1 and type(n.ops[0]) in CMP:
            out.append(('cmp', i, 0, ln))
        elif isinstance(n, ast.BinOp) and type(n.op) in BIN:
            if isinstance(n.op, ast.Mod) and isinstance(n.left, ast.Constant) and isinstance(n.left.value, (str, bytes)):
                continue
            out.append(('bin', i, 0, ln))
        elif isinstance(n, ast.BoolOp):
            out.append(('bool', i, 0, ln))
        elif isinstance(n, ast.UnaryOp) and isinstance(n.op, ast.Not):
            out.append(('not', i, 0, ln))
        elif isinstance(n, ast.Constant) and type(n.value) is int and id(n) not in doc:
            out.append(('int', i, +1, ln))
            out.append(('int', i, -1, ln))
        elif isinstance(n, ast.If):
            out.append(('iff', i, 0, ln))
            out.append(('ift', i, 0, ln))
        elif isinstance(n, ast.Expr) and isinstance(n.value, ast.Call) and id(n.value) not in doc:
            out.append(('delcall', i, 0, ln))
        elif isinstance(n, (ast.Assign, ast.AugAssign)):
            out.append(('delasg', i, 0, ln))
        elif isinstance(n, (ast.Break, ast.Continue)):
            out.append(('delbrk', i, 0, ln))
    return out


def apply(tree, site):
    kind, idx, var, _ = site
    tree = copy.deepcopy(tree)
    nodes = list(ast.walk(tree))
    n = nodes[idx]
    if kind == 'cmp':
        n.ops = [CMP[type(n.ops[0])]()]
    elif kind == 'bin':
        n.op = BIN[type(n.op)]()
    elif kind == 'bool':
        n.op = ast.Or() if isinstance(n.op, ast.And) else ast.And()
    elif kind == 'not':
        n.op = ast.UAdd()   # placeholder, replaced below
        # replace `not x` by `bool(x)`: keep it an expression of the same type
        new = ast.Call(func=ast.Name(id='bool', ctx=ast.Load()), args=[n.operand], keywords=[])
        for p in nodes:
            for f, v in ast.iter_fields(p):
                if v is n:
                    setattr(p, f, new)
                elif isinstance(v, list):
                    for k, x in enumerate(v):
                        if x is n:
                            v[k] = new
    elif kind == 'int':
        n.value = n.value + var
    elif kind == 'iff':
        n.test = ast.BoolOp(op=ast.And(), values=[ast.Constant(value=False), n.test])
    elif kind == 'ift':
        n.test = ast.BoolOp(op=ast.Or(), values=[ast.Constant(value=True), n.test])
    elif kind in ('delcall', 'delasg', 'delbrk'):
        new = ast.Pass()
        for p in nodes:
            for f, v in ast.iter_fields(p):
                if isinstance(v, list):
                    for k, x in enumerate(v):
                        if x is n:
                            v[k] = new
    ast.fix_missing_locations(tree)
    return tree


def plan(path, n, seed, files):
    rng = random.Random(seed)
    allm = []
    for rel in sorted(FILE_CHECKS):
        if files and rel not in files:
            continue
        src = open(os.path.join(REPO, rel)).read()
        tree = ast.parse(src)
        for s in sites(tree):
            allm.append({'file': rel, 'site': list(s)})
    rng.shuffle(allm)
    # stratify: at most n, round-robin over files
    byf = {}
    for m in allm:
        byf.setdefault(m['file'], []).append(m)
    out = []
    while len(out) < n and any(byf.values()):
        for f in sorted(byf):
            if byf[f] and len(out) < n:
                out.append(byf[f].pop())
    for k, m in enumerate(out):
        m['id'] = k
    json.dump({'seed': seed, 'total_sites': len(allm), 'mutants': out}, open(path, 'w'), indent=0)
    print('planned %d mutants out of %d sites' % (len(out), len(allm)))


def sh(cmd, cwd=None, env=None, timeout=3600):
    try:
        p = subprocess.run(cmd, cwd=cwd, env=env, capture_output=True, text=True, timeout=timeout)
        return p.returncode, p.stdout + p.stderr
    except subprocess.TimeoutExpired:
        return 124, 'timeout'


def run(planf, resf, via, lane, scratch):
    k, n = [int(x) for x in lane.split('/')]
    pl = json.load(open(planf))
    done = set()
    if os.path.exists(resf):
        for l in open(resf):
            done.add(json.loads(l)['id'])
    repo = os.path.join(scratch, 'repo')
    for m in pl['mutants']:
        if m['id'] % n != k or m['id'] in done:
            continue
        shutil.rmtree(repo, ignore_errors=True)
        os.makedirs(scratch, exist_ok=True)
        sh(['git', 'clone', '-q', '--depth', '1', 'file://' + REPO, repo])
        fp = os.path.join(repo, m['file'])
        src = open(fp).read()
        tree = ast.parse(src)
        try:
            mt = apply(tree, tuple(m['site']))
            new = ast.unparse(mt)
            base = ast.unparse(tree)
        except Exception as e:
            rec = dict(m, status='apply-error', err=repr(e))
            open(resf, 'a').write(json.dumps(rec) + '\n')
            continue
        # the diff is taken against the unparsed original so that it shows only the mutation
        open(fp, 'w').write(base + '\n')
        sh(['git', '-C', repo, 'commit', '-qam', 'unparsed'])
        open(fp, 'w').write(new + '\n')
        rc, diff = sh(['git', '-C', repo, 'diff', '-U0'])
        rec = dict(m, diff=diff[-1500:])
        env = dict(os.environ, PYTHONDONTWRITEBYTECODE='1')
        rc, out = sh([PY, '-m', 'pytest', '-q', '-x', '-p', 'no:cacheprovider', '--timeout=120'], cwd=repo, env=env, timeout=900)
        tail = [l for l in out.strip().split('\n') if l.strip()][-1:] or ['']
        if rc != 0:
            rec['status'] = 'killed-by-tests'
            rec['tests'] = tail[0][-200:]
            open(resf, 'a').write(json.dumps(rec) + '\n')
            print(m['id'], m['file'], m['site'], 'killed-by-tests', flush=True)
            continue
        rec['checks'] = {}
        red = False
        env2 = dict(os.environ, PICOTOOL_REPO=repo)
        for c in FILE_CHECKS[m['file']]:
            rc, out = sh([PY, os.path.join(via, 'harness', 'check.py'), c, '--tier', 'quick'], cwd=via, env=env2, timeout=1800)
            lines = [l[:300] for l in out.split('\n') if l.startswith(('VIOLATION', c + ' tier='))]
            rec['checks'][c] = {'exit': rc, 'lines': lines[:4]}
            if rc != 0:
                red = True
                break   # one red check is enough
        rec['status'] = 'detected' if red else 'SURVIVED'
        open(resf, 'a').write(json.dumps(rec) + '\n')
        print(m['id'], m['file'], m['site'], rec['status'], {c: r['exit'] for c, r in rec['checks'].items()}, flush=True)
    shutil.rmtree(repo, ignore_errors=True)


def show(files):
    recs = []
    for f in files:
        recs += [json.loads(l) for l in open(f)]
    by = {}
    for r in recs:
        by.setdefault(r['status'], []).append(r)
    for s, rs in sorted(by.items()):
        print(s, len(rs))
    for r in by.get('SURVIVED', []):
        print('--- survivor', r['id'], r['file'], r['site'])
        print(r['diff'])
    nfi = [r for r in by.get('detected', []) if any('no-failing-input-found' in l for c in r['checks'].values() for l in c['lines'])]
    print('detected with no-failing-input-found:', len(nfi), 'of', len(by.get('detected', [])))
    for r in nfi:
        print('  nfi', r['id'], r['file'], r['site'], [c for c, x in r['checks'].items() if x['exit'] != 0])


def main():
    a = sys.argv[1:]
    def opt(name, default=None):
        if name in a:
            i = a.index(name)
            v = a[i + 1]
            del a[i:i + 2]
            return v
        return default
    if a[0] == 'plan':
        n = int(opt('--n', '200'))
        seed = int(opt('--seed', '1'))
        files = opt('--files')
        plan(a[1], n, seed, files.split(',') if files else None)
    elif a[0] == 'run':
        via = opt('--via')
        lane = opt('--lane', '0/1')
        scratch = opt('--scratch', '/tmp/mut/lane' + lane.split('/')[0])
        run(a[1], a[2], via, lane, scratch)
    elif a[0] == 'show':
        show(a[1:])


if __name__ == '__main__':
    main()
