"""Developer tool: Lua sources -> a Coq file with their token lists (real lexer), for vm_compute experiments.
usage: PYTHONPATH=/repo /venv/bin/python harness/dev/lua2coq.py out.v 'src1' 'src2' ...   (python escapes allowed)"""
import sys
sys.path.insert(0, '/repo')
from pico8.lua import lexer

K = {'TokSpace': 'CSpace', 'TokNewline': 'CNewline', 'TokComment': 'CComment', 'TokString': 'CString', 'TokNumber': 'CNumber',
     'TokName': 'CName', 'TokLabel': 'CLabel', 'TokKeyword': 'CKeyword', 'TokSymbol': 'CSymbol'}


def zl(b):
    return '[' + '; '.join(str(x) for x in bytes(b)) + ']'


def coq_tokens(src):
    lx = lexer.Lexer(version=8)
    lx.process_lines([src])
    out = []
    for t in lx.tokens:
        k = K[type(t).__name__]
        q = 0
        if k == 'CString':
            if t._multiline_quote is not None:
                q = 256 + len(t._multiline_quote)
            else:
                q = t._quote[0] if t._quote else 0
        out.append('mkTok %s %d %s %s' % (k, q, zl(t._data), zl(t.code)))
    return '[' + ';\n   '.join(out) + ']'


def main():
    out = sys.argv[1]
    srcs = [s.encode().decode('unicode_escape').encode('latin1') for s in sys.argv[2:]]
    with open(out, 'w') as f:
        f.write('From PV Require Import Base.Prelude Spec.LuaTokens.\n')
        for i, s in enumerate(srcs):
            f.write('(* %r *)\nDefinition prog%d : list token :=\n  %s.\n' % (s, i, coq_tokens(s)))
        f.write('Definition progs : list (list token) := [%s].\n' % '; '.join('prog%d' % i for i in range(len(srcs))))


if __name__ == '__main__':
    main()
