#!/usr/bin/env python3
"""Developer command (not a registered check): mutation self-test of the C13 and C11 checks.

Applies one realistic breaking (or harmless) edit at a time to the picotool clone named by $PICOTOOL_REPO (must be a git
work tree without local changes), runs `harness/check.py <Cxx> --tier quick`, records exit status and the VIOLATION line,
and restores the file with `git checkout`.  Usage: mutate_files2.py [C13|C11] [name-substring]"""
import os
import subprocess
import sys

REPO = os.environ.get('PICOTOOL_REPO')
VERIF = os.path.dirname(os.path.dirname(os.path.dirname(os.path.abspath(__file__))))

# (property, name, file, old, new, expectation)
MUTATIONS = [
    ('C13', 'empty-flag-ignored', 'pico8/build/build.py',
     "setattr(result, section, getattr(empty_source, section))",
     "setattr(result, section, getattr(result, section))", 'red'),
    ('C13', 'conflict-not-refused', 'pico8/build/build.py',
     "                           'together.' % (section, section))\n                return 1",
     "                           'together.' % (section, section))", 'red'),
    ('C13', 'section-names-crossed', 'pico8/build/build.py',
     "setattr(result, section, getattr(source, section))",
     "setattr(result, section, getattr(source, {'gff': 'music', 'music': 'gff'}.get(section, section)))", 'red'),
    ('C13', 'previous-out-not-loaded', 'pico8/build/build.py',
     "        result = file.from_file(args.filename)",
     "        result = game.Game.make_empty_game(filename=args.filename)", 'red'),
    ('C13', 'label-not-reused', 'pico8/game/file.py',
     "                kwargs['label_fname'] = filename", "                pass", 'red'),
    ('C13', 'p8-label-dropped', 'pico8/game/formatter/p8.py',
     "        if game.label:", "        if False and game.label:", 'red'),
    ('C13', 'missing-file-not-refused', 'pico8/build/build.py',
     "            if not os.path.exists(fn):", "            if False and not os.path.exists(fn):", 'no-failing-input-found'),   # from_file then raises: still fails, OUT untouched
    ('C13', 'lua-extension-for-all', 'pico8/build/build.py',
     "                    not (section == 'lua' and fn.endswith('.lua'))):",
     "                    not fn.endswith('.lua')):", 'no-failing-input-found'),   # from_file refuses the .lua: still fails
    ('C13', 'harmless-loop-order', 'pico8/build/build.py',
     "for section in ('lua', 'gfx', 'gff', 'map', 'sfx', 'music'):",
     "for section in ('gfx', 'lua', 'gff', 'map', 'sfx', 'music'):", 'green'),   # the theorem holds for any order
    ('C13', 'section-dropped-from-loop', 'pico8/build/build.py',
     "for section in ('lua', 'gfx', 'gff', 'map', 'sfx', 'music'):",
     "for section in ('lua', 'gfx', 'gff', 'map', 'sfx'):", 'red'),
    ('C11', 'direct-write-to-destination', 'pico8/game/file.py',
     "    with tempfile.TemporaryFile(**file_args) as outfh:",
     "    with open(filename, **file_args) as outfh:", 'red'),
    ('C11', 'destination-opened-before-encoding', 'pico8/game/file.py',
     "        fmt.to_file(game, outfh, filename=filename, *args, **kwargs)\n        outfh.seek(0)\n        with open(filename, **file_args) as finalfh:\n            finalfh.write(outfh.read())",
     "        with open(filename, **file_args) as finalfh:\n            fmt.to_file(game, outfh, filename=filename, *args, **kwargs)\n            outfh.seek(0)\n            finalfh.write(outfh.read())", 'red'),
    ('C11', 'remove-destination-first', 'pico8/game/file.py',
     "    fmt = formatter_for_filename(filename=filename)\n    file_args",
     "    fmt = formatter_for_filename(filename=filename)\n    if os.path.exists(filename) and not filename.endswith('.png'):\n        os.remove(filename)\n    file_args", 'red'),
    ('C11', 'overwrite-via-named-temp-and-rename-early', 'pico8/game/file.py',
     "        fmt.to_file(game, outfh, filename=filename, *args, **kwargs)",
     "        open(filename, 'ab').close()\n        fmt.to_file(game, outfh, filename=filename, *args, **kwargs)", 'red'),
    ('C11', 'truncate-through-os-open-unseen-by-wrappers', 'pico8/game/file.py',
     "        fmt.to_file(game, outfh, filename=filename, *args, **kwargs)",
     "        os.close(os.open(filename, os.O_WRONLY | os.O_CREAT | os.O_TRUNC))\n        fmt.to_file(game, outfh, filename=filename, *args, **kwargs)", 'red'),
    ('C11', 'overwrite-removes-input-first', 'pico8/tool.py',
     "        if overwrite and fname.endswith('.p8'):\n            out_fname = fname",
     "        if overwrite and fname.endswith('.p8'):\n            out_fname = fname\n            os.remove(fname)", 'red'),
    ('C11', 'backup-copy-while-encoding-(harmless-to-the-destination)', 'pico8/game/file.py',
     "        fmt.to_file(game, outfh, filename=filename, *args, **kwargs)",
     "        open(filename + '.bak', 'wb').close()\n        fmt.to_file(game, outfh, filename=filename, *args, **kwargs)", 'no-failing-input-found'),
    ('C11', 'sanity-check-after-sections', 'pico8/game/formatter/p8.py',
     "        outstr.write(b'__lua__\\n')\n        ended_in_newline = None",
     "        outstr.write(b'__lua__\\n')\n        ended_in_newline = None  # harmless reorder marker", 'green'),
]


def run(cmd, **kw):
    return subprocess.run(cmd, capture_output=True, text=True, **kw)


def main():
    if not REPO:
        sys.exit('set PICOTOOL_REPO')
    if run(['git', '-C', REPO, 'status', '--porcelain']).stdout.strip():
        sys.exit('the picotool clone has local changes; refusing')
    props = [a for a in sys.argv[1:] if a.upper() in ('C13', 'C11')]
    subs = [a for a in sys.argv[1:] if a.upper() not in ('C13', 'C11')]
    results = []
    for prop, name, rel, old, new, expect in MUTATIONS:
        if props and prop not in [p.upper() for p in props]:
            continue
        if subs and not any(s in name for s in subs):
            continue
        path = os.path.join(REPO, rel)
        src = open(path).read()
        if src.count(old) != 1:
            results.append((prop, name, 'NOT-APPLICABLE (pattern occurs %d times)' % src.count(old), expect))
            continue
        try:
            open(path, 'w').write(src.replace(old, new))
            p = run(['/venv/bin/python', os.path.join(VERIF, 'harness', 'check.py'), prop, '--tier', 'quick'],
                    cwd=VERIF, env=dict(os.environ, PICOTOOL_REPO=REPO))
            lines = [ln for ln in (p.stdout + p.stderr).split('\n') if ln.startswith('VIOLATION')]
            if p.returncode == 0:
                got = 'green'
            elif lines and 'no-failing-input-found' in lines[0]:
                got = 'no-failing-input-found'
            elif lines:
                got = 'red'
            else:
                got = 'crash(exit %d): %s' % (p.returncode, (p.stdout + p.stderr)[-300:])
            detail = ''
            if lines:
                rp = lines[0].split('replay=')[1].split()[0]
                try:
                    import json
                    j = json.load(open(rp))
                    detail = j.get('signature') or (j.get('broken_obligations') or [{}])[0].get('name', '') or \
                        str((j.get('correspondence_disagreements') or [{}])[0].get('difference', ''))[:160]
                except Exception as e:  # noqa
                    detail = repr(e)
            results.append((prop, name, got + ('  [' + str(detail) + ']' if detail else ''), expect))
        finally:
            run(['git', '-C', REPO, 'checkout', '--', rel])
        print('%s %-45s expected %-24s got %s' % results[-1][:2] + (), flush=True) if False else \
            print('%s %-45s expected %-24s got %s' % (prop, name, expect, results[-1][2]), flush=True)
    bad = [r for r in results if not r[2].startswith(r[3])]
    print('%d mutations, %d as expected' % (len(results), len(results) - len(bad)))
    return 1 if bad else 0


if __name__ == '__main__':
    sys.exit(main())
