#!/usr/bin/env python3
"""MANIFEST.setup_cmd: build the framework offline from files on disk.

regenerate Generated/*.v from /repo, coq_makefile, full `make` (.vo, never -vos), scan the
development for forbidden vernacular (Axiom/Admitted/...), build every OCaml runner.
"""
import os
import re
import sys

sys.path.insert(0, os.path.dirname(os.path.abspath(__file__)))
import lib  # noqa: E402

FORBIDDEN = re.compile(r'\b(Admitted|admit|Axiom|Axioms|Parameter|Parameters|Conjecture|Hypothesis|Variable|'
                       r'Admit Obligations|Unset Guard Checking|Unset Positivity Checking|Unset Universe Checking|'
                       r'bypass_check|native_compute|type-in-type|impredicative-set)\b')


def strip_comments(src):
    out, depth, i = [], 0, 0
    while i < len(src):
        if src.startswith('(*', i):
            depth += 1
            i += 2
        elif src.startswith('*)', i) and depth:
            depth -= 1
            i += 2
        else:
            if not depth:
                out.append(src[i])
            i += 1
    return ''.join(out)


def scan_forbidden():
    bad = []
    for root, _, files in os.walk(os.path.join(lib.ROCQ, 'theories')):
        for f in files:
            if not f.endswith('.v'):
                continue
            p = os.path.join(root, f)
            src = strip_comments(open(p).read())
            in_section = 0
            for ln, line in enumerate(src.split('\n'), 1):
                if re.match(r'\s*Section\b', line):
                    in_section += 1
                if re.match(r'\s*End\b', line) and in_section:
                    in_section -= 1
                for m in FORBIDDEN.finditer(line):
                    w = m.group(1)
                    if w in ('Variable', 'Hypothesis') and in_section:
                        continue
                    bad.append('%s:%d: %s' % (os.path.relpath(p, lib.VERIF), ln, w))
    return bad


def main():
    lib.ensure_env()
    with lib.BuildLock():
        rep = lib.regenerate()
        if '_error' in rep:
            print('setup: translator failed:', rep['_error'])
            return 1
        failed = [(g, f) for g, r in rep.items() for f in r['failed']]
        for g, f in failed:
            print('setup: kernel not translatable: %s %s' % (g, f))
        lib.coq_makefile()
        # build the cone of every CLAIMED property (theorems, side conditions, extraction files); files that
        # belong to no claimed property (work in progress) are not part of the registered machinery
        import importlib
        props = []
        for f in sorted(os.listdir(os.path.join(lib.VERIF, 'harness', 'props'))):
            if re.match(r'c\d+\.py$', f):
                prop = importlib.import_module('props.' + f[:-3])
                if getattr(prop, 'CLAIM', None):
                    props.append(prop)
        targets = []
        for prop in props:
            targets.append(prop.COQ_PROPERTY)
            targets.extend(prop.COQ_EXTRA)
            for spec in (prop.MODEL, prop.MONITOR):
                if spec:
                    targets.append('theories/Extract/%s.vo' % spec[0])
        targets = sorted(set(targets))
        os.makedirs(lib.BUILD, exist_ok=True)
        rc, out, err = lib.sh(['timeout', '3000', 'make', '-k', '-j%d' % lib.NCPU] + targets, cwd=lib.ROCQ, timeout=3100)
        if rc != 0:
            print((out + err)[-4000:])
            print('setup: make failed')
            return 1
        bad = scan_forbidden()
        if bad:
            print('setup: forbidden vernacular:\n  ' + '\n  '.join(bad))
            return 1
        for prop in props:
            for kind, spec in (('model', prop.MODEL), ('monitor', prop.MONITOR)):
                if spec:
                    exe, e = lib.ocaml_build('%s_%s' % (prop.ID.lower(), kind), spec[0], spec[1])
                    if exe is None:
                        print('setup: ocaml build failed for %s %s: %s' % (prop.ID, kind, e))
                        return 1
    print('setup: ok (%d generated files, %d kernels, %d claimed properties, %d Coq targets)' % (
        len(rep), sum(r['kernels'] for r in rep.values()), len(props), len(targets)))
    claimed_gen = set(g for prop in props for g in prop.GEN_FILES)
    return 0 if not [1 for g, f in failed if g in claimed_gen] else 1


if __name__ == '__main__':
    sys.exit(main())
