#!/usr/bin/env python3
"""Developer self-test of the C07 / C06 checks (not a registered command).

Applies realistic single-edit mutations of pico8/lua/lexer.py / lua.py to a scratch copy of the picotool
clone, runs the named quick check with PICOTOOL_REPO pointed at the copy and reports exit code and
verdict line.  Breaking mutations must give exit 1 with a replay; harmless rewrites must stay green
(or, when they touch a pinned regex source, end in no-failing-input-found - the documented behaviour).

usage: PICOTOOL_REPO=/work/<you>/repo /venv/bin/python harness/mutate_lexer.py [name ...]
"""
import os
import shutil
import subprocess
import sys

VERIF = os.path.dirname(os.path.dirname(os.path.abspath(__file__)))
REPO = os.environ.get('PICOTOOL_REPO', '/repo')
SCRATCH = os.path.join(os.path.dirname(VERIF), 'tmp', 'mutant_repo')

LEX = 'pico8/lua/lexer.py'
LUA = 'pico8/lua/lua.py'
# name: (file, old, new, check, expectation)
MUTATIONS = {
    'symbol-order': (LEX, "b'<<>', b'>>>', b'>><', b'<<', b'>>',", "b'<<', b'>>', b'<<>', b'>>>', b'>><',", 'C07', 'red'),
    'keyword-word-boundary': (LEX, "br'(?![a-zA-Z0-9_\\x80-\\xff])'), TokKeyword)", "br'\\b'), TokKeyword)", 'C07', 'red'),
    'number-value-case': (LEX, "        data = self._data.lower()\n", "        data = self._data\n", 'C07', 'red'),
    'comment-eats-cr': (LEX, "br'--[^\\r\\n]*'", "br'--.*'", 'C07', 'red'),
    'column-off-by-one': (LEX, "                self._cur_charno = 0\n            else:", "                self._cur_charno = 1\n            else:", 'C07', 'red'),
    'hex-escape-dropped': (LEX, "                    elif hex_m:\n", "                    elif False:\n", 'C07', 'red'),
    'long-bracket-level': (LEX, "m = re.search(br'\\]' + self._in_multiline_string_delim + br'\\]', s)", "m = re.search(br'\\]=*\\]', s)", 'C07', 'red'),
    'label-as-name': (LEX, "*::'), TokLabel),", "*::'), TokName),", 'C07', 'red'),
    'escape-padding': (LEX, "esc = esc.rjust(3, b'0')", "esc = esc", 'C06', 'red'),
    'echo-drops-space': (LUA, "            strs.append(token.code)\n            if token.matches(lexer.TokNewline):", "            if not isinstance(token, lexer.TokSpace):\n                strs.append(token.code)\n            if token.matches(lexer.TokNewline):", 'C06', 'red'),
    'quote-not-escaped': (LEX, "                elif c == self._quote:\n                    escaped_chrs.append(b'\\\\' + c)", "                elif False:\n                    pass", 'C06', 'red'),
    'crlf-continuation': (LEX, "                    elif s[i+1:i+3] == b'\\r\\n':", "                    elif False:", 'C06', 'red'),
    # behaviour changes only on inputs the reference grammar leaves undefined (a number directly followed by a keyword):
    # the correspondence breaks, no property violation can exist -> no-failing-input-found with a shrunk source
    'keyword-after-digit': (LEX, [("            i = self._process_token(line)\n", "            self._prev = getattr(self, '_last', b' ')\n            i = self._process_token(line)\n            self._last = line[i-1:i] if i else getattr(self, '_last', b' ')\n"),
                                 ("                m = pat.match(s)\n                if m:\n", "                m = pat.match(s)\n                if m and tok_class is TokKeyword and self._prev.isalnum():\n                    continue\n                if m:\n")], None, 'C07', 'red'),
    # harmless rewrites
    'harmless-rename': (LEX, "            escaped_chrs = []", "            escaped_chrs = list()", 'C06', 'green'),
    'harmless-condition': (LEX, "            if c == b'\\n'[0]:", "            if c == 10:", 'C07', 'green'),
}


def run(name):
    f, old, new, check, expect = MUTATIONS[name]
    edits = old if isinstance(old, list) else [(old, new)]
    if os.path.exists(SCRATCH):
        shutil.rmtree(SCRATCH)
    shutil.copytree(REPO, SCRATCH, ignore=shutil.ignore_patterns('.git', '__pycache__', '*.pyc'))
    p = os.path.join(SCRATCH, f)
    src = open(p).read()
    for old, new in edits:
        if src.count(old) != 1:
            return name, check, expect, 'mutation does not apply (%d occurrences)' % src.count(old)
        src = src.replace(old, new)
    open(p, 'w').write(src)
    env = dict(os.environ)
    env['PICOTOOL_REPO'] = SCRATCH
    pr = subprocess.run(['/venv/bin/python', os.path.join(VERIF, 'harness', 'check.py'), check, '--tier', 'quick'],
                        capture_output=True, text=True, env=env, cwd=VERIF, timeout=1800)
    lines = [l for l in pr.stdout.split('\n') if l.startswith(('VIOLATION', 'KNOWN', check))]
    verdict = 'red' if pr.returncode == 1 else 'green' if pr.returncode == 0 else 'crash(%d)' % pr.returncode
    ok = 'as expected' if verdict == expect else 'UNEXPECTED'
    shutil.rmtree(SCRATCH)
    return name, check, expect, '%s %s | %s' % (verdict, ok, ' | '.join(lines)[:300])


def main():
    names = sys.argv[1:] or list(MUTATIONS)
    for n in names:
        print('%-24s %s expect %-5s -> %s' % run(n), flush=True)
    # leave the generated files / build in the state of the real repo
    env = dict(os.environ)
    subprocess.run(['/venv/bin/python', os.path.join(VERIF, 'gen', 'gen.py'),
                    os.path.join(VERIF, 'rocq', 'theories', 'Generated'), '--repo', REPO],
                   env=dict(env, PYTHONPATH=REPO, PYTHONHASHSEED='0'), capture_output=True)


if __name__ == '__main__':
    main()
