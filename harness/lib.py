"""Shared machinery of the picotool verification harness (see DESIGN.md sections 2, 3, 5).

Everything here runs under /venv/bin/python (the interpreter that has picotool's
dependencies); check.py re-executes itself there with a fixed environment.
"""
import fcntl
import hashlib
import json
import os
import re
import subprocess
import sys
import time

VERIF = os.path.dirname(os.path.dirname(os.path.abspath(__file__)))
REPO = os.environ.get('PICOTOOL_REPO', '/repo')
ROCQ = os.path.join(VERIF, 'rocq')
OCAML = os.path.join(VERIF, 'ocaml')
BUILD = os.path.join(OCAML, 'build')
GEN_OUT = os.path.join(ROCQ, 'theories', 'Generated')
VENV_PY = '/venv/bin/python'
GUARD = 'PICOTOOL_VERIF'
NCPU = os.cpu_count() or 4


def ensure_env():
    """Re-exec under /venv/bin/python with the fixed environment (hash seed, path, guard)."""
    want = {'PYTHONHASHSEED': '0', 'PYTHONPATH': REPO, GUARD: '1', 'PYTHONDONTWRITEBYTECODE': '1'}
    ok = os.path.realpath(sys.executable) == os.path.realpath(VENV_PY) and \
        all(os.environ.get(k) == v for k, v in want.items())
    if not ok:
        env = dict(os.environ)
        env.update(want)
        os.execve(VENV_PY, [VENV_PY] + sys.argv, env)
    if REPO not in sys.path:
        sys.path.insert(0, REPO)


def sh(cmd, timeout=None, cwd=None, input=None, env=None):
    p = subprocess.run(cmd, cwd=cwd, input=input, capture_output=True, text=True, timeout=timeout, env=env)
    return p.returncode, p.stdout, p.stderr


class BuildLock:
    def __enter__(self):
        os.makedirs(BUILD, exist_ok=True)
        self.fh = open(os.path.join(VERIF, '.build.lock'), 'w')
        fcntl.flock(self.fh, fcntl.LOCK_EX)
        return self

    def __exit__(self, *a):
        fcntl.flock(self.fh, fcntl.LOCK_UN)
        self.fh.close()


# ------------------------------------------------------------------ regeneration
def regenerate(only=None):
    """Run the translator on /repo's working tree. -> report dict (per generated file)."""
    os.makedirs(GEN_OUT, exist_ok=True)
    cmd = [VENV_PY, os.path.join(VERIF, 'gen', 'gen.py'), GEN_OUT, '--repo', REPO]
    if only:
        cmd += ['--only', ','.join(only)]
    env = dict(os.environ)
    env.update({'PYTHONHASHSEED': '0', 'PYTHONPATH': REPO})
    try:
        rc, out, err = sh(cmd, timeout=300, env=env)
    except subprocess.TimeoutExpired:
        return {'_error': 'translator timed out'}
    if rc != 0:
        return {'_error': 'translator crashed: ' + err[-2000:]}
    try:
        return json.loads(out[out.index('{'):])
    except Exception as e:
        return {'_error': 'translator output unreadable: %r' % (e,)}


# ------------------------------------------------------------------ Coq build
def _vfiles():
    out = []
    for root, _, files in os.walk(os.path.join(ROCQ, 'theories')):
        for f in files:
            if f.endswith('.v'):
                out.append(os.path.relpath(os.path.join(root, f), ROCQ))
    return sorted(out)


def coq_makefile():
    with open(os.path.join(ROCQ, '_CoqProject')) as fh:
        head = fh.read()
    text = head + '\n'.join(_vfiles()) + '\n'
    allp = os.path.join(ROCQ, '_CoqProject.all')
    old = open(allp).read() if os.path.exists(allp) else None
    if old != text or not os.path.exists(os.path.join(ROCQ, 'Makefile')):
        with open(allp, 'w') as fh:
            fh.write(text)
        rc, out, err = sh(['coq_makefile', '-f', '_CoqProject.all', '-o', 'Makefile'], cwd=ROCQ, timeout=120)
        if rc != 0:
            raise RuntimeError('coq_makefile failed: ' + err)


def coq_build(targets, force=(), timeout=1500):
    """make the given .vo targets (full .vo, never -vos). `force` .vo files are removed first so
    that their Print Assumptions output is in the log.  -> (status per target, log)."""
    os.makedirs(BUILD, exist_ok=True)
    coq_makefile()
    for f in force:
        p = os.path.join(ROCQ, f)
        if os.path.exists(p):
            os.remove(p)
    cmd = ['make', '-k', '-j%d' % NCPU] + list(targets)
    try:
        rc, out, err = sh(['timeout', str(timeout)] + cmd, cwd=ROCQ, timeout=timeout + 30)
    except subprocess.TimeoutExpired:
        rc, out, err = 124, '', 'make timed out'
    log = out + err
    status = {}
    for t in targets:
        rcq, _, _ = sh(['make', '-q', t], cwd=ROCQ, timeout=120)
        status[t] = (rcq == 0) and os.path.exists(os.path.join(ROCQ, t))
    return status, log


def first_coq_error(log):
    m = re.search(r'File "([^"]+)", line (\d+), characters [\d-]+:\s*\nError:(.*?)(?:\n\n|\nmake)', log, re.S)
    if m:
        return {'file': m.group(1), 'line': int(m.group(2)), 'error': ' '.join(m.group(3).split())[:600]}
    return None


def parse_assumptions(log):
    """-> list of axiom blocks printed by Print Assumptions ('closed' or the axiom text)."""
    res = []
    lines = log.split('\n')
    i = 0
    while i < len(lines):
        ln = lines[i]
        if ln.startswith('Closed under the global context'):
            res.append('closed')
        elif ln.startswith('Axioms:'):
            blk = []
            i += 1
            while i < len(lines) and (lines[i].startswith(' ') or (lines[i] and not lines[i].startswith(('COQC', 'Closed', 'Axioms:', 'File', 'make')))):
                blk.append(lines[i].strip())
                i += 1
            res.append('axioms: ' + ' '.join(blk))
            continue
        i += 1
    return res


def theorem_names(vpath):
    with open(vpath) as fh:
        src = fh.read()
    return re.findall(r'^\s*(?:Theorem|Corollary)\s+([A-Za-z0-9_\']+)', src, re.M)


# ------------------------------------------------------------------ OCaml drivers
def ocaml_build(name, extracted, main):
    """Concatenate extracted code + io.ml + main and compile (cached by content hash)."""
    src = ''
    mains = [main] if isinstance(main, str) else list(main)
    for p in [os.path.join(BUILD, extracted + '.ml'), os.path.join(OCAML, 'io.ml')] + [os.path.join(OCAML, m) for m in mains]:
        if not os.path.exists(p):
            return None, 'missing ' + p
        with open(p) as fh:
            src += fh.read() + '\n'
    h = hashlib.sha256(src.encode()).hexdigest()[:16]
    exe = os.path.join(BUILD, '%s_%s' % (name, h))
    if os.path.exists(exe):
        return exe, ''
    d = os.path.join(BUILD, 'src_' + name)
    os.makedirs(d, exist_ok=True)
    with open(os.path.join(d, name + '_all.ml'), 'w') as fh:
        fh.write(src)
    rc, out, err = sh(['ocamlfind', 'ocamlopt', '-w', '-a', '-inline', '100',
                       name + '_all.ml', '-o', exe + '.tmp'], cwd=d, timeout=600)
    if rc != 0:
        return None, (out + err)[-3000:]
    os.replace(exe + '.tmp', exe)
    # drop older builds of the same driver
    for f in os.listdir(BUILD):
        if f.startswith(name + '_') and os.path.join(BUILD, f) != exe and not f.startswith('src_') and '.' not in f:
            try:
                os.remove(os.path.join(BUILD, f))
            except OSError:
                pass
    return exe, ''


def run_driver(exe, lines, timeout=1800, stack_unlimited=True):
    """Feed request lines, get one answer line per request."""
    if not lines:
        return []
    data = '\n'.join(lines) + '\n'
    cmd = [exe]
    if stack_unlimited:
        cmd = ['bash', '-c', 'ulimit -s unlimited 2>/dev/null; exec "$0"', exe]
    p = subprocess.run(cmd, input=data, capture_output=True, text=True, timeout=timeout)
    out = p.stdout.split('\n')
    if out and out[-1] == '':
        out.pop()
    if len(out) != len(lines):
        out += ['DRIVER-ERROR no-answer (exit %s) %s' % (p.returncode, p.stderr[-200:].replace('\n', ' '))] * (len(lines) - len(out))
    return out


def run_driver_parallel(exe, lines, nproc=None, timeout=1800):
    nproc = nproc or NCPU
    if len(lines) < 64 or nproc <= 1:
        return run_driver(exe, lines, timeout)
    from concurrent.futures import ThreadPoolExecutor
    k = min(nproc, (len(lines) + 31) // 32)
    chunks = [lines[i::k] for i in range(k)]
    with ThreadPoolExecutor(k) as ex:
        outs = list(ex.map(lambda c: run_driver(exe, c, timeout), chunks))
    res = [None] * len(lines)
    for j, o in enumerate(outs):
        res[j::k] = o
    return res


# ------------------------------------------------------------------ helpers
LUA_VERSIONS = [8, 0, 16, 19, 33, 41]


def lua_version(src):
    """The cart data version a Lua text is loaded under: a function of the text, so that a replay repeats it.  Nothing
    in the Lua stack may depend on it (lexing, parsing, token counts, writers are the same for every version)"""
    if isinstance(src, (list, tuple)):
        src = b''.join(bytes(x) for x in src)
    return LUA_VERSIONS[(sum(src) + len(src)) % len(LUA_VERSIONS)]


def hx(b):
    b = bytes(b)
    return b.hex() if b else '-'


def unhx(s):
    return b'' if s == '-' else bytes.fromhex(s)


def exc_name(e):
    """Map a Python exception from picotool to the model's enum."""
    n = type(e).__name__
    table = {
        'AssertionError': 'AssertionError', 'IndexError': 'IndexError', 'ValueError': 'ValueError',
        'TypeError': 'TypeError', 'KeyError': 'KeyError', 'UnicodeDecodeError': 'UnicodeError',
        'UnicodeEncodeError': 'UnicodeError', 'LexerError': 'LexerError', 'ParserError': 'ParserError',
        'AttributeError': 'AttributeError', 'InvalidP8HeaderError': 'InvalidP8Header',
        'InvalidP8SectionError': 'InvalidP8Section', 'P8IncludeOutsideOfAllowedDirectory': 'IncludeOutside',
        'P8IncludeNotFound': 'IncludeNotFound', 'LuaBuildError': 'BuildError',
    }
    return table.get(n, 'Other:' + n)


def game_from_buffers(mem, share=True):
    """A Game whose five regions were built through the PUBLIC constructors (cls.from_bytes) from caller-owned
    bytearrays, the way library users assemble carts; when `share` and two same-size regions have equal contents
    (gff / music), both are given the SAME caller buffer. The regions must still be independent objects in
    memory-map terms: an edit of one must not show up in another. -> (game, [gfx, map, gff, music, sfx], buffers)"""
    from pico8.game.game import Game
    from pico8.gfx.gfx import Gfx
    from pico8.map.map import Map
    from pico8.gff.gff import Gff
    from pico8.music.music import Music
    from pico8.sfx.sfx import Sfx
    g = Game.make_empty_game()
    v = g.version
    bufs = [bytearray(unhx(h)) for h in mem]
    if share and bufs[2] == bufs[3]:
        bufs[3] = bufs[2]
    g.gfx = Gfx.from_bytes(bufs[0], version=v)
    g.map = Map.from_bytes(bufs[1], version=v, gfx=g.gfx)
    g.gff = Gff.from_bytes(bufs[2], version=v)
    g.music = Music.from_bytes(bufs[3], version=v)
    g.sfx = Sfx.from_bytes(bufs[4], version=v)
    return g, [g.gfx, g.map, g.gff, g.music, g.sfx], bufs


def game_from_p8(mem):
    """A Game LOADED from a .p8 file the way PICO-8 saves carts (trailing rows equal to the empty default are not
    written, sections without a row are left out altogether): the five regions `mem` (hex, in the order gfx, map, gff,
    music, sfx) are written by the library's own .p8 writer, the text is cut the PICO-8 way and read back by the .p8
    reader.  The regions of the loaded Game must be the bytes of `mem` again (music: the one bit the text has no place
    for cleared by the caller), whole, and wired to one another like those of any other cart.
    -> (game, [gfx, map, gff, music, sfx])"""
    import io
    from pico8.game.game import Game
    from pico8.game.formatter.p8 import P8Formatter
    from props import shortp8
    g0 = Game.make_empty_game()
    for sec, h in zip([g0.gfx, g0.map, g0.gff, g0.music, g0.sfx], mem):
        sec._data[:] = unhx(h)
    f = io.BytesIO()
    P8Formatter.to_file(g0, f)
    text, _ = shortp8.strip_default_tail(f.getvalue())
    g = P8Formatter.from_file(io.BytesIO(text))
    return g, [g.gfx, g.map, g.gff, g.music, g.sfx]


class Timeout(Exception):
    pass


def with_alarm(seconds, fn, *a):
    import signal

    def h(sig, frm):
        raise Timeout()
    old = signal.signal(signal.SIGALRM, h)
    signal.alarm(seconds)
    try:
        return fn(*a)
    finally:
        signal.alarm(0)
        signal.signal(signal.SIGALRM, old)


def load_known_findings():
    """All findings/*.json files (committed; never written at run time), merged."""
    d = os.path.join(VERIF, 'findings')
    res = {'known': [], 'fixed': []}
    if os.path.isdir(d):
        for f in sorted(os.listdir(d)):
            if f.endswith('.json'):
                with open(os.path.join(d, f)) as fh:
                    j = json.load(fh)
                res['known'].extend(j.get('known', []))
                res['fixed'].extend(j.get('fixed', []))
    return res


def now():
    return time.time()


# ------------------------------------------------------------------ the standard case loop
def standard_run(prop, cases, ctx):
    """implementation -> observations; model runner -> correspondence; monitor runner -> property.

    prop supplies: run_impl(case)->obs, model_requests(case, obs)->[line], compare(case, obs, answers)->None|str,
    monitor_requests(case, obs)->[line] (each must answer 'true'), nontrivial_key(case, obs)->hashable|None,
    signature(case, obs)->str, describe(case, obs)->jsonable, RULE (str), histogram_key(case, obs)->str.
    """
    t_impl = time.time()
    obs = []
    for c in cases:
        try:
            o = with_alarm(getattr(prop, 'CASE_TIMEOUT', 60), prop.run_impl, c)
        except Timeout:
            o = {'timeout': True}
        except Exception as e:  # noqa: an exception the property module did not expect from the implementation
            o = {'impl_exception': '%s: %s' % (type(e).__name__, str(e)[:200])}
        obs.append(o)
    t_impl = time.time() - t_impl
    disagreements = []
    violations = []
    crashed = [(c, o) for c, o in zip(cases, obs) if isinstance(o, dict) and 'impl_exception' in o]
    for c, o in crashed:
        # the implementation raised where the harness expects it to work: a violation with the case as replay
        violations.append({'case': c, 'summary': {'case': str(c)[:300], 'raised': o['impl_exception']},
                           'signature': prop.ID + '/impl-exception/' + o['impl_exception'].split(':')[0] + '/' + str(c.get('kind', '') if isinstance(c, dict) else ''),
                           'what': 'implementation raised %s on an in-domain case' % o['impl_exception'],
                           'observed': [o['impl_exception']]})
    if crashed:
        keep = [(c, o) for c, o in zip(cases, obs) if not (isinstance(o, dict) and 'impl_exception' in o)]
        cases = [c for c, _ in keep]
        obs = [o for _, o in keep]
    # correspondence
    if ctx.get('model_exe'):
        reqs, spans = [], []
        for c, o in zip(cases, obs):
            r = prop.model_requests(c, o)
            spans.append((len(reqs), len(reqs) + len(r)))
            reqs.extend(r)
        ans = run_driver_parallel(ctx['model_exe'], reqs)
        for c, o, (a, b) in zip(cases, obs, spans):
            d = prop.compare(c, o, ans[a:b])
            if d is not None:
                disagreements.append({'case': c, 'summary': prop.describe(c, o), 'difference': d})
    # monitor
    if ctx.get('monitor_exe'):
        reqs, spans = [], []
        for c, o in zip(cases, obs):
            r = prop.monitor_requests(c, o)
            spans.append((len(reqs), len(reqs) + len(r)))
            reqs.extend(r)
        ans = run_driver_parallel(ctx['monitor_exe'], reqs)
        for c, o, (a, b) in zip(cases, obs, spans):
            bad = [x for x in ans[a:b] if x != 'true']
            if bad:
                if hasattr(prop, 'minimize'):
                    try:
                        c = prop.minimize(c, o, ans[a:b])
                    except Exception:
                        pass
                violations.append({'case': c, 'summary': prop.describe(c, o), 'signature': prop.signature(c, o),
                                   'what': prop.what(c, o) if hasattr(prop, 'what') else prop.signature(c, o),
                                   'observed': bad[:3]})
    keys = set()
    hist = {}
    for c, o in zip(cases, obs):
        k = prop.nontrivial_key(c, o)
        if k is not None:
            keys.add(k)
        h = prop.histogram_key(c, o)
        hist[h] = hist.get(h, 0) + 1
    samples = [prop.describe(c, o) for c, o in list(zip(cases, obs))[:: max(1, len(cases) // 5)]][:6]
    return {'evaluations': len(cases), 'nontrivial': len(keys), 'rule': prop.RULE, 'samples': samples,
            'disagreements': disagreements, 'violations': violations, 'histogram': hist,
            'impl_seconds': round(t_impl, 2)}
