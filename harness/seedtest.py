#!/usr/bin/env python3
"""Developer tool (not a registered check): confirm a seeded breaking change and run checks against it.

  seedtest.py <seed-id> <outdir> <worktree> <Cxx> [<Cyy> ...] [--tier quick|thorough] [--via <copy of /verif>]

<outdir> holds patch.diff, demo.py, meta.json written by an independent agent; <worktree> is a scratch git
worktree of /repo with the change applied. Steps: (1) demo passes on the original code and fails on the
changed code, the pinned test suite passes on the changed code - all in the scratch worktree; (2) the patch is
applied to /repo, the listed checks are run, /repo is restored (git checkout -- .) whatever happens; (3) the
material is stored as /verif/seeded/<seed-id>/ with the outcome recorded in meta.json.
"""
import json
import os
import shutil
import subprocess
import sys

VERIF = os.path.dirname(os.path.dirname(os.path.abspath(__file__)))
REPO = '/repo'
PY = '/venv/bin/python'


def sh(cmd, cwd=None, env=None, timeout=3600):
    p = subprocess.run(cmd, cwd=cwd, env=env, capture_output=True, text=True, timeout=timeout)
    return p.returncode, (p.stdout + p.stderr)


def main():
    args = sys.argv[1:]
    tier = 'quick'
    via = None   # --via <copy of /verif>: run the checks from that copy with PICOTOOL_REPO=<worktree> (does not touch /repo)
    if '--via' in args:
        i = args.index('--via')
        via = args[i + 1]
        del args[i:i + 2]
    if '--tier' in args:
        i = args.index('--tier')
        tier = args[i + 1]
        del args[i:i + 2]
    sid, outdir, wt = args[0], args[1], args[2]
    checks = args[3:]
    patch = os.path.join(outdir, 'patch.diff')
    demo = os.path.join(outdir, 'demo.py')
    meta = json.load(open(os.path.join(outdir, 'meta.json')))
    env = dict(os.environ, PYTHONPATH=wt, PYTHONHASHSEED='0', PYTHONDONTWRITEBYTECODE='1')
    res = {'seed': sid}
    # (1) in the scratch worktree: changed -> demo fails, tests pass; original -> demo passes
    # the scratch worktree is reset and the patch applied / reversed explicitly (git stash is shared between
    # worktrees of one repository, so it is not used)
    sh(['git', '-C', wt, 'checkout', '--', '.'])
    rc, out = sh(['git', '-C', wt, 'apply', patch])
    if rc != 0:
        print('patch does not apply to the scratch worktree:', out[-300:])
        return 2
    rc_c, out_c = sh([PY, demo], cwd=outdir, env=env, timeout=900)
    rc_t, out_t = sh([PY, '-m', 'pytest', '-q', '-p', 'no:cacheprovider', '--timeout=900'], cwd=wt, timeout=1800)
    tests_tail = [l for l in out_t.strip().split('\n') if l.strip()][-1] if out_t.strip() else ''
    sh(['git', '-C', wt, 'apply', '-R', patch])
    rc_o, out_o = sh([PY, demo], cwd=outdir, env=env, timeout=900)
    sh(['git', '-C', wt, 'apply', patch])
    res['confirmed'] = {'demo_changed_exit': rc_c, 'demo_original_exit': rc_o, 'tests_changed': tests_tail,
                        'demo_changed_tail': out_c.strip()[-300:], 'demo_original_tail': out_o.strip()[-100:]}
    ok = rc_c != 0 and rc_o == 0 and rc_t == 0 and ' passed' in tests_tail and 'failed' not in tests_tail
    res['kept'] = ok
    print('seed %s: demo changed=%d original=%d tests=%r -> %s' % (sid, rc_c, rc_o, tests_tail, 'CONFIRMED' if ok else 'REJECTED'))
    # (2) run the checks against /repo with the patch applied
    res['checks'] = {}
    if ok and checks and via:
        # worker-safe mode: /repo stays as it is (other processes may be reading it); the checks of the copy
        # <via> are pointed at the scratch worktree, which has the change applied
        env2 = dict(os.environ, PICOTOOL_REPO=wt)
        for c in checks:
            rc, out = sh([PY, os.path.join(via, 'harness', 'check.py'), c, '--tier', tier], cwd=via, env=env2, timeout=7200)
            lines = [l for l in out.split('\n') if l.startswith(('VIOLATION', 'KNOWN-FINDING', c + ' tier='))]
            detail = None
            for l in lines:
                if l.startswith('VIOLATION') and 'replay=' in l:
                    rp = l.split('replay=')[1].split()[0]
                    try:
                        j = json.load(open(rp))
                        detail = {k: j.get(k) for k in ('kind', 'signature', 'what', 'summary')}
                        if j.get('broken_obligations'):
                            detail['broken'] = [b.get('name') for b in j['broken_obligations']][:6]
                    except Exception:
                        pass
            res['checks'][c] = {'exit': rc, 'lines': lines, 'replay': detail, 'mode': 'PICOTOOL_REPO=worktree'}
            print('  check %s: exit %d %s' % (c, rc, ' | '.join(lines)[:300]))
        sh(['git', '-C', wt, 'checkout', '--', '.'])       # leave the scratch worktree clean for its next user
    elif ok and checks:
        rc, out = sh(['git', '-C', REPO, 'status', '--porcelain'])
        if out.strip():
            print('refusing: /repo has uncommitted changes')
            return 2
        rc, out = sh(['git', '-C', REPO, 'apply', patch])
        if rc != 0:
            print('patch does not apply to /repo:', out[-500:])
            res['checks'] = {'_error': 'patch does not apply to /repo HEAD'}
        else:
            try:
                for c in checks:
                    rc, out = sh([PY, os.path.join(VERIF, 'harness', 'check.py'), c, '--tier', tier], cwd=VERIF, timeout=7200)
                    lines = [l for l in out.split('\n') if l.startswith(('VIOLATION', 'KNOWN-FINDING', c + ' tier='))]
                    detail = None
                    for l in lines:
                        if l.startswith('VIOLATION') and 'replay=' in l:
                            rp = l.split('replay=')[1].split()[0]
                            try:
                                j = json.load(open(rp))
                                detail = {k: j.get(k) for k in ('kind', 'signature', 'what', 'summary')}
                                if j.get('broken_obligations'):
                                    detail['broken'] = [b.get('name') for b in j['broken_obligations']][:6]
                            except Exception:
                                pass
                    res['checks'][c] = {'exit': rc, 'lines': lines, 'replay': detail}
                    print('  check %s: exit %d %s' % (c, rc, ' | '.join(lines)[:300]))
            finally:
                sh(['git', '-C', REPO, 'checkout', '--', '.'])
                rc, out = sh(['git', '-C', REPO, 'status', '--porcelain'])
                if out.strip():
                    print('WARNING: /repo not clean after restore:', out)
    # (3) store
    dest = os.path.join(VERIF, 'seeded', sid)
    os.makedirs(dest, exist_ok=True)
    for f in ('patch.diff', 'demo.py'):
        if os.path.abspath(os.path.join(outdir, f)) != os.path.abspath(os.path.join(dest, f)):
            shutil.copy(os.path.join(outdir, f), os.path.join(dest, f))
    meta['what_we_ran'] = res
    meta['detected_by'] = [c for c, r in res['checks'].items() if isinstance(r, dict) and r.get('exit') == 1]
    with open(os.path.join(dest, 'meta.json'), 'w') as fh:
        json.dump(meta, fh, indent=1)
    return 0


if __name__ == '__main__':
    sys.exit(main())
