#!/usr/bin/env python3
"""Writes /verif/MANIFEST.json from the table below (developer tool, not a check)."""
import json
import os

VERIF = os.path.dirname(os.path.dirname(os.path.abspath(__file__)))
BASELINE = "cd /repo && env -u PICOTOOL_VERIF /venv/bin/python -m pytest -ra -q -p no:cacheprovider --timeout=900 --continue-on-collection-errors"

def load_claims():
    """Each harness/props/cXX.py declares CLAIM = dict(text=..., note=..., technique=..., design_ref=...)
    (or NOT_CLAIMED = 'reason')."""
    import importlib
    import re
    import sys
    sys.path.insert(0, os.path.join(VERIF, 'harness'))
    claims = {}
    for f in sorted(os.listdir(os.path.join(VERIF, 'harness', 'props'))):
        if re.match(r'c\d+\.py$', f):
            m = importlib.import_module('props.' + f[:-3])
            if getattr(m, 'CLAIM', None):
                c = m.CLAIM
                claims[m.ID] = (True, c['text'], c['note'], c['technique'], c.get('design_ref', '8 ' + m.ID))
            elif getattr(m, 'NOT_CLAIMED', None):
                claims[m.ID] = (False, m.NOT_CLAIMED, '', '', '')
    return claims


NOT_YET = "not yet covered by the machine-checked development in this revision (model/theorems under construction; see DESIGN.md section 10 staging)"


def main():
    CLAIMS = load_claims()
    props = [json.loads(l) for l in open(os.path.join(VERIF, 'properties.jsonl'))]
    checks, na = [], []
    for p in props:
        pid = p['id']
        c = CLAIMS.get(pid)
        if c and c[0]:
            checks.append({
                'property_id': pid,
                'quick_cmd': '/venv/bin/python harness/check.py %s --tier quick' % pid,
                'thorough_cmd': '/venv/bin/python harness/check.py %s --tier thorough' % pid,
                'evidence_file': 'evidence/%s.json' % pid,
                'replay_cmd_template': '/venv/bin/python harness/check.py %s --replay {path}' % pid,
                'engine': 'rocq-model+correspondence',
                'level_claimed': {'category': 'proof', 'text': c[1], 'design_ref': c[4]},
                'level_note': c[2],
                'technique': c[3],
            })
        else:
            na.append({'property_id': pid, 'reason': (c[1] if c else NOT_YET)})
    m = {
        'version': 1,
        'setup_cmd': '/venv/bin/python harness/setup.py',
        'hooks': {
            'guard': 'PICOTOOL_VERIF',
            'enable': 'checks set PICOTOOL_VERIF=1 in their own environment; no instrumentation has been added to /repo so far (observation is through public APIs and in-process wrappers installed by the harness)',
            'baseline_off_cmd': BASELINE,
            'source_commits': [],
            'add_only': True,
        },
        'engines': [{
            'name': 'rocq-model+correspondence', 'path': 'harness/check.py',
            'serves_properties': [c['property_id'] for c in checks],
            'kind_free_text': 'Coq 8.16.1 development (rocq/theories) with regenerated tables/kernels (gen/), extracted OCaml model and monitor runners (ocaml/), Python correspondence harness (harness/)',
        }],
        'checks': checks,
        'not_applicable': na,
        'notes': 'fix: commits in /repo (unguarded genuine-defect repairs) are listed in findings/known_findings.json under "fixed".',
    }
    with open(os.path.join(VERIF, 'MANIFEST.json'), 'w') as fh:
        json.dump(m, fh, indent=1)
    print('MANIFEST.json: %d checks, %d not_applicable' % (len(checks), len(na)))


if __name__ == '__main__':
    main()
