#!/bin/bash
# Developer tool (coordinator): merge the workers' clones and their fix: commits, rebuild, run every claimed check.
# usage: harness/mergeall.sh [worker ...]   (default: all)
set -u
WORKERS=${@:-lexer minify parser fmt files1 files2 require codec c17}
cd /repo || exit 1
if [ -n "$(git status --porcelain)" ]; then echo "/repo not clean"; exit 1; fi
for d in $WORKERS; do
  [ -d /work/$d/repo ] || continue
  for c in $(git -C /work/$d/repo log --reverse --format=%H); do
    subj=$(git -C /work/$d/repo log -1 --format=%s $c)
    case "$subj" in fix:*) ;; *) continue;; esac
    if git log --format=%s | grep -qxF "$subj"; then continue; fi
    git fetch -q /work/$d/repo 2>/dev/null
    if git cherry-pick $c >/dev/null 2>&1; then echo "picked [$d] $subj" | cut -c1-160; else echo "CONFLICT [$d] $subj"; git cherry-pick --abort; fi
  done
done
/venv/bin/python -m pytest -q -p no:cacheprovider --timeout=900 2>&1 | tail -1
cd /verif || exit 1
git add -A; git commit -qm "wip before merge" >/dev/null 2>&1
for d in $WORKERS; do
  [ -d /work/$d/verif ] || continue
  git pull -q --no-edit -X ours /work/$d/verif main 2>&1 | grep -i "conflict\|fatal"
  if [ -n "$(git status --porcelain | grep '^UU\|^AA\|^DU\|^UD')" ]; then
    for f in $(git status --porcelain | grep '^UU\|^AA\|^DU\|^UD' | awk '{print $2}'); do echo "conflict in $f: taking ours"; git checkout --ours $f 2>/dev/null; git add $f; done
    git commit -qm "Merge $d (conflicts: ours)"
  fi
done
/venv/bin/python harness/setup.py 2>&1 | grep -v conda | tail -3
for f in harness/props/c[0-9]*.py; do
  c=$(basename $f .py | tr c C)
  if grep -q "^CLAIM = dict\|^CLAIM = {" $f; then
    /venv/bin/python harness/check.py $c --tier quick 2>&1 | grep "tier=\|VIOLATION\|KNOWN-FINDING\|Traceback" | cut -c1-200
  fi
done
python3 harness/fixlist.py | head -8
/venv/bin/python harness/mkmanifest.py | tail -1
