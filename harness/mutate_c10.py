"""Developer tool (not a registered check): mutation self-test of the C10 check.

Applies, one at a time, realistic breaking (and two harmless) changes to pico8/lua/lua.py of the picotool clone
named by $PICOTOOL_REPO (NEVER /repo: a private clone), runs the pinned tests and `check.py C10 --tier quick`, prints
the outcome, and restores the file.  Expected: red with a replay for the breaking ones, `no-failing-input-found`
for the harmless ones.  Usage: PICOTOOL_REPO=/work/<you>/repo /venv/bin/python harness/mutate_c10.py [M3 M6 ...]
"""
import subprocess, sys, os, json, time
REPO = os.environ['PICOTOOL_REPO']
assert os.path.realpath(REPO) != '/repo', 'use a private clone'
VERIF = os.path.dirname(os.path.dirname(os.path.abspath(__file__)))
P = REPO + '/pico8/lua/lua.py'
MUTS = [
 ('M3 StatDo forgets indent', "        yield self._get_text(node, b'do')\n        self._indent += 1\n        for t in self._walk(node.block):\n            yield t\n        self._indent -= 1\n        yield self._get_text(node, b'end')\n\n    def _walk_StatWhile",
                              "        yield self._get_text(node, b'do')\n        for t in self._walk(node.block):\n            yield t\n        yield self._get_text(node, b'end')\n\n    def _walk_StatWhile"),
 ('M4 FunctionArgs brackets not counted', "        yield self._get_text(node, b'(')\n        self._indent += 1\n        if node.explist is not None:\n            for t in self._walk(node.explist):\n                yield t\n        self._indent -= 1\n",
                              "        yield self._get_text(node, b'(')\n        if node.explist is not None:\n            for t in self._walk(node.explist):\n                yield t\n"),
 ('M5 harmless regex rewrite', "re.sub(br' +\\n', b'\\n', spaces)\n\n        # If a comment", "re.sub(br' *\\n', b'\\n', spaces)\n\n        # If a comment"),
 ('M6 two blank lines allowed', "re.sub(br'\\n\\n+', b'\\n\\n', spaces)", "re.sub(br'\\n\\n\\n+', b'\\n\\n\\n', spaces)"),
 ('M7 else block closes late', "                yield self._get_text(node, b'else')\n                self._indent += 1\n                for t in self._walk(block):\n                    yield t\n                self._indent -= 1\n        if not short_if:\n            yield self._get_text(node, b'end')",
                              "                yield self._get_text(node, b'else')\n                self._indent += 1\n                for t in self._walk(block):\n                    yield t\n        if not short_if:\n            yield self._get_text(node, b'end')\n            if node.exp_block_pairs[-1][0] is None:\n                self._indent -= 1"),
 ('M9 end-of-file rules dropped', "            spaces = re.sub(br'[ \\n]*\\n[ \\n]*\\Z', b'\\n', spaces)\n            spaces = re.sub(br' +\\Z', b'', spaces)", "            pass"),
 ('M12 old end-of-file rule', "            spaces = re.sub(br'[ \\n]*\\n[ \\n]*\\Z', b'\\n', spaces)\n            spaces = re.sub(br' +\\Z', b'', spaces)", "            spaces = re.sub(br'[ \\n]+$', b'\\n', spaces)"),
 ('M13 first fix reverted', "br'\\n *\\Z', b'\\n' + b' ' * self._indent_mult * self._indent,", "br'\\n *$', b'\\n' + b' ' * self._indent_mult * self._indent,"),
 ('M10 comment lines indented one level deeper', "b'\\n' + b' ' * self._indent_mult * self._indent + b'--'", "b'\\n' + b' ' * self._indent_mult * (self._indent + 1) + b'--'"),
 ('M11 tab is two spaces (property-preserving)', "re.sub(br'\\t', b' ', spaces)      # one tab", "re.sub(br'\\t', b' ', spaces)      # one tab"),
]
only = sys.argv[1:] 
src = open(P).read()
res = []
for name, a, b in MUTS:
    if only and not any(name.startswith(o) for o in only): continue
    if a == b: continue
    if src.count(a) < 1:
        print(name, 'PATTERN NOT FOUND', src.count(a)); continue
    open(P,'w').write(src.replace(a, b, 1) if name.startswith('M5') or src.count(a)==1 else src.replace(a,b,1))
    try:
        t=time.time()
        pt = subprocess.run(['/venv/bin/python','-m','pytest','-q','-p','no:cacheprovider','--timeout=900','-x'],cwd=REPO,capture_output=True,text=True)
        tests = pt.stdout.strip().split('\n')[-1]
        ck = subprocess.run(['/venv/bin/python','harness/check.py','C10','--tier','quick'],cwd=VERIF,capture_output=True,text=True,env=dict(os.environ,PICOTOOL_REPO=REPO))
        lines=[l for l in ck.stdout.split('\n') if l.startswith(('VIOLATION','C10 ','KNOWN'))]
        sig=''
        for f in ('C10_counterexample.json','C10_broken_obligation.json'):
            p=VERIF+'/replay/'+f
            if os.path.exists(p) and os.path.getmtime(p)>t:
                j=json.load(open(p)); sig=(j.get('signature') or j.get('kind'))
                if j.get('case') and j['case'].get('srcs'): sig += ' witness=%r' % bytes.fromhex(j['case']['srcs'][0])[:80]
        print(name,'| tests:',tests,'| exit',ck.returncode,'|',' ; '.join(lines),'|',sig,'| %.0fs'%(time.time()-t), flush=True)
    finally:
        open(P,'w').write(src)
subprocess.run(['git','-C',REPO,'status','--short'])
