#!/usr/bin/env python3
"""Developer command (not a registered check): mutation self-test of the C14 check.

  PICOTOOL_REPO=/work/<you>/repo /venv/bin/python harness/mutate_c14.py [name ...]

For every mutation of the catalogue: copy the picotool clone to a scratch directory, apply the
textual change to pico8/build/build.py, run `harness/check.py C14 --tier quick` with PICOTOOL_REPO
pointing at the copy and report the exit code and the VIOLATION / KNOWN-FINDING lines.  A mutation
is *caught* when the check exits 1.  The scratch copy is removed afterwards; evidence/ and replay/
are restored by re-running the check on the real clone at the end.
"""
import os
import shutil
import subprocess
import sys

VERIF = os.path.dirname(os.path.dirname(os.path.abspath(__file__)))
REPO = os.environ.get('PICOTOOL_REPO', '/repo')

# (name, old text, new text, expected)  expected: 'red' | 'green'
CATALOGUE = [
    # --- the six defects fixed in build.py, put back one at a time
    ('revert-final-newline',
     "        if not package_header[-1].endswith(b'\\n'):\n"
     "            # The file's last line has no newline. Keep it apart from \"end\".\n"
     "            package_header.append(b'\\n')\n", "", 'red'),
    ('revert-nested-call',
     "        else:\n"
     "            # Some other call: look for require() calls inside it, such as\n"
     "            # print(require(\"a\")) or require(\"a\").init().\n"
     "            for t in super()._walk_FunctionCall(node):\n"
     "                yield t\n", "", 'red'),
    ('revert-backslash-escape',
     "pth.replace(b'\\\\', b'\\\\\\\\').replace(b'\"', b'\\\\\"')", "pth.replace(b'\"', b'\\\\\"')", 'red'),
    ('revert-string-call',
     "            if isinstance(node.args, parser.FunctionArgs):\n"
     "                arg_exps = node.args.explist.exps if node.args.explist else []\n"
     "            else:\n"
     "                # require \"name\" or require {...}: one argument, no parens.\n"
     "                arg_exps = [parser.ExpValue(node.args)]\n",
     "            arg_exps = node.args.explist.exps if node.args.explist else []\n", 'red'),
    ('revert-dotted-name',
     "                            len(s.funcname.namepath) == 1 and\n"
     "                            s.funcname.methodname is None and\n", "", 'red'),
    ('revert-token-strip',
     None, None, 'red'),        # special: whole block, see below
    # --- other realistic breakages
    ('drop-visited-check', "        if require_path not in package_lua:\n", "        if True:\n", 'red'),
    ('embed-twice',
     "        package_header.append(b'end\\n')\n",
     "        package_header.append(b'end\\n')\n        package_header.extend(package_header[-3:] if len(package_lua) > 1 else [])\n", 'red'),
    ('loader-before-packages',
     "    package_header.extend(REQUIRE_LUA_PREAMBLE_REQUIRE)\n    new_code = package_header + list(orig_ast.to_lines())\n",
     "    new_code = list(REQUIRE_LUA_PREAMBLE_REQUIRE) + package_header + list(orig_ast.to_lines())\n", 'red'),
    ('never-strip', "            if not use_game_loop:\n", "            if False:\n", 'red'),
    ('always-strip', "            if not use_game_loop:\n", "            if True:\n", 'red'),
    ('strip-only-init', "GAME_LOOP_FUNCTION_NAMES = (b'_init', b'_update', b'_update60', b'_draw')",
     "GAME_LOOP_FUNCTION_NAMES = (b'_init',)", 'red'),
    ('main-dropped',
     "    new_code = package_header + list(orig_ast.to_lines())\n", "    new_code = package_header\n", 'red'),
    ('missing-file-ignored',
     "            if reqd_filepath is None:\n                raise LuaBuildError(",
     "            if reqd_filepath is None:\n                continue\n                raise LuaBuildError(", 'red'),
    ('three-args-accepted', "if len(arg_exps) < 1 or len(arg_exps) > 2:", "if len(arg_exps) < 1 or len(arg_exps) > 3:", 'red'),
    ('option-ignored', "                use_game_loop = arg_exps[1].value.fields[0].exp.value\n",
     "                use_game_loop = False\n", 'red'),
    ('recursion-dropped',
     "            _evaluate_require(reqd_lua, reqd_filepath,\n                              package_lua, lua_path=lua_path)\n",
     "            pass\n", 'red'),
    ('wrong-base-dir',
     "            _evaluate_require(reqd_lua, reqd_filepath,\n", "            _evaluate_require(reqd_lua, file_path,\n", 'red'),
    # --- harmless rewrites: must stay green
    ('harmless-rename', "escaped_pth", "escaped_pth", 'green'),
    ('harmless-comment', "    if not package_lua:\n        return orig_ast\n",
     "    # nothing to do\n    if not package_lua:\n        return orig_ast\n", 'green'),
]

OLD_STRIP = '''            if not use_game_loop:
                reqd_lua.root.stats[:] = [
                    s for s in reqd_lua.root.stats
                    if not isinstance(s, parser.StatFunction) or
                    s.funcname.namepath[0].value not in GAME_LOOP_FUNCTION_NAMES]  # noqa: E501
                reqd_lua.reparse(writer_cls=lua.LuaASTEchoWriter)
'''


def apply(name, src):
    for n, old, new, _ in CATALOGUE:
        if n != name:
            continue
        if n == 'revert-token-strip':
            i = src.index('            if not use_game_loop:\n')
            j = src.index('            package_lua[require_path] = reqd_lua')
            return src[:i] + OLD_STRIP + '\n' + src[j:]
        if old not in src:
            raise SystemExit('mutation %s: text not found' % name)
        return src.replace(old, new, 1)
    raise SystemExit('unknown mutation ' + name)


def main():
    names = sys.argv[1:] or [c[0] for c in CATALOGUE]
    scratch = os.path.join(os.path.dirname(VERIF), 'tmp', 'mutant-repo')
    results = []
    for name in names:
        exp = [c[3] for c in CATALOGUE if c[0] == name][0]
        shutil.rmtree(scratch, ignore_errors=True)
        shutil.copytree(REPO, scratch, ignore=shutil.ignore_patterns('.git', '__pycache__', '*.pyc'))
        p = os.path.join(scratch, 'pico8', 'build', 'build.py')
        with open(p) as fh:
            src = fh.read()
        with open(p, 'w') as fh:
            fh.write(apply(name, src))
        env = dict(os.environ)
        env['PICOTOOL_REPO'] = scratch
        env.pop('PYTHONPATH', None)
        r = subprocess.run(['/venv/bin/python', os.path.join(VERIF, 'harness', 'check.py'), 'C14', '--tier', 'quick'],
                           capture_output=True, text=True, env=env, cwd=VERIF)
        lines = [ln for ln in r.stdout.split('\n') if ln.startswith(('VIOLATION', 'KNOWN-FINDING', 'C14 '))]
        sig = ''
        rp = os.path.join(VERIF, 'replay', 'C14_counterexample.json')
        if r.returncode == 1 and os.path.exists(rp) and 'no-failing-input-found' not in r.stdout:
            import json
            with open(rp) as fh:
                sig = json.load(fh).get('signature', '')
        ok = (r.returncode == 1) == (exp == 'red')
        results.append((name, exp, r.returncode, ok))
        print('%-26s expected %-5s exit %d  %s  %s' % (name, exp, r.returncode, 'OK' if ok else 'MISSED', sig))
        for ln in lines:
            print('      ' + ln[:200])
        sys.stdout.flush()
    shutil.rmtree(scratch, ignore_errors=True)
    # restore evidence / Generated for the real clone
    env = dict(os.environ)
    env['PICOTOOL_REPO'] = REPO
    subprocess.run(['/venv/bin/python', os.path.join(VERIF, 'harness', 'check.py'), 'C14', '--tier', 'quick'],
                   capture_output=True, text=True, env=env, cwd=VERIF)
    bad = [r for r in results if not r[3]]
    print('%d mutations, %d as expected' % (len(results), len(results) - len(bad)))
    return 1 if bad else 0


if __name__ == '__main__':
    sys.exit(main())
