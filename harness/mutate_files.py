#!/usr/bin/env python3
"""Developer command (not a registered check): mutation self-test of the C12 and C20 checks.

  PICOTOOL_REPO=/work/<you>/repo /venv/bin/python harness/mutate_files.py [name ...]

For every mutation of the catalogue: copy the picotool clone to a scratch directory (under
fsobs.tmp_base(), never /tmp), apply the textual change, run the pinned test-suite on the copy (to
show that the 278 tests do not see the change), run `harness/check.py <Cxx> --tier quick` with
PICOTOOL_REPO pointing at the copy, report exit code and the VIOLATION line.  A mutation is *caught*
when the check exits 1.  At the end the checks are re-run on the real clone so that Generated/,
evidence/ and replay/ describe it again.
"""
import os
import shutil
import subprocess
import sys

VERIF = os.path.dirname(os.path.dirname(os.path.abspath(__file__)))
sys.path.insert(0, os.path.join(VERIF, 'harness'))
REPO = os.environ.get('PICOTOOL_REPO', '/repo')
P8 = 'pico8/game/formatter/p8.py'
BUILD = 'pico8/build/build.py'

# (name, property, file, old text, new text, expected 'red' | 'green' | 'miss')
#   'miss' = a real behaviour change that the quick check is known not to see (documented in notes/)
CATALOGUE = [
    # ---- C12: the four fixes put back
    ('c12-revert-include-prefix', 'C12', P8,
     "        if (inc_full_path != root_path and\n                not inc_full_path.startswith(os.path.join(root_path, ''))):\n",
     "        if not inc_full_path.startswith(root_path):\n", 'red'),
    ('c12-revert-carts-folder', 'C12', P8,
     "        if full_file_path.startswith(\n                os.path.join(full_candidate_path, '')):\n",
     "        if full_file_path.startswith(full_candidate_path):\n", 'red'),
    ('c12-revert-dotdot', 'C12', BUILD,
     "        if (not require_path or\n                b'./' in require_path or require_path.startswith(b'/') or\n                b'..' in require_path.split(b'/')):\n",
     "        if (not require_path or\n                b'./' in require_path or require_path.startswith(b'/')):\n", 'red'),
    ('c12-revert-empty', 'C12', BUILD,
     "        if (not require_path or\n                b'./' in require_path", "        if (b'./' in require_path", 'red'),
    # ---- C12: other realistic breakages
    ('c12-containment-test-dropped', 'C12', P8,
     "            raise P8IncludeOutsideOfAllowedDirectory()\n", "            pass\n", 'red'),
    ('c12-half-fix-unknown-shape', 'C12', P8,
     "not inc_full_path.startswith(os.path.join(root_path, ''))", "not inc_full_path.startswith(root_path)", 'red'),
    ('c12-filter-dropped', 'C12', BUILD,
     "            raise LuaBuildError(\n                'require() filename cannot contain", "            LuaBuildError(\n                'require() filename cannot contain", 'red'),
    ('c12-leading-slash-allowed', 'C12', BUILD, " or require_path.startswith(b'/') or\n", " or\n", 'red'),
    ('c12-dotslash-allowed', 'C12', BUILD, "                b'./' in require_path or require_path", "                require_path", 'red'),
    ('c12-include-relative-to-cwd', 'C12', P8,
     "                    os.path.dirname(filename), inc_path + inc_extension)))", "                    '', inc_path + inc_extension)))", 'red'),
    ('c12-root-is-parent', 'C12', P8,
     "        root_path = os.path.dirname(full_file_path)\n", "        root_path = os.path.dirname(os.path.dirname(full_file_path))\n", 'red'),
    ('c12-require-relative-to-cwd', 'C12', BUILD,
     "            candidate = os.path.join(rel_path_base, candidate)\n", "            candidate = os.path.join('', candidate)\n", 'red'),
    ('c12-default-path-parent', 'C12', BUILD, "DEFAULT_LUA_PATH = '?;?.lua'", "DEFAULT_LUA_PATH = '?;?.lua;../?.lua'", 'red'),
    ('c12-cart-path-added', 'C12', P8, "    '~/.lexaloffle/pico-8/carts',  # Linux\n",
     "    '~/.lexaloffle/pico-8/carts',  # Linux\n    '~/.lexaloffle',\n", 'red'),
    ('c12-substitute-before-split', 'C12', BUILD,
     "    for lookup_p in lua_path.split(';'):\n        candidate = lookup_p.replace('?', p)\n",
     "    for candidate in lua_path.replace('?', p).split(';'):\n", 'red'),
    ('c12-first-placeholder-only', 'C12', BUILD, "lookup_p.replace('?', p)", "lookup_p.replace('?', p, 1)", 'red'),
    # ---- C12: harmless
    ('c12-harmless-comment', 'C12', P8, "        # (Only assert filename if there's an #include.)\n", "        # only assert filename if there is an include\n", 'green'),
    ('c12-harmless-message', 'C12', BUILD, "'require() filename cannot contain \"./\" or \"../\" or start '",
     "'require() filename cannot contain \"./\" or \"..\" or start '", 'green'),
    # ---- C20: the two fixes put back
    ('c20-revert-newline', 'C20', P8,
     "                    yield line if line.endswith(b'\\n') else line + b'\\n'\n        else:",
     "                    yield line\n        else:", 'red'),
    ('c20-revert-newline-both', 'C20', P8,
     "yield line if line.endswith(b'\\n') else line + b'\\n'", "yield line", 'red'),
    ('c20-revert-text-tabs', 'C20', P8,
     "                inc_code = io.BytesIO(b''.join(inc_game.lua.to_lines()))\n                for line in lines_for_tab(inc_code, inc_tab):\n",
     "                for line in lines_for_tab(inc_game.lua.to_lines(), inc_tab):\n", 'red'),
    ('c20-revert-name-decode', 'C20', P8,
     "        inc_path = lua.p8scii_to_unicode(inc_path_b)\n", "        inc_path = str(inc_path_b, encoding='utf-8')\n", 'red'),
    ('c20-name-latin1', 'C20', P8,
     "        inc_path = lua.p8scii_to_unicode(inc_path_b)\n", "        inc_path = str(inc_path_b, encoding='latin-1')\n", 'red'),
    # ---- C20: other realistic breakages
    ('c20-tab-off-by-one', 'C20', P8, "        elif inc_tab is None or inc_tab == cur_tab:\n", "        elif inc_tab is None or inc_tab == cur_tab + 1:\n", 'red'),
    ('c20-tab-lines-kept', 'C20', P8, "            if inc_tab is None:\n                # Preserve", "            if True:\n                # Preserve", 'red'),
    ('c20-tab-lines-dropped', 'C20', P8, "            if inc_tab is None:\n                # Preserve", "            if False:\n                # Preserve", 'red'),
    ('c20-tab-regex', 'C20', P8, "TAB_LINE_RE = re.compile(br'-->8')", "TAB_LINE_RE = re.compile(br'--->8')", 'red'),
    ('c20-tab-anywhere', 'C20', P8, "        if TAB_LINE_RE.match(line):", "        if TAB_LINE_RE.search(line):", 'red'),
    ('c20-ext-order', 'C20', P8, r"(\.p8\.png|\.p8|\.lua)", r"(\.p8|\.p8\.png|\.lua)", 'red'),
    ('c20-include-search', 'C20', P8, "        m = INCLUDE_LINE_RE.match(line)\n", "        m = INCLUDE_LINE_RE.search(line)\n", 'red'),
    ('c20-include-line-kept', 'C20', P8, "        # (Only assert filename if there's an #include.)\n", "        yield line\n", 'red'),
    ('c20-host-line-dropped-after-include', 'C20', P8,
     "    root_path = get_root_include_path(filename)\n    for line in lualines:\n        m = INCLUDE_LINE_RE.match(line)\n"
     "        if not m:\n            yield line\n            continue\n",
     "    root_path = get_root_include_path(filename)\n    skip = False\n    for line in lualines:\n        m = INCLUDE_LINE_RE.match(line)\n"
     "        if not m:\n            if not skip:\n                yield line\n            skip = False\n            continue\n        skip = True\n", 'red'),
    ('c20-nested-expanded', 'C20', P8, "                    fh, filename=inc_full_path, do_includes=False)", "                    fh, filename=inc_full_path, do_includes=True)", 'red'),
    ('c20-missing-ignored', 'C20', P8, "            raise P8IncludeNotFound()\n", "            continue\n", 'red'),
    ('c20-isfile-exists', 'C20', P8, "        if not os.path.isfile(inc_full_path):", "        if not os.path.exists(inc_full_path):", 'red'),
    ('c20-png-read-as-p8', 'C20', P8, "                P8Formatter if inc_extension == '.p8'\n", "                P8Formatter if inc_extension != '.lua'\n", 'red'),
    ('c20-tab-ignored-for-png', 'C20', P8, "                for line in lines_for_tab(inc_code, inc_tab):",
     "                for line in lines_for_tab(inc_code, inc_tab if inc_extension == '.p8' else None):", 'red'),
    ('c20-selector-base-8', 'C20', P8, "            inc_tab = int(inc_tab_str[1:])", "            inc_tab = int(inc_tab_str[1:], 8)", 'red'),
    ('c20-included-lines-stripped', 'C20', P8,
     "                for line in fh:\n                    yield line if line.endswith(b'\\n') else line + b'\\n'\n",
     "                for line in fh:\n                    yield line.strip() + b'\\n'\n", 'red'),
    ('c20-included-blank-lines-skipped', 'C20', P8,
     "                for line in fh:\n                    yield line if",
     "                for line in fh:\n                    if not line.strip():\n                        continue\n                    yield line if", 'red'),
    ('c20-directive-case-insensitive', 'C20', P8, r"(\.p8\.png|\.p8|\.lua)(\:\d+)?')", r"(\.p8\.png|\.p8|\.lua)(\:\d+)?', re.I)", 'red'),
    ('c20-exact-tab-line', 'C20', P8, "        if TAB_LINE_RE.match(line):", "        if line.rstrip(b'\\n') == b'-->8':", 'red'),
    # ---- C20: harmless
    ('c20-harmless-rename-both', 'C20', P8, "inc_code", "inc_text", 'red'),      # pinned shape: documented no-failing-input-found
    ('c20-harmless-docstring', 'C20', P8, '    """Processes #include lines.', '    """Processes the #include lines.', 'green'),
]


def run(cmd, env=None, cwd=None, timeout=1500):
    p = subprocess.run(cmd, env=env, cwd=cwd, capture_output=True, text=True, timeout=timeout)
    return p.returncode, p.stdout + p.stderr


def main():
    from props import fsobs
    only = set(sys.argv[1:])
    results = []
    base = fsobs.tmp_base()
    for name, prop, rel, old, new, expected in CATALOGUE:
        if only and name not in only and prop not in only:
            continue
        scratch = os.path.join(base, 'mut_' + name)
        shutil.rmtree(scratch, ignore_errors=True)
        shutil.copytree(REPO, scratch, ignore=shutil.ignore_patterns('.git', '__pycache__', '.pytest_cache'))
        path = os.path.join(scratch, rel)
        with open(path) as fh:
            src = fh.read()
        if old not in src:
            results.append((name, prop, expected, 'NOT-APPLICABLE', '', ''))
            shutil.rmtree(scratch, ignore_errors=True)
            continue
        with open(path, 'w') as fh:
            fh.write(src.replace(old, new, 1) if 'both' not in name else src.replace(old, new))
        rc_t, out_t = run(['/venv/bin/python', '-m', 'pytest', '-q', '-p', 'no:cacheprovider', '--timeout=900', '-x'], cwd=scratch)
        tests = out_t.strip().split('\n')[-1][:60]
        env = dict(os.environ, PICOTOOL_REPO=scratch)
        rc, out = run(['/venv/bin/python', os.path.join(VERIF, 'harness', 'check.py'), prop, '--tier', 'quick'], env=env, cwd=VERIF)
        viol = [ln for ln in out.split('\n') if ln.startswith('VIOLATION')]
        sig = ''
        if viol and 'counterexample' in viol[0]:
            import json
            try:
                with open(os.path.join(VERIF, 'replay', prop + '_counterexample.json')) as fh:
                    sig = json.load(fh).get('signature', '')
            except Exception:  # noqa
                pass
        got = 'red' if rc != 0 else 'green'
        kind = ('counterexample ' + sig) if sig else ('no-failing-input-found' if viol else '')
        results.append((name, prop, expected, got, kind, tests))
        print('%-40s %s expected=%-5s got=%-5s %s | suite: %s' % (name, prop, expected, got, kind, tests), flush=True)
        shutil.rmtree(scratch, ignore_errors=True)
    # restore Generated/, evidence/, replay/ for the real clone
    for prop in sorted(set(r[1] for r in results)):
        rc, out = run(['/venv/bin/python', os.path.join(VERIF, 'harness', 'check.py'), prop, '--tier', 'quick'],
                      env=dict(os.environ, PICOTOOL_REPO=REPO), cwd=VERIF)
        print('restore %s on %s: exit %d' % (prop, REPO, rc))
    bad = [r for r in results if r[3] != 'NOT-APPLICABLE' and ((r[2] == 'red') != (r[3] == 'red')) and r[2] != 'miss']
    print('%d mutations, %d not as expected' % (len(results), len(bad)))
    for r in bad:
        print('  UNEXPECTED', r)
    return 1 if bad else 0


if __name__ == '__main__':
    sys.exit(main())
