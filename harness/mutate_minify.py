#!/usr/bin/env python3
"""Developer command (not a registered check): mutation self-test of the C01 / C02 / C19 checks.

Copies $PICOTOOL_REPO to a scratch directory, applies ONE realistic single-edit mutation of pico8/lua/lua.py or
pico8/build/build.py from the catalogue below, runs the relevant quick check with PICOTOOL_REPO pointing at the copy and
records exit code, VIOLATION line and signature; then removes the copy.  At the end the checks are run once more on the
real repository so that rocq/theories/Generated and the build products are those of the unchanged tree.

usage: PICOTOOL_REPO=/work/<me>/repo /venv/bin/python harness/mutate_minify.py [--scratch DIR] [--only id,id] [--out FILE]

Expected: `violation` = exit 1 with a counterexample replay; `flagged` = exit 1 with `no-failing-input-found` (the edit keeps
the property but changes a pinned source / the hand-modelled output: documented behaviour of the technique).
"""
import json
import os
import shutil
import subprocess
import sys
import time

VERIF = os.path.dirname(os.path.dirname(os.path.abspath(__file__)))
LUA = 'pico8/lua/lua.py'
BUILD = 'pico8/build/build.py'

CATALOGUE = [
    # id, property, file, old, new, expected
    ('keepfile-skip', 'C02', LUA,
     "                if (new_name not in MinifyNameFactory.PRESERVED_NAMES and\n"
     "                    (self._names_to_keep is None or\n"
     "                     new_name not in self._names_to_keep)):\n",
     "                if new_name not in MinifyNameFactory.PRESERVED_NAMES:\n", 'violation'),
    ('build-keep-args', 'C02', BUILD,
     "        lua_writer_args = {\n            'keep_all_names': args.keep_all_names,\n"
     "            'keep_names_from_file': args.keep_names_from_file}\n    file.to_file(",
     "    file.to_file(", 'violation'),
    ('name-chars-dup', 'C02', LUA, "NAME_CHARS = b'abcdefghijklmnopqrstuvwxyz'", "NAME_CHARS = b'abcdefghijklmnopqrstuvwxyza'", 'violation'),
    ('preserved-not-skipped', 'C02', LUA,
     "                if (new_name not in MinifyNameFactory.PRESERVED_NAMES and\n", "                if (True and\n", 'violation'),
    ('builtin-renamed', 'C02', LUA,
     "        if name in MinifyNameFactory.PRESERVED_NAMES:\n            return name\n", "", 'violation'),
    ('digit-shift', 'C02', LUA,
     "                    id % len(MinifyNameFactory.NAME_CHARS)]", "                    (id + 1) % len(MinifyNameFactory.NAME_CHARS)]", 'flagged'),
    ('label-not-renamed', 'C01', LUA,
     "                    self._name_factory.get_short_name(token.code[2:-2]) +\n", "                    token.code[2:-2] +\n", 'violation'),
    ('no-fuse-check', 'C01', LUA, "            if self._fuses(prev, chunk):\n                yield b' '\n", "", 'violation'),
    ('fusing-dot-row', 'C01', LUA, "        b'.': b'.=0123456789', ", "", 'violation'),
    ('fusing-minus-row', 'C01', LUA, "        b'-': b'-=', ", "        ", 'violation'),
    ('number-dot-rule', 'C01', LUA, "            # A number followed by a dot, as in 1 .. x\n            return True\n",
     "            return False\n", 'violation'),
    ('keyword-space', 'C01', LUA,
     "            elif token.matches(lexer.TokKeyword):\n                if self._last_was_name_keyword_number:\n                    yield b' '\n",
     "            elif token.matches(lexer.TokKeyword):\n", 'violation'),
    ('newline-dropped', 'C01', LUA,
     "                if not self._last_was_newline:\n                    yield b'\\n'\n", "", 'violation'),
    ('every-newline', 'C01', LUA, "                if not self._last_was_newline:\n                    yield b'\\n'\n",
     "                yield b'\\n'\n", 'flagged'),
    ('closers', 'C01', LUA, "token.code in b'])}'", "token.code in b'])'", 'flagged'),
    ('header-one', 'C19', LUA, "                seen_header_comments < 2 and", "                seen_header_comments < 1 and", 'violation'),
    ('header-no-newline', 'C19', LUA,
     "                seen_header_comments += 1\n                yield token.code\n                yield b'\\n'\n",
     "                seen_header_comments += 1\n                yield token.code\n", 'violation'),
    ('header-after-code', 'C19', LUA,
     "            if (not seen_non_comment_token and\n                seen_header_comments < 2 and",
     "            if (seen_header_comments < 2 and", 'violation'),
]


def run(cmd, env, timeout=1500):
    p = subprocess.run(cmd, cwd=VERIF, env=env, capture_output=True, text=True, timeout=timeout)
    return p.returncode, p.stdout + p.stderr


def main():
    repo = os.environ.get('PICOTOOL_REPO', '/repo')
    args = sys.argv[1:]
    scratch = args[args.index('--scratch') + 1] if '--scratch' in args else os.path.join(os.path.dirname(VERIF), 'tmp', 'mutants')
    only = set(args[args.index('--only') + 1].split(',')) if '--only' in args else None
    outp = args[args.index('--out') + 1] if '--out' in args else None
    results = []
    props = set()
    for mid, prop, rel, old, new, expected in CATALOGUE:
        if only and mid not in only:
            continue
        copy = os.path.join(scratch, mid)
        shutil.rmtree(copy, ignore_errors=True)
        os.makedirs(scratch, exist_ok=True)
        shutil.copytree(repo, copy, ignore=shutil.ignore_patterns('.git', '__pycache__', '*.pyc'))
        path = os.path.join(copy, rel)
        src = open(path).read()
        if src.count(old) != 1:
            results.append({'id': mid, 'property': prop, 'outcome': 'not-applicable (source text not found once)'})
            shutil.rmtree(copy, ignore_errors=True)
            continue
        with open(path, 'w') as fh:
            fh.write(src.replace(old, new))
        env = dict(os.environ, PICOTOOL_REPO=copy)
        rc_t, out_t = run(['/venv/bin/python', '-m', 'pytest', '-q', '-p', 'no:cacheprovider', '--timeout=900', '-x'],
                          dict(env, PYTHONPATH=copy), 900) if False else (None, '')
        t0 = time.time()
        rc, out = run(['/venv/bin/python', 'harness/check.py', prop, '--tier', 'quick'], env)
        lines = [ln for ln in out.split('\n') if ln.startswith(('VIOLATION', 'KNOWN-FINDING', prop + ' tier='))]
        sig = None
        rp = os.path.join(VERIF, 'replay', '%s_counterexample.json' % prop)
        if rc == 1 and any('counterexample' in ln for ln in lines) and os.path.exists(rp):
            sig = json.load(open(rp)).get('signature')
        outcome = 'green' if rc == 0 else ('flagged' if any('no-failing-input-found' in ln for ln in lines) else
                                           'violation' if sig else 'exit-%s' % rc)
        results.append({'id': mid, 'property': prop, 'expected': expected, 'outcome': outcome, 'signature': sig,
                        'seconds': round(time.time() - t0, 1), 'ok': outcome == expected})
        print(json.dumps(results[-1]), flush=True)
        props.add(prop)
        shutil.rmtree(copy, ignore_errors=True)
    shutil.rmtree(scratch, ignore_errors=True)
    # restore Generated/ and the build products of the unchanged tree
    for prop in sorted(props):
        rc, out = run(['/venv/bin/python', 'harness/check.py', prop, '--tier', 'quick'], dict(os.environ))
        print('%s on the unchanged tree: exit %d' % (prop, rc), flush=True)
    if outp:
        with open(outp, 'w') as fh:
            json.dump(results, fh, indent=1)
    return 0 if all(r.get('ok', True) for r in results) else 1


if __name__ == '__main__':
    sys.exit(main())
