"""C16 - on-disk encodings match the PICO-8 cart formats, not merely each other."""
import io
import os
import lib
from props import shortp8

ID = 'C16'
GEN_FILES = ['K_gfx', 'K_gff', 'K_map', 'K_sfx', 'K_music', 'K_p8png',
             # source pins of the hand-modelled modules (gen/kernels_pins.py)
             'T_pins_gfx', 'T_pins_map', 'T_pins_gff', 'T_pins_sfx', 'T_pins_music', 'T_pins_util', 'T_pins_p8', 'T_pins_p8png']
COQ_PROPERTY = 'theories/Properties/C16.vo'
COQ_EXTRA = ['theories/Generated/K_gfx_selftest.vo', 'theories/Generated/K_sfx_selftest.vo',
             'theories/Generated/K_music_selftest.vo', 'theories/Generated/K_p8png_selftest.vo',
             'theories/Proofs/GfxPins.vo', 'theories/Proofs/MapPins.vo', 'theories/Proofs/GffPins.vo', 'theories/Proofs/SfxPins.vo', 'theories/Proofs/MusicPins.vo', 'theories/Proofs/UtilPins.vo', 'theories/Proofs/P8Pins.vo', 'theories/Proofs/P8PngPins.vo']
MODEL = ('ExSections', 'sections_main.ml')
MONITOR = ('MonC16', 'c16_mon_main.ml')
SECS = ['gfx', 'map', 'gff', 'music', 'sfx']
SIZE = {'gfx': 8192, 'map': 4096, 'gff': 256, 'music': 256, 'sfx': 4352}
RULE = ('write cases: region bytes -> section.to_lines() vs the reference text of Spec/P8Format.v (monitor) and vs the '
        'model; read cases: reference text of the bytes -> section.from_lines() must give the bytes back (music: minus the '
        'unrepresentable bit); patterns: random, 0xff, ramp, walking bit, every byte value at every column of a gfx row, '
        'every one of the 65,536 sfx note words, all music flag/channel high-bit combinations; malformed lines '
        '(correspondence only); all 65,536 (channel value, byte) steganography pairs on the real pack/unpack functions; '
        'the PICO-8-written reference carts in tests/testdata as .p8 and .p8.png; short cases: a .p8 file in which one '
        'section (or every section) has only its first k rows of the reference text (k = 0, 1, 2, half, all but one, all; '
        'gfx, label, map, gff, music, sfx; with or without blank separator lines), read with P8Formatter.from_file, then saved '
        'as .p8.png and read again - both readings of every region must be the rows present followed by the empty default '
        '(holds_C16_file: newer PICO-8 versions leave out the empty tail of a section). distinct+non-trivial = distinct '
        '(section, content) pairs with at least one non-zero byte')
ASSUMPTIONS = ['int(x,16) is modelled for pure hex-digit fields only (Python also accepts sign/underscore/space); malformed '
               'lines exercising that leniency are not generated',
               'the PNG container (zlib, filters, CRC: pypng) is outside the model; C16 is about pixel rows']
PARTIAL = ''
CLAIM = dict(
    text=("Theorems C16_gfx, C16_gff, C16_map, C16_music, C16_sfx (Coq, closed under the global context): for every region "
          "content of the right size the modelled writer produces exactly the reference text of Spec/P8Format.v (written from "
          "the PICO-8 format descriptions) and the modelled reader maps that text back to the bytes (music: minus the one "
          "unrepresentable bit); C16_png_read / C16_png_write: the byte read from, and the four channel values stored into, any "
          "pixel equal the reference A,R,G,B two-bit split; C16_png_layout: the regenerated slice bounds of the raw .p8.png "
          "reader cut the image into gfx, map, gff, music, sfx, code, version; C16_same_cart: the same memory as .p8 text and "
          "as .p8.png image decodes to identical regions. A .p8 section with fewer rows than the full count denotes the rows "
          "present followed by the empty default (Spec/P8Format.v 'short sections'; theorem C03_short_sections_padded for the "
          "model of from_file after the fix: commit that fills short sections up), observed on the real reader and on the "
          "same cart saved as .p8.png. Byte / note-word facts are complete vm_compute sweeps over the "
          "regenerated kernels (all 256 bytes, all 65,536 note words, all 65,536 (channel, byte) pairs) lifted by induction "
          "over rows, patterns and lines. Tie: kernels regenerated from gfx.py/sfx.py/music.py/p8png.py each run (self-tested "
          "in Coq), line loops hand-modelled and compared with the implementation; the extracted reference encoders are "
          "applied to the implementation's real output and to the PICO-8-written testdata carts (.p8 and .p8.png)."),
    note=("Trusted: Coq kernel+VM, translator, extraction, OCaml glue, the reference formats in Spec/P8Format.v as a faithful "
          "reading of the PICO-8 documentation, the modelling of bytes.fromhex/rstrip/int(...,16). The PNG container "
          "(zlib, filters, CRC) is pypng's and outside the model; whole-image row loops of p8png.py are modelled "
          "(Model/PngStego.v) and correspondence-tested, the theorems are per pixel."),
    technique='Coq proof (complete sweeps on regenerated kernels lifted by induction) + correspondence + extracted reference encoders as monitor',
    design_ref='8 C16')


RECORD = {'gfx': 64, 'gff': 128, 'map': 128, 'sfx': 68, 'music': 4}


def default_variants(rng, sec, version=8):
    """regions derived from the library's own empty section (what a reader starts from before it applies the lines of
    a file): the default itself; the default rotated by one record, so that every record holds the default of its
    neighbour (sfx pattern 0 and patterns 1..63 have different defaults); the default with a few random records; the
    all-zero region with one default record.  A reader that treats a line equal to 'the blank default' specially, or
    that leaves the pre-set contents where it should store, shows here."""
    base = bytes(_cls(sec).empty(version=version)._data)
    r = RECORD[sec]
    yield base
    yield base[r:] + base[:r]
    yield base[-r:] + base[:-r]
    b = bytearray(base)
    for _ in range(3):
        k = rng.randrange(len(b) // r)
        b[k * r:(k + 1) * r] = rng.randbytes(r)
    yield bytes(b)
    z = bytearray(len(base))
    z[:r] = base[r:2 * r]
    z[-r:] = base[:r]
    yield bytes(z)


def _patterns(rng, sec, tier):
    n = SIZE[sec]
    yield bytes(n)
    for d in default_variants(rng, sec):
        yield d
    yield b'\xff' * n
    yield bytes((i * 7 + 3) & 255 for i in range(n))
    for _ in range(3 if tier == 'quick' else 40):
        yield rng.randbytes(n)
    for bit in range(8):
        yield bytes((1 << bit) if (i % 9 == bit) else 0 for i in range(n))
    if sec == 'gfx':
        # every byte value at every column of a row: 4 regions cover 64 columns x 256 values
        for k in range(4 if tier == 'quick' else 16):
            b = bytearray(n)
            for row in range(128):
                for col in range(64):
                    b[row * 64 + col] = (row * 2 + col * 5 + k * 64 + (col >> 1)) & 255
            yield bytes(b)
        b = bytearray(n)
        for v in range(256):
            for col in range(32):
                b[(v // 2) * 64 + (v % 2) * 32 + col] = v
        yield bytes(b)
    if sec == 'sfx':
        # all 65,536 note words: 64 patterns x 32 notes = 2048 words per region -> 32 regions
        for k in range(32):
            b = bytearray(n)
            for pid in range(64):
                for note in range(32):
                    w = k * 2048 + pid * 32 + note
                    b[pid * 68 + note * 2] = w & 255
                    b[pid * 68 + note * 2 + 1] = w >> 8
                b[pid * 68 + 64:pid * 68 + 68] = bytes([(k + pid) & 255, (k * 3 + pid) & 255, pid, 255 - pid])
            yield bytes(b)
    if sec == 'music':
        b = bytearray(n)
        for pid in range(64):
            for ch in range(4):
                b[pid * 4 + ch] = ((pid >> ch) & 1) << 7 | ((pid * 5 + ch * 17) & 127)
        yield bytes(b)
        yield bytes(((i * 37) & 255) | (128 if i % 4 == 3 else 0) for i in range(n))


def _malformed(rng, sec, tier):
    good = {'gfx': b'0123456789abcdef' * 8 + b'\n', 'map': b'00' * 128 + b'\n', 'gff': b'ab' * 128 + b'\n',
            'music': b'01 41424344\n', 'sfx': b'01100000' + b'0c750' * 32 + b'\n'}[sec]
    out = [[good], [good[:-1]], [good[:-1] + b'\r\n'], [good.upper()], [b'\n'], [b''], [good, b'\n', good],
           [good[:-2] + b'g\n'], [good[:10] + b' ' + good[11:]], [good[:-1] + b'  \n'], [b'  ' + good[2:]],
           [good[:-3] + b'\n'], [good + good], [b'zz\n'], [good[:4] + b'\x80' + good[5:]]]
    if sec == 'music':
        out += [[b'01 414243\n'], [b' 41424344\n'], [b'01  41424344\n'], [b'0141424344\n'], [b'1 41424344\n'],
                [b'07 c1c2c3c4\n'], [b'ff 41424344\n'], [b'01 4142434\n'], [b'01 41424344 \n']]
    if sec == 'sfx':
        out += [[good] * 65, [b'0110000' + b'0c750' * 32 + b'0\n'], [b'01100000' + b'4c750' * 32 + b'\n'],
                [b'01100000' + b'0c7f0' * 32 + b'\n'], [b'01100000' + b'0c75f' * 32 + b'\n'],
                [b'01100000' + b'3ff77' * 32 + b'\n']]
    return out


# the version number is part of both formats (second line of a .p8 file, byte 0x8000 of the .p8.png memory image);
# 0 is the first .p8.png format
_VERSIONS = [41, 0, 8, 1, 33, 255, 16]


def generate(tier, rng):
    for sec in SECS:
        prev = None
        for i, d in enumerate(_patterns(rng, sec, tier)):
            yield {'kind': 'write', 'sec': sec, 'data': lib.hx(d)}
            yield {'kind': 'read', 'sec': sec, 'data': lib.hx(d)}
            if prev is not None and i % 4 == 1:
                yield {'kind': 'write', 'sec': sec, 'data': lib.hx(d), 'prior': lib.hx(prev)}
            prev = d
        for lines in _malformed(rng, sec, tier):
            yield {'kind': 'malformed', 'sec': sec, 'lines': [lib.hx(l) for l in lines]}
    # sections with fewer rows than the full count (newer PICO-8 versions leave out the empty tail): one section
    # cut to k rows, the others missing from the file; then every section cut at once
    for si, sec in enumerate(SECS + ['label']):
        n = shortp8.ROWS[sec]
        for j, k in enumerate(sorted({0, 1, 2, n // 2, n - 1, n})):
            d = rng.randbytes(shortp8.SIZE[sec]) if (j + si) % 3 else b'\xff' * shortp8.SIZE[sec]
            yield {'kind': 'short', 'secs': {sec: [lib.hx(d), k]}, 'blank': (j + si) % 2 == 0,
                   'version': _VERSIONS[(j + 2 * si) % len(_VERSIONS)]}
    for j in range(4 if tier == 'quick' else 40):
        secs = {}
        for sec in SECS + ['label']:
            n = shortp8.ROWS[sec]
            if rng.random() < 0.85:
                secs[sec] = [lib.hx(rng.randbytes(shortp8.SIZE[sec])), rng.choice([0, 1, 2, n // 2, n - 1, n])]
        yield {'kind': 'short', 'secs': secs, 'blank': j % 2 == 1, 'version': _VERSIONS[j % len(_VERSIONS)]}
    # steganography: all (channel value, byte) pairs
    yield {'kind': 'stego'}
    td = os.path.join(lib.REPO, 'tests', 'testdata')
    for base in ('test_cart', 'test_gol', 'test_cart_memdump', 'test_cart_with_label', 'empty'):
        if os.path.exists(os.path.join(td, base + '.p8')):
            yield {'kind': 'file', 'base': base}


def corpus_cases():
    return []


def _cls(sec):
    from pico8.gfx.gfx import Gfx
    from pico8.gff.gff import Gff
    from pico8.map.map import Map
    from pico8.sfx.sfx import Sfx
    from pico8.music.music import Music
    return {'gfx': Gfx, 'map': Map, 'gff': Gff, 'music': Music, 'sfx': Sfx}[sec]


def _lines_str(lines):
    return '|'.join(lib.hx(l) for l in lines) if lines else '.'


def _p8_sections(path):
    """Raw section lines of a .p8 file, split the way the format says (header lines `__name__`)."""
    secs, cur = {}, None
    with open(path, 'rb') as fh:
        for line in fh.read().split(b'\n')[2:]:
            if line.startswith(b'__') and line.endswith(b'__') and line[2:-2].isalpha():
                cur = line[2:-2].decode()
                secs[cur] = []
            elif cur is not None:
                secs[cur].append(line + b'\n')
    return secs


def run_impl(case):
    k = case['kind']
    if k == 'write' and case.get('prior') is not None:
        # the section object is not fresh: it belongs to a cart, held other bytes, was rendered once, and then got the
        # bytes of the case through the cart's raw memory write (Game.write_cart_data writes the section's buffer from
        # outside the section class; so do Map.set_cell / set_rect_tiles for the lower half of the sprite sheet).  What
        # is rendered now must be the text of the bytes the section holds now.
        from pico8.game.game import Game
        START = {'gfx': 0, 'map': 0x2000, 'gff': 0x3000, 'music': 0x3100, 'sfx': 0x3200}
        try:
            g = Game.make_empty_game(version=8)
            s = getattr(g, case['sec'])
            s._data[:] = lib.unhx(case['prior'])
            list(s.to_lines())
            g.write_cart_data(lib.unhx(case['data']), START[case['sec']])
            if bytes(s._data) != lib.unhx(case['data']):
                return {'res': 'ERR raw-write-did-not-store'}
            return {'res': 'OK ' + _lines_str(list(s.to_lines()))}
        except Exception as e:  # noqa
            return {'res': 'ERR ' + lib.exc_name(e)}
    if k == 'write':
        cls = _cls(case['sec'])
        try:
            s = cls(data=lib.unhx(case['data']), version=8)
            return {'res': 'OK ' + _lines_str(list(s.to_lines()))}
        except Exception as e:  # noqa
            return {'res': 'ERR ' + lib.exc_name(e)}
    if k in ('read', 'malformed'):
        cls = _cls(case['sec'])
        lines = [lib.unhx(l) for l in case['lines']]
        try:
            s = cls.from_lines(lines, version=8)
            return {'res': 'OK ' + lib.hx(s._data)}
        except Exception as e:  # noqa
            return {'res': 'ERR ' + lib.exc_name(e)}
    if k == 'short':
        # a .p8 file with the first k rows of each listed section (reference text), read by the cart reader; the
        # cart is then saved as .p8.png and read again ("the same cart as .p8 and as .p8.png loads identically")
        from pico8.game.formatter.p8 import P8Formatter
        from pico8.game.formatter.p8png import P8PNGFormatter
        out = {'file': lib.hx(_short_file(case)), 'p8': None, 'png': None}
        try:
            g = P8Formatter.from_file(io.BytesIO(_short_file(case)))
            out['p8'] = {sec: (lib.hx(getattr(g, sec)._data) if getattr(g, sec) is not None else None)
                         for sec in SECS + ['label']}
            out['p8_version'] = g.version
        except Exception as e:  # noqa
            out['p8_err'] = lib.exc_name(e)
            return out
        try:
            fh = io.BytesIO()
            P8PNGFormatter.to_file(g, fh, filename='short.p8.png')
            g2 = P8PNGFormatter.from_file(io.BytesIO(fh.getvalue()), filename='short.p8.png')
            out['png'] = {sec: lib.hx(getattr(g2, sec)._data) for sec in SECS}
            out['png_version'] = g2.version
            # the memory image the written picture carries, read pixel by pixel (lib.png_pixels, our own PNG reader)
            out['png_version_byte'] = _version_byte(fh.getvalue())
        except Exception as e:  # noqa
            out['png_err'] = lib.exc_name(e)
        try:
            fh = io.BytesIO()
            P8Formatter.to_file(g, fh, filename='short.p8')
            out['p8_rewritten_header'] = lib.hx(b'\n'.join(fh.getvalue().split(b'\n')[:2]))
        except Exception as e:  # noqa
            out['p8w_err'] = lib.exc_name(e)
        return out
    if k == 'stego' and 'row' in case:
        # replay of one minimised pixel
        from pico8.game.formatter import p8png
        row = case['row']
        if row[0] == 'unpack':
            got = p8png.get_picodata_from_pngdata(1, 1, [bytearray(row[1])], {'planes': 4})[0]
            return {'rows': [('unpack', row[1], got)]}
        new = p8png.get_pngdata_from_picodata(bytes([row[2]]), [bytearray(row[1])], {'planes': 4})[0]
        return {'rows': [('pack', row[1], row[2], list(new))]}
    if k == 'stego':
        from pico8.game.formatter import p8png
        rows = []
        # unpack: each channel value 0..255 in each channel position, others fixed
        for ch in range(4):
            for v in range(256):
                px = [0x55, 0xaa, 0x0f, 0xf0]
                px[ch] = v
                got = p8png.get_picodata_from_pngdata(1, 1, [bytearray(px)], {'planes': 4})[0]
                rows.append(('unpack', px, got))
        # pack: every byte into pixels with every channel value on the diagonal
        for byte_ in range(256):
            for v in range(256):
                px = [v, (v * 3 + 1) & 255, 255 - v, (v + 128) & 255]
                new = p8png.get_pngdata_from_picodata(bytes([byte_]), [bytearray(px)], {'planes': 4})[0]
                rows.append(('pack', px, byte_, list(new)))
        return {'rows': rows}
    if k == 'file':
        from pico8.game import file as gfile
        td = os.path.join(lib.REPO, 'tests', 'testdata')
        p8 = os.path.join(td, case['base'] + '.p8')
        g = gfile.from_file(p8)
        secs = _p8_sections(p8)
        out = {'p8': {}, 'png': None, 'lines': {}}
        for sec in SECS + ['label']:
            if sec in secs:
                obj = getattr(g, sec)
                want = 129 if sec in ('gfx', 'label') else None
                lines = [l for l in secs[sec] if l.strip()]
                out['lines'][sec] = _lines_str(lines)
                out['p8'][sec] = lib.hx(obj._data) if obj is not None else None
        png = os.path.join(td, case['base'] + '.p8.png')
        if os.path.exists(png) and case['base'] != 'test_cart_with_label':
            g2 = gfile.from_file(png)
            out['png'] = {sec: lib.hx(getattr(g2, sec)._data) for sec in SECS}
        return out
    raise ValueError(k)


FILE_ORDER = ['gfx', 'label', 'gff', 'map', 'sfx', 'music']


def _version_byte(png_bytes):
    """byte 0x8000 of the memory image in the picture (two low bits of A R G B of pixel 0x8000), through the harness's own
    PNG reader; None when that reader is not available for this picture"""
    try:
        import pngref
        w, h, rows = pngref.read(png_bytes)
    except Exception:  # noqa
        return None
    i = 0x8000
    y, x = divmod(i, w)
    r, g, b, a = rows[y][4 * x:4 * x + 4]
    return ((a & 3) << 6) | ((r & 3) << 4) | ((g & 3) << 2) | (b & 3)


def _short_file(case):
    out = [b'pico-8 cartridge // http://www.pico-8.com\nversion %d\n__lua__\nx=1\n' % case.get('version', 41)]
    for sec in FILE_ORDER:
        if sec in case['lines']:
            out.append(b'__' + sec.encode() + b'__\n')
            out.extend(lib.unhx(l) for l in case['lines'][sec])
            if case.get('blank') and sec in ('gfx', 'label', 'music'):
                out.append(b'\n')
    return b''.join(out)


def model_requests(case, obs):
    k = case['kind']
    if k == 'write':
        return ['tl %s %s' % (case['sec'], case['data'])]
    if k in ('read', 'malformed'):
        return ['fl %s %s' % (case['sec'], '|'.join(case['lines']) if case['lines'] else '.')]
    return []


def compare(case, obs, answers):
    if case['kind'] in ('write', 'read', 'malformed'):
        if answers[0] != obs['res']:
            return '%s %s: implementation %s..., model %s...' % (case['kind'], case['sec'], obs['res'][:80], answers[0][:80])
    return None


SECID = {'gfx': 0, 'label': 0, 'map': 1, 'gff': 2, 'music': 3, 'sfx': 4}


def monitor_requests(case, obs):
    k = case['kind']
    if k == 'write':
        raised = obs['res'].startswith('ERR')
        return ['w %d %s %d %s' % (SECID[case['sec']], case['data'], 1 if raised else 0,
                                   '.' if raised else (obs['res'][3:] or '.'))]
    if k == 'read':
        raised = obs['res'].startswith('ERR')
        return ['r %d %s %d %s' % (SECID[case['sec']], case['data'], 1 if raised else 0,
                                   '-' if raised else obs['res'][3:])]
    if k == 'stego':
        reqs = []
        for row in obs['rows']:
            if row[0] == 'unpack':
                _, px, got = row
                reqs.append('unpack %d %d %d %d %d' % (px[0], px[1], px[2], px[3], got))
            else:
                _, px, byte_, new = row
                reqs.append('pack %d %d %d %d %d %d %d %d %d' % (px[0], px[1], px[2], px[3], byte_, new[0], new[1], new[2], new[3]))
        return reqs
    if k == 'short':
        # every region - also of the sections the file leaves out - must be the rows present + the empty default
        reqs = []
        v = case.get('version', 41)
        if obs['p8'] is not None:
            # the version number: what the .p8 header says is the cart's version, is byte 0x8000 of the written
            # picture's memory image, is read back from it, and is the header of the cart written as .p8 again
            ok = obs.get('p8_version') == v and \
                ('png_err' in obs or (obs.get('png_version') == v and obs.get('png_version_byte') in (v, None))) and \
                ('p8w_err' in obs or obs.get('p8_rewritten_header') ==
                 lib.hx(b'pico-8 cartridge // http://www.pico-8.com\nversion %d' % v))
            if not ok:
                reqs.append('f 0 . -')          # answers false
        for sec in SECS + ['label']:
            ls = '|'.join(case['lines'].get(sec, [])) or '.'
            if sec == 'label' and sec not in case['lines']:
                if obs['p8'] is not None and obs['p8']['label'] is not None:
                    reqs.append('f 0 . -')          # a label invented: answers false
                continue
            p8 = obs['p8'][sec] if obs['p8'] is not None else None
            reqs.append('f %d %s %s' % (SECID[sec], ls, p8 or '-'))
            if sec != 'label' and obs['p8'] is not None:
                reqs.append('f %d %s %s' % (SECID[sec], ls, (obs['png'] or {}).get(sec) or '-'))
        return reqs
    if k == 'file':
        reqs = []
        for sec, ls in obs['lines'].items():
            if obs['p8'].get(sec) is not None:
                reqs.append('f %d %s %s' % (SECID[sec], ls, obs['p8'][sec]))
            if obs['png'] and sec in obs['png']:
                reqs.append('f %d %s %s' % (SECID[sec], ls, obs['png'][sec]))
        return reqs
    return []


def minimize(case, obs, answers):
    if case['kind'] == 'stego' and 'row' not in case:
        for row, a in zip(obs['rows'], answers):
            if a != 'true':
                return {'kind': 'stego', 'row': [row[0], list(row[1])] + ([row[2]] if row[0] == 'pack' else [])}
    return case


def signature(case, obs):
    if case['kind'] == 'short':
        return 'C16/short/%s' % '+'.join(s for s in FILE_ORDER if s in case['secs'])
    return 'C16/%s/%s' % (case['kind'], case.get('sec', case.get('base', '')))


def what(case, obs):
    return 'section text / pixel encoding differs from the PICO-8 format (%s)' % signature(case, obs)


def describe(case, obs):
    if case['kind'] == 'short':
        d = {'kind': 'short', 'rows_kept': {s: v[1] for s, v in case['secs'].items()}, 'blank_lines': case.get('blank')}
        if obs:
            d['read_error'] = obs.get('p8_err')
            d['png_error'] = obs.get('png_err')
            if obs.get('p8'):
                d['region_sizes_read'] = {s: (len(v) // 2 if v else None) for s, v in obs['p8'].items()}
            d['file'] = lib.unhx(obs['file'])[:200].decode('latin-1') + '...'
        return d
    d = {k: (v if not isinstance(v, str) or len(v) < 80 else v[:64] + '...(%d bytes)' % (len(v) // 2)) for k, v in case.items() if k != 'lines'}
    if 'lines' in case:
        d['lines'] = [l[:48] + ('...' if len(l) > 48 else '') for l in case['lines'][:3]]
        d['n_lines'] = len(case['lines'])
    if obs and 'res' in obs:
        d['result'] = obs['res'][:60]
    return d


def nontrivial_key(case, obs):
    if case['kind'] in ('write', 'read'):
        if set(case['data']) - set('0'):
            return (case['kind'], case['sec'], hash(case['data']))
    if case['kind'] == 'short':
        return ('short', hash(str(sorted(case['secs'].items()))), case.get('blank'))
    if case['kind'] in ('file', 'stego', 'malformed'):
        return (case['kind'], case.get('sec'), case.get('base'), hash(str(case.get('lines'))))
    return None


def histogram_key(case, obs):
    if case['kind'] == 'short':
        return 'short:' + ('all' if len(case['secs']) > 1 else next(iter(case['secs'])))
    return case['kind'] + ':' + case.get('sec', '')


def run_cases(cases, ctx):
    mod = __import__('props.c16', fromlist=['x'])
    # phase A: the reference text of every read case comes from the extracted Spec (monitor runner)
    reads = [c for c in cases if c['kind'] == 'read' and 'lines' not in c]
    if reads and ctx.get('monitor_exe'):
        ans = lib.run_driver_parallel(ctx['monitor_exe'], ['spec %d %s' % (SECID[c['sec']], c['data']) for c in reads])
        for c, a in zip(reads, ans):
            c['lines'] = [] if a == '.' else a.split('|')
    # ... and so do the rows of every short case (the first k lines of the reference text of the region)
    shorts = [(c, sec) for c in cases if c['kind'] == 'short' and 'lines' not in c for sec in c['secs']]
    if shorts and ctx.get('monitor_exe'):
        ans = lib.run_driver_parallel(ctx['monitor_exe'], ['spec %d %s' % (SECID[sec], c['secs'][sec][0]) for c, sec in shorts])
        for (c, sec), a in zip(shorts, ans):
            ls = [] if a == '.' else a.split('|')
            c.setdefault('lines', {})[sec] = ls[:c['secs'][sec][1]]
    cases = [c for c in cases if c['kind'] != 'short' or 'lines' in c or not c['secs']]
    for c in cases:
        if c['kind'] == 'short':
            c.setdefault('lines', {})
    cases = [c for c in cases if c['kind'] != 'read' or 'lines' in c]
    res = lib.standard_run(mod, cases, ctx)
    n_stego = sum(len(lib_rows) for lib_rows in [[1] * (4 * 256 + 65536)] if any(c['kind'] == 'stego' for c in cases))
    res['evaluations'] += n_stego
    res['nontrivial'] += n_stego
    return res


def search(ctx, budget):
    import random
    rng = random.Random(ctx['seed'] + 1)
    mod = __import__('props.c16', fromlist=['x'])
    cases = [c for c in generate('quick', rng) if c['kind'] != 'malformed']
    ctx2 = {'monitor_exe': ctx.get('monitor_exe'), 'model_exe': None}
    r = run_cases(cases, ctx2)
    return {'violations': r['violations'], 'evaluations': r['evaluations']}
