"""C07 - the lexer agrees with the PICO-8/Lua lexical grammar on kinds, extents, values, positions."""
import re
import itertools
import random

import lib
from props import lexcommon as LC
from props import luagen

ID = 'C07'
GEN_FILES = ['T_lexer', 'T_pins_lexer', 'T_pins_luacontainer']
COQ_PROPERTY = 'theories/Properties/C07.vo'
COQ_EXTRA = ['theories/Proofs/LexerPins.vo', 'theories/Proofs/LuaContainerPins.vo']
MODEL = ('ExC07', 'c07_main.ml')
MONITOR = ('MonC07', 'c07_mon_main.ml')
RULE = ('one evaluation = one source text lexed by the implementation as a single chunk AND as per-line chunks (and, '
        'for a sample, at random split points), each token list compared field by field (class, data, line, column, '
        'quote / long-bracket delimiter, code, numeric value as exact fraction, get_token_count) with the extracted '
        'model, and holds_C07 / holds_C07_chunking (extracted) evaluated on the implementation\'s tokens against the '
        'reference grammar; streams: every ordered pair of token representatives (all symbols of the running table, '
        'names incl. glyph / keyword-prefixed, keywords, numeric forms, string forms, label, comments, ?, line breaks) '
        'with and without a blank; numeric forms x letter case x followers; all 3-byte strings over a 20-byte operator '
        'alphabet; multi-line strings/comments incl. unterminated; generated programs x layouts x LF/CRLF; malformed '
        'byte soup; each matcher scanner vs re.match of the running pattern; distinct+non-trivial = distinct sources '
        'of at least two tokens or raising an error')
ASSUMPTIONS = [
    'observation point Lua.from_lines(...).tokens is taken right after Lexer.process_lines (the parser stage of '
    'from_lines is skipped so that token lists of unparseable sources are observed too)',
    'numeric values: the implementation returns a Python float; it must be the correctly rounded double of the model\'s '
    'exact rational (correspondence) and within relative error 2^-53 of the reference value (monitor); numerals in the '
    'generated inputs have fewer than 16 significant digits',
    'model_lex takes arbitrary chunk lists; the .p8 / .p8.png readers only produce chunks ending after a line feed',
]
PARTIAL = ('Nothing of the statement is left unproved for the model: C07_lex_agrees (single chunk), C07_chunking and '
           'C07_lex_agrees_chunks (per-line chunks) hold for every byte string. Limits: sources the reference grammar '
           'leaves undefined (Spec/LuaLex.v header: a CR not followed by LF, --[==[ comments, \\z and unknown escapes, 1e+5, '
           'numeral runs in the sense of Lua 5.2\'s read_numeral - hexadecimal digits, dots, exponent letters and signs - that are '
           'no numeral such as 1..2, 9do, 1end, 0x1p4 [1then, 3x, 0x1g ARE in the domain: number, then keyword / name], '
           'later compound operators, raw line breaks in quoted strings) are outside every claim; '
           'get_token_count is compared between model and implementation only (the counting rule is not part of the '
           'lexical grammar).')
CLAIM = dict(
    text=("Theorems (Coq, closed under the global context) about an executable model of Lexer._process_token/"
          "_process_line/process_lines, Token.code, TokString.value, TokNumber.value whose ordered matcher table, symbol "
          "literals, keyword list and escape tables are regenerated from lexer.py on every run: C07_lex_agrees - for EVERY "
          "byte string given as one chunk, if the reference grammar Spec/LuaLex.v (Lua 5.2 section 3.1 + PICO-8 extensions) "
          "is defined on it, the model lexes it and its token list passes holds_C07, the same predicate the extracted "
          "monitor applies to the implementation (same boundaries, class, decoded string bytes, exact numeric value, "
          "quote / bracket level, line, column); C07_chunking + C07_lex_agrees_chunks (the same for per-line chunks); C07_chunking_sep_newline / C07_line_feed_chunk (a line feed after a text of the dialect may come as a chunk of its own: same tokens, positions, error); C07_step_agrees (one token, every first-byte class); "
          "C07_symbols_longest (first match in regenerated table order = longest match) and C07_symbols_same_set; "
          "C07_number_value (exact, all numeral forms incl. 0XA / 0x.8); C07_cover and C07_positions for any chunking, "
          "C07_positions_lua. Tie: extracted model vs implementation field by field (token lists, code, value, string "
          "value, token count; each matcher scanner vs re.match of the running pattern) and the extracted monitor on the "
          "implementation's tokens, ~110k evaluations per quick run. Six lexer defects found by this check were fixed "
          "(findings/known_C07.json). C07_chunking (same tokens / same error whether the text arrives as one chunk or split "
          "after line feeds) is proved for every input: no matcher of the regenerated table consumes or looks past a line "
          "feed, the multi-line scanners are compositional at one."),
    note=("Trusted: Coq kernel+VM, table dump gen/kernels_lexer.py (import-based; symbol patterns checked to be pure "
          "literals with re._parser; other patterns pinned by source text), hand-written scanners for the pinned regex "
          "sources (each compared with re.match on the running pattern), ExtrOcamlBasic extraction, OCaml glue, the "
          "reference grammar Spec/LuaLex.v as a rendering of Lua 5.2 section 3.1 + PICO-8 extensions (inputs it leaves "
          "undefined are outside the claim)."),
    technique='Coq proof over regenerated tables + extracted-model correspondence + extracted reference-lexer monitor',
    design_ref='8 C07')
CASE_TIMEOUT = 600


# ------------------------------------------------------------------ generators
OPALPHA = b'+-*/%^#=~<>!&|\\.:[]a'      # 20 bytes


def numeric_forms():
    out = []
    ints = [b'', b'0', b'1', b'12', b'007']
    fracs = [b'', b'.', b'.5', b'.25', b'.0']
    exps = [b'', b'e5', b'E5', b'e-3', b'E-2', b'e+5', b'e', b'e-', b'E0']
    for i, f, e in itertools.product(ints, fracs, exps):
        if i or f:
            out.append(i + f + e)
    for pre in (b'0x', b'0X'):
        for i, f in itertools.product([b'', b'1', b'f', b'F', b'1f', b'b', b'B1', b'e', b'1e2', b'7fff'],
                                      [b'', b'.', b'.8', b'.b', b'.F', b'.8p1', b'p4']):
            out.append(pre + i + f)
    for pre in (b'0b', b'0B'):
        for i, f in itertools.product([b'', b'1', b'0', b'101', b'12', b'1e1'], [b'', b'.', b'.1', b'.01', b'.2']):
            out.append(pre + i + f)
    res = []
    for n in out:
        for tail in (b'', b' ', b'x', b'.', b'..', b'..2', b'\x80', b'-1', b'e', b')'):
            res.append(n + tail)
    return res


def multiline_forms():
    out = []
    bodies = [b'', b'a', b'a\nb', b'\n', b'\na', b'\r\na\r\n', b'a\rb', b']', b']=', b'--', b'"', b'\\']
    for b in bodies:
        for lvl in range(4):
            eq = b'=' * lvl
            out.append(b'x=[' + eq + b'[' + b + b']' + eq + b']\ny=1\n')
            out.append(b'[' + eq + b'[' + b)                       # unterminated
        out.append(b'--[[' + b + b']]x=1\n')
        out.append(b'a --[[' + b + b']] b\n')
        out.append(b'--[[' + b)                                   # unterminated
        out.append(b'--[==[' + b + b']==]\nz\n')
        for q in (b'"', b"'"):
            out.append(b's=' + q + b.replace(q, b'') + q + b' t=2\n')
            out.append(q + b)                                       # unterminated (unless body closes it)
            out.append(b's=' + q + b'a\\' + b + q + b'\n')
    escapes = [b'\\n', b'\\a', b'\\\\', b'\\"', b"\\'", b'\\0', b'\\1', b'\\12', b'\\123', b'\\1234', b'\\255',
               b'\\256', b'\\999', b'\\x41', b'\\x4', b'\\xg1', b'\\z', b'\\q', b'\\\n', b'\\\r\n', b'\\\r', b'\\*',
               b'\\#', b'\\-', b'\\|', b'\\+', b'\\^', b'\\e', b'\\014', b'\\0001']
    for e1 in escapes:
        for q in (b'"', b"'"):
            for follow in (b'', b'1', b'a', b'f', q * 0):
                out.append(b'x=' + q + e1 + follow + q + b'\n')
            for e2 in escapes[:12]:
                out.append(q + e1 + e2 + q)
    return out


def soup(rng, n):
    alpha = [b'a', b'1', b' ', b'\n', b'\r', b'\t', b'\x0b', b'\x0c', b'!', b'`', b'\x00', b'\x7f', b'"', b"'", b'[',
             b']', b'=', b'-', b'.', b'\\', b'::', b'end', b'\x80', b'@', b'$', b'?', b'{', b'0x', b'e', b'#']
    for _ in range(n):
        yield b''.join(rng.choice(alpha) for _ in range(rng.randrange(1, 9)))


def generate(tier, rng):
    reps = LC.representatives()
    srcs = []
    for a in reps:
        for b in reps:
            srcs.append(a + b)
            srcs.append(a + b' ' + b)
    yield {'kind': 'pairs', 'srcs': srcs}
    yield {'kind': 'numeric', 'srcs': numeric_forms()}
    yield {'kind': 'ops3', 'srcs': [bytes(t) for t in itertools.product(OPALPHA, repeat=3)]}
    yield {'kind': 'multiline', 'srcs': multiline_forms()}
    # every control byte (and a few high bytes) inside a line comment, a quoted string, a long string and a block
    # comment: content of the token, never a line end (only LF / CR are) - whichever route the text takes
    ctl = []
    for c in list(range(0, 10)) + [11, 12] + list(range(14, 32)) + [0x7f, 0x80, 0x85, 0xa0, 0xff]:
        b = bytes([c])
        ctl += [b'x=1 -- a' + b + b"y='2\nz=3\n", b'x=1 // ' + b + b'"\\65"\nz=3', b's="a' + b + b'b" t=1\n',
                b'x=[[a' + b + b'b]]\ny=1\n', b'--[[a' + b + b'b]]x=1\n']
    yield {'kind': 'control-bytes', 'srcs': ctl}
    yield {'kind': 'soup', 'srcs': list(soup(rng, 1500 if tier == 'quick' else 30000))}
    nprog = 300 if tier == 'quick' else 5000
    progs = []
    for i in range(nprog):
        progs.append(luagen.program_source(rng))
    # lone carriage returns and LF CR pairs as line ends (Lua counts each as one line break)
    for i in range(20 if tier == 'quick' else 200):
        progs.append(luagen.program_source(rng, nstat=2, eol=rng.choice([b'\r', b'\n\r'])))
    yield {'kind': 'programs', 'srcs': progs, 'random_splits': True}
    if tier != 'quick':
        alpha = b'+-*/%^#=~<>!&|\\.:[]a1 \n"\'{}(),;xe0_?@$\x80-'[:40]
        for a in alpha:
            yield {'kind': 'ops4', 'srcs': [bytes((a,) + t) for t in itertools.product(alpha, repeat=3)]}
    yield {'kind': 'regex', 'srcs': []}


def corpus_cases():
    # minimised witnesses of the known findings, and of past model/spec corrections
    yield {'kind': 'corpus', 'srcs': [
        b'end\x80', b'x=0XA', b'x=0B11', b'x=0x.8', b'x="\\x41"', b'x=[[\nk]]', b'a\rb', b'--c\r\nx', b'a\n\rb',
        b'x=[[a\r\nb]]', b'x="a\\\r\nb"', b'a>>>=b', b'1..2', b'x=1e+5', b'--[==[c]==]', b't[ [[k]] ]',
        b'0b1.1', b'?"hi"\n', b'a~=b', b'::l:: goto l', b'"\\256"', b'"', b'[[', b'--[[', b'\x0c',
        b'\xef\xbb\xbf = {}\n', b'x=\xef\xbb\xbf+1\n\xef\xbb\xbfy=2', b'\xff\xfe=1 \xfe\xff=2\n', b'a\xef\xbb\xbf=1',
        # `#` is the length operator wherever it stands; `include` is an ordinary name
        b'total =\n  #include + #extra\nprint(total)\n', b'n=\n#include\n', b'#include x\n', b'x=1 #include y\n',
        # a numeral ends where Lua 5.2's read_numeral stops: a keyword / name may follow it directly (9do, 1and stay
        # malformed: d and a are hexadecimal digits)
        b'if x<1then y=2 end', b'3x', b'0x1g', b'y=x>2or 1', b'for i=1,9 do end']}


# ------------------------------------------------------------------ implementation
def regex_rows(rng):
    """each single-line matcher of the running table vs the model's scanner, on strings built from the
    pattern's own alphabet"""
    from pico8.lua import lexer
    rows = []
    alpha = [b'-', b'/', b' ', b'\t', b'\r', b'\n', b'0', b'1', b'2', b'9', b'x', b'X', b'b', b'B', b'a', b'f', b'F', b'g',
             b'.', b'e', b'E', b':', b'_', b'\x80', b'\xff', b'?', b'=', b'+', b'<', b'>', b'd', b'o', b'n']
    for idx, (pat, cls) in enumerate(lexer._TOKEN_MATCHERS):
        seeds = set()
        lit = LC.unescape_symbol(pat.pattern) if cls is lexer.TokSymbol else None
        base = lit if lit else pat.pattern.replace(b'\\b', b'')
        for k in range(0, len(base) + 1):
            for tail in (b'', b'a', b'_', b'1', b' ', b'\x80', b'.', b'=', b'..', b'e', b'-'):
                seeds.add(base[:k] + tail)
                seeds.add(base + tail)
        if cls is not lexer.TokSymbol and cls is not lexer.TokKeyword:
            for n in (1, 2, 3):
                for t in itertools.product(alpha[:12] if idx < 6 else alpha, repeat=n):
                    if n < 3 or rng.random() < 0.08:
                        seeds.add(b''.join(t))
            for _ in range(400):
                seeds.add(b''.join(rng.choice(alpha) for _ in range(rng.randrange(3, 10))))
            if cls is lexer.TokNumber:
                for s in numeric_forms():
                    seeds.add(s)
        for s in sorted(seeds):
            m = pat.match(s)
            rows.append((idx, s, m.group(0) if m else None))
    return rows


_SECTION_LINE = re.compile(br'(?m)^__\w+__$')


def p8file_chunks(src):
    """The chunks the .p8 reader hands to the lexer for a cart file whose __lua__ section holds src (the statement's
    "per-line chunks (.p8 path)", taken from the reader itself rather than from our own line splitter).
    -> list of chunks | {'err': name} | None when src cannot be the body of a __lua__ section (a line that is a
    section header, an #include line)"""
    if _SECTION_LINE.search(src) or b'#include' in src or src.startswith(b'__'):
        return None
    import io
    try:
        from pico8.lua import lua
        from pico8.game.formatter import p8
        text = lua.p8scii_to_unicode(src)
        data = p8.HEADER_TITLE_STR + b'version 8\n__lua__\n' + text.encode('utf-8')
        d = p8._get_raw_data_from_p8_file(io.BytesIO(data))
        return list(d.section_lines.get('lua', []))
    except Exception as e:  # noqa
        return {'err': 'p8-reader-' + lib.exc_name(e)}


def _tok_view(r):
    if 'err' in r:
        return ('err', r['err'])
    return [(t['cls'], t['data'], t['line'], t['col'], t.get('sval'), t.get('value')) for t in r['toks']]


def run_impl_src(src, random_split_rng=None):
    one = LC.lex_impl([src])
    lines = LC.lex_impl(luagen.split_lines(src))
    row = {'src': src, 'one': one, 'lines': lines}
    chunks = p8file_chunks(src)
    if chunks is not None:
        # the .p8 path as a cart file takes it: the reader's own cutting into lines and its text decoding
        row['p8file'] = chunks if isinstance(chunks, dict) else LC.lex_impl(chunks)
    if random_split_rng is not None and len(src) > 1:
        cuts = sorted(set(random_split_rng.randrange(1, len(src)) for _ in range(random_split_rng.randrange(1, 5))))
        chunks = [src[a:b] for a, b in zip([0] + cuts, cuts + [len(src)])]
        row['split_chunks'] = chunks
        row['split'] = LC.lex_impl(chunks)
    return row


def _classify(src, ans, impl):
    """signature of a monitor violation: deterministic classifier on the (shrunk) source and the first
    differing token reported by the monitor  (false:<idx>:<field>:<ref kind>:<ref raw>)"""
    if ans.startswith('false:'):
        _, idx, fld, kind, raw = ans.split(':')
        idx, fld = int(idx), int(fld)
        raw = lib.unhx(raw) if raw != '-' else b''
        kind = LC.KIND_NAME.get(int(kind), '-')[3:].lower() if kind != '-' else '-'
        itok = impl['toks'][idx] if 'toks' in impl and idx < len(impl['toks']) else None
        if fld == 1:
            if kind == 'name' and itok and itok['cls'] == 'TokKeyword' and len(raw) > len(itok['data']) \
                    and raw[len(itok['data'])] >= 0x80:
                return 'C07/kind/keyword-before-glyph-byte'
            return 'C07/kind/%s/%s' % (kind, raw[:6].hex())
        if fld == 4:
            if raw[:1] == b'[':
                body = raw[raw.index(b'[', 1) + 1:]
                if body[:1] in (b'\n', b'\r'):
                    return 'C07/string-value/long-bracket-first-newline'
                if b'\r' in body:
                    return 'C07/string-value/long-bracket-cr'
                return 'C07/string-value/long-bracket/%s' % raw[:8].hex()
            if b'\\x' in raw:
                return 'C07/string-value/hex-escape'
            if b'\\\r' in raw:
                return 'C07/string-value/backslash-cr'
            return 'C07/string-value/quoted/%s' % raw[:8].hex()
        if fld == 5:
            return 'C07/string-quote/%s' % raw[:6].hex()
        if fld == 7:
            low = raw[:2]
            if low in (b'0X', b'0B'):
                return 'C07/number-value/uppercase-prefix'
            if raw[:3] in (b'0x.', b'0b.'):
                return 'C07/number-value/empty-integer-part'
            return 'C07/number-value/%s' % raw[:8].hex()
        if fld == 6:
            if kind == 'comment' and itok and itok['data'] == raw + b'\r':
                return 'C07/extent/comment-includes-cr'
            if kind == 'newline' and raw == b'\n\r':
                return 'C07/extent/newline-lf-cr'
            return 'C07/extent/%s/%s' % (kind, raw[:6].hex())
        if fld in (2, 3):
            # a carriage return that is not followed by a line feed, before this token?
            pre = b''
            if 'toks' in impl:
                # extent of the preceding tokens = source up to the reference token; recover from positions:
                pre = src
            lone = any(c == 13 and (i + 1 >= len(pre) or pre[i + 1] != 10) for i, c in enumerate(pre))
            if lone:
                return 'C07/position/lone-cr'
            return 'C07/position/%s' % ('line' if fld == 2 else 'column')
        return 'C07/token-list-length'
    if ans == 'false' and 'err' in impl:
        return 'C07/error/%s' % impl['err']
    return 'C07/other/' + ans[:20]


WHAT = {
    'C07/p8-file-path': 'the tokens of a .p8 cart file whose __lua__ section holds this source differ from the tokens of the same source given line by line (the .p8 reader cuts or decodes the section differently)',
    'C07/kind/keyword-before-glyph-byte': 'a keyword directly followed by a P8SCII byte >= 0x80 (e.g. end\\x80) is lexed as keyword + name instead of one identifier (bytes-mode \\b)',
    'C07/number-value/uppercase-prefix': 'TokNumber.value raises ValueError for numerals with an upper-case prefix (0XA, 0B11)',
    'C07/number-value/empty-integer-part': 'TokNumber.value raises ValueError for 0x.8 / 0b.1 (empty integer part)',
    'C07/string-value/hex-escape': 'the escape \\xhh is not decoded in quoted strings ("\\x41" denotes 4 bytes instead of "A")',
    'C07/string-value/long-bracket-first-newline': 'a long-bracket string keeps the line break that directly follows the opening bracket',
    'C07/string-value/long-bracket-cr': 'line-break sequences containing a carriage return inside a long-bracket string are not normalised to a line feed',
    'C07/string-value/backslash-cr': 'backslash + carriage return (CRLF line continuation) inside a quoted string is kept as backslash, CR, LF instead of one line feed',
    'C07/extent/comment-includes-cr': 'a line comment swallows the carriage return of a CRLF line end (the newline token is then LF only)',
    'C07/extent/newline-lf-cr': 'the line break LF CR is reported as two newline tokens',
    'C07/position/lone-cr': 'a carriage return not followed by a line feed is a newline token but does not advance the line counter',
}


def what_of(sig):
    return WHAT.get(sig, 'lexer deviates from the reference grammar (%s)' % sig)


def _mon_reqs(row):
    reqs = []
    hs = lib.hx(row['src'])
    for key in ('one', 'lines'):
        r = row[key]
        if 'err' in r:
            reqs.append('err ' + hs)
        else:
            reqs.append('hold %s %s' % (hs, LC.enc_itoks(r['toks'])))
    if 'err' not in row['one']:
        reqs.append('count ' + hs)
    a, b = row['one'], row['lines']
    if 'err' in a or 'err' in b:
        reqs.append('true' if ('err' in a and 'err' in b and a['err'] == b['err']) else 'false')
    else:
        reqs.append('same %s %s' % (LC.enc_itoks(a['toks']), LC.enc_itoks(b['toks'])))
    return reqs


def _eval_many(mon, srcs):
    return _eval_many_rows(mon, [run_impl_src(x) for x in srcs])


def shrink(mon, src, sig):
    """greedy delta debugging on bytes, keeping the signature"""
    cur = src
    n = 2
    rounds = 0
    while len(cur) > 1 and rounds < 40:
        rounds += 1
        size = max(1, len(cur) // n)
        cands = [cur[:i] + cur[i + size:] for i in range(0, len(cur), size)]
        cands = [c for c in cands if c and c != cur]
        res = _eval_many(mon, cands)
        hit = [r['src'] for s, r in res if s == sig]
        if hit:
            cur = min(hit, key=len)
            n = max(n - 1, 2)
        else:
            if size == 1:
                break
            n = min(len(cur), n * 2)
    return cur


def run_cases(cases, ctx):
    rng = random.Random(ctx['seed'] + 7)
    model, mon = ctx.get('model_exe'), ctx.get('monitor_exe')
    disagreements, violations = [], []
    seen, nontrivial = set(), set()
    hist = {}
    n_eval = 0
    samples = []
    for case in cases:
        kind = case['kind']
        if kind == 'regex':
            rows = regex_rows(rng)
            hist['regex-scanner-cases'] = len(rows)
            if model:
                ans = lib.run_driver_parallel(model, ['re %d %s' % (i, lib.hx(s)) for i, s, _ in rows])
                for (i, s, m), a in zip(rows, ans):
                    exp = 'N' if m is None else 'M ' + lib.hx(m)
                    if a != exp:
                        disagreements.append({'case': {'kind': 'regex', 'matcher': i, 'subject': s.hex()},
                                              'summary': 'matcher %d on %r' % (i, s),
                                              'difference': 're gives %s, scanner %s' % (exp, a)})
            n_eval += len(rows)
            continue
        srcs = [s if isinstance(s, bytes) else bytes.fromhex(s) for s in case['srcs']]
        srcs = [s for s in dict.fromkeys(srcs) if s not in seen]
        seen.update(srcs)
        rows = [run_impl_src(s, rng if case.get('random_splits') else None) for s in srcs]
        hist[kind] = hist.get(kind, 0) + len(rows)
        n_eval += len(rows)
        for r in rows:
            one = r['one']
            if 'err' in one:
                hist['impl-' + one['err']] = hist.get('impl-' + one['err'], 0) + 1
                nontrivial.add(r['src'])
            elif len(one['toks']) >= 2:
                nontrivial.add(r['src'])
        if rows and len(samples) < 6:
            r = rows[len(rows) // 2]
            samples.append({'kind': kind, 'src': r['src'][:60].hex(),
                            'tokens': len(r['one'].get('toks', [])), 'error': r['one'].get('err')})
        # ---- correspondence
        if model:
            reqs, meta = [], []
            for r in rows:
                reqs.append('lex ' + LC.enc_chunks([r['src']]))
                meta.append((r, 'one', r['src']))
                reqs.append('lex ' + LC.enc_chunks(luagen.split_lines(r['src'])))
                meta.append((r, 'lines', r['src']))
                if 'split' in r:
                    reqs.append('lex ' + LC.enc_chunks(r['split_chunks']))
                    meta.append((r, 'split', None))
            ans = lib.run_driver_parallel(model, reqs)
            for (r, key, ext), a in zip(meta, ans):
                d = LC.compare_lex(r[key], a, check_extent_of=ext)
                if d is not None and len(disagreements) < 50:
                    disagreements.append({'case': {'kind': 'corpus', 'srcs': [r['src'].hex()]},
                                          'summary': {'src': r['src'][:80].hex(), 'chunking': key}, 'difference': d})
        # ---- monitor
        if mon:
            res = _eval_many_rows(mon, rows)
            for sig, r in res:
                if sig is not None:
                    violations.append((sig, r['src']))
    # ---- shrink the first correspondence disagreements (the replay file of a broken correspondence then names a
    # minimal source on which implementation and model differ)
    if model:
        done = 0
        for d in disagreements:
            srcs = d.get('case', {}).get('srcs') or []
            if d['case'].get('kind') != 'corpus' or not srcs or done >= 3:
                continue
            small = shrink_disagreement(model, bytes.fromhex(srcs[0]))
            d['case'] = {'kind': 'corpus', 'srcs': [small.hex()]}
            d['summary'] = {'shrunk_source': small.hex(), 'shrunk_source_repr': repr(small), 'original': d.get('summary')}
            one = LC.lex_impl([small])
            a = lib.run_driver(model, ['lex ' + LC.enc_chunks([small])])[0]
            d['difference'] = 'on %r: %s' % (small, LC.compare_lex(one, a, check_extent_of=small) or
                                             LC.compare_lex(LC.lex_impl(luagen.split_lines(small)),
                                                            lib.run_driver(model, ['lex ' + LC.enc_chunks(luagen.split_lines(small))])[0]))
            done += 1
    # ---- thorough: a shard of the sources is also evaluated by vm_compute inside Coq and compared with the
    # extracted runner (cross-check of extraction + OCaml glue)
    if model and ctx.get('tier') == 'thorough':
        d = coq_shard(model, sorted(seen, key=lambda x: (len(x), x))[:4000:10][:300])
        hist['coq-vm-shard-cases'] = d['cases']
        if d['error']:
            disagreements.append({'case': {'kind': 'corpus', 'srcs': []}, 'summary': 'in-Coq evaluation shard',
                                  'difference': d['error']})
    # one violation per signature: the shortest witness, shrunk
    out_v = []
    by_sig = {}
    for sig, src in violations:
        if sig not in by_sig or len(src) < len(by_sig[sig]):
            by_sig[sig] = src
    hist['monitor-violating-sources'] = len(violations)
    for sig, src in sorted(by_sig.items()):
        small = shrink(mon, src, sig) if mon else src
        out_v.append({'case': {'kind': 'corpus', 'srcs': [small.hex()]}, 'signature': sig, 'what': what_of(sig),
                      'summary': {'source': small.hex(), 'source_repr': repr(small), 'sources_with_this_signature':
                                  sum(1 for s, _ in violations if s == sig)},
                      'observed': [repr(LC.lex_impl([small]))[:400]]})
    return {'evaluations': n_eval, 'nontrivial': len(nontrivial), 'rule': RULE, 'samples': samples,
            'disagreements': disagreements, 'violations': out_v, 'histogram': hist, 'exhaustive': False}


def _disagrees(model, src):
    reqs = ['lex ' + LC.enc_chunks([src]), 'lex ' + LC.enc_chunks(luagen.split_lines(src))]
    ans = lib.run_driver(model, reqs)
    return LC.compare_lex(LC.lex_impl([src]), ans[0]) is not None or \
        LC.compare_lex(LC.lex_impl(luagen.split_lines(src)), ans[1]) is not None


def shrink_disagreement(model, src):
    """greedy delta debugging on bytes, keeping 'implementation and model differ'"""
    cur = src
    n = 2
    rounds = 0
    while len(cur) > 1 and rounds < 60:
        rounds += 1
        size = max(1, len(cur) // n)
        hit = None
        for i in range(0, len(cur), size):
            c = cur[:i] + cur[i + size:]
            if c and _disagrees(model, c):
                hit = c
                break
        if hit is not None:
            cur = hit
            n = max(n - 1, 2)
        else:
            if size == 1:
                break
            n = min(len(cur), n * 2)
    return cur


def coq_shard(model, srcs):
    """write rocq/cases/cases_c07.v: for every source, vm_compute of the model inside Coq must equal what the
    extracted OCaml runner printed"""
    import os
    srcs = [x for x in srcs if len(x) <= 40]
    ans = lib.run_driver(model, ['lex ' + LC.enc_chunks([x]) for x in srcs])

    def zl(b):
        return '[' + '; '.join(str(c) for c in b) + ']'
    kinds = {'TokSpace': 0, 'TokNewline': 1, 'TokComment': 2, 'TokString': 3, 'TokNumber': 4, 'TokName': 5,
             'TokLabel': 6, 'TokKeyword': 7, 'TokSymbol': 8}
    rows = []
    for x, a in zip(srcs, ans):
        if a.startswith('OK '):
            toks = LC.parse_model_toks(a.split(' ', 2)[2])
            exp = 'Some [' + '; '.join('(%d, %s, %d, %d, %s, %s)' % (
                kinds[t['cls']], zl(t['data']), t['line'], t['col'], zl(t['code']), zl(t['ext'])) for t in toks) + ']'
        elif a.startswith('ERR '):
            exp = 'None'
        else:
            return {'cases': 0, 'error': 'runner: ' + a[:100]}
        rows.append('(%s, %s)' % (zl(x), exp))
    text = ('From PV Require Import Base.Prelude Generated.T_lexer Model.Lexer Proofs.LexerSpec.\n'
            'Definition render (s : list Z) := match model_lex [s] with\n'
            '  | Ok ts => Some (map (fun t => (kind_code (t_kind t), t_data t, t_line t, t_col t, tok_code t, t_ext t)) ts)\n'
            '  | Err _ => None end.\n'
            'Definition cases : list (list Z * option (list (Z * list Z * Z * Z * list Z * list Z))) :=\n  [%s].\n'
            'Fixpoint check (l : list (list Z * option (list (Z * list Z * Z * Z * list Z * list Z)))) : Prop :=\n'
            '  match l with [] => True | (s, e) :: r => render s = e /\\ check r end.\n'
            'Lemma shard_agrees : check cases.\nProof. vm_compute. repeat split. Qed.\n') % ';\n   '.join(rows)
    d = os.path.join(lib.ROCQ, 'cases')
    os.makedirs(d, exist_ok=True)
    with open(os.path.join(d, 'cases_c07.v'), 'w') as fh:
        fh.write(text)
    rc, out, err = lib.sh(['timeout', '600', 'coqc', '-Q', 'theories', 'PV', 'cases/cases_c07.v'], cwd=lib.ROCQ, timeout=630)
    return {'cases': len(rows), 'error': None if rc == 0 else 'coqc cases_c07.v failed: ' + (out + err)[-400:]}


def _eval_many_rows(mon, rows):
    reqs, spans = [], []
    for r in rows:
        q = _mon_reqs(r)
        q = [x if x not in ('true', 'false') else 'same . .' if x == 'true' else 'same . 0:-:0:0:-:N:_:-' for x in q]
        spans.append((len(reqs), len(reqs) + len(q)))
        reqs.extend(q)
    ans = lib.run_driver_parallel(mon, reqs)
    out = []
    for r, (a, b) in zip(rows, spans):
        sig = None
        labs = ['one', 'lines'] + (['count'] if 'err' not in r['one'] else []) + ['chunking']
        for lab, x in zip(labs, ans[a:b]):
            if lab == 'count':
                if x != 'NONE' and x != str(r['one']['count']):
                    sig = 'C07/token-count'
                    break
                continue
            if x != 'true':
                sig = 'C07/chunking' if lab == 'chunking' else _classify(r['src'], x, r[lab])
                break
        if sig is None and 'p8file' in r and _tok_view(r['p8file']) != _tok_view(r['lines']):
            # the per-line route has just been judged against the reference grammar; a cart file with this code
            # gives another token list
            sig = 'C07/p8-file-path'
        out.append((sig, r))
    return out


def search(ctx, budget):
    """a proof obligation or the correspondence broke: look for an input on which the implementation
    violates the property (monitor only), thorough-tier generators under a time box"""
    import time
    t0 = time.time()
    rng = random.Random(ctx['seed'] + 1)
    total, viol = 0, []
    for case in generate('thorough', rng):
        if time.time() - t0 > budget:
            break
        if case['kind'] == 'regex':
            continue
        r = run_cases([case], {'seed': ctx['seed'] + 1, 'model_exe': None, 'monitor_exe': ctx.get('monitor_exe')})
        total += r['evaluations']
        viol.extend(r['violations'])
    return {'violations': viol, 'evaluations': total}
