"""Shared by C01 and C19: observing LuaMinifyTokenWriter (writer API, token lists without the parser,
`p8tool luamin`, `p8tool build --lua-minify`), requests for the extracted model (ExC01) and the
extracted monitor (MonC01), case generators (programs x layouts x configurations, the adjacency
enumerator, header shapes)."""
import contextlib
import io
import os
import random

import lib
from props import luagen

WORK = os.path.join(lib.VERIF, 'work', 'min')
_counter = [0]

CONFIGS = ['default', 'keep-all', 'keep-file']
KEEP_FILE = b'# names kept\nfoo\n  player \na\nb\n\nx1\n'


def path(ext):
    os.makedirs(WORK, exist_ok=True)
    _counter[0] += 1
    return os.path.join(WORK, 'm%d_%d%s' % (os.getpid(), _counter[0], ext))


def cleanup():
    import shutil
    shutil.rmtree(WORK, ignore_errors=True)


@contextlib.contextmanager
def quiet(sink):
    from pico8 import util
    ow, oe = util._write_stream, util._error_stream
    util._write_stream = util._error_stream = sink
    try:
        with contextlib.redirect_stdout(sink), contextlib.redirect_stderr(sink):
            yield
    finally:
        util._write_stream, util._error_stream = ow, oe


def cfg_fields(case):
    """-> (keep_all 0/1, keep file bytes or None)"""
    c = case.get('cfg', 'default')
    if c == 'keep-all':
        return 1, None
    if c == 'keep-file':
        return 0, lib.unhx(case['kf']) if case.get('kf') else KEEP_FILE
    return 0, None


def lex_only(chunks, version=None):
    """picotool's lexer without the parser -> Lua object (tokens, get_token_count, get_title...)"""
    from pico8.lua import lua
    l = lua.Lua(lib.lua_version(chunks) if version is None else version)
    l._lexer.process_lines(list(chunks))
    return l


def split_lines(src):
    return luagen.split_lines(src)


def _stats(text, version=None):
    """what `stats` derives from a Lua text: (token count, title, byline) with picotool's own lexer"""
    try:
        l = lex_only(split_lines(text), version)
        return l.get_token_count(), l.get_title(), l.get_byline()
    except Exception as e:  # noqa
        return 'ERR ' + lib.exc_name(e), None, None


_PROG = [0]


def run_impl(case):
    """kinds: prog (source through Lua.from_lines + to_lines), toks (source through the lexer only, writer
    constructed on the token list: token sequences no program contains), cli-luamin, cli-build"""
    from pico8.lua import lua
    kind = case['kind']
    src = lib.unhx(case['src'])
    # the cart's data version: input and output are counted under the same one (luamin keeps the version)
    ver = lib.lua_version(src)
    ka, kf = cfg_fields(case)
    files = []
    kpath = None
    if kf is not None:
        kpath = path('.txt')
        with open(kpath, 'wb') as fh:
            fh.write(kf)
        files.append(kpath)
    args = {'keep_all_names': bool(ka), 'keep_names_from_file': kpath}
    obs = {}
    try:
        lines = split_lines(src)
        if kind == 'prog':
            li = lua.Lua.from_lines(lines, version=ver)
            _PROG[0] += 1
            if _PROG[0] % 3 == 0:
                # the Lua object is not fresh: it was echoed and minified under the OPPOSITE keep-all-names setting
                # (same option names) before; the observed run must not depend on that
                b''.join(li.to_lines())
                b''.join(li.to_lines(writer_cls=lua.LuaMinifyTokenWriter,
                                     writer_args={'keep_all_names': not bool(ka), 'keep_names_from_file': None}))
            chunks = [bytes(c) for c in li.to_lines(writer_cls=lua.LuaMinifyTokenWriter, writer_args=args)]
            obs['cin'] = li.get_token_count()
        elif kind == 'toks':
            li = lex_only(lines, ver)
            w = lua.LuaMinifyTokenWriter(tokens=li.tokens, root=None, args=args)
            chunks = [bytes(c) for c in w.to_lines()]
            obs['cin'] = li.get_token_count()
        else:
            from pico8 import tool
            opts = (['--keep-all-names'] if ka else []) + (['--keep-names-from-file', kpath] if kpath else [])
            sink = io.StringIO()
            if kind == 'cli-luamin':
                cart = path('.p8')
                outp = cart[:-3] + '_fmt.p8'
                with open(cart, 'wb') as fh:
                    fh.write(b'pico-8 cartridge // http://www.pico-8.com\nversion %d\n__lua__\n' % ver +
                             bytes(lua.p8scii_to_unicode(src), 'utf-8'))
                files += [cart, outp]
                with quiet(sink):
                    rc = tool.main(['luamin'] + opts + [cart])
            else:
                luaf = path('.lua')
                outp = path('.p8')
                with open(luaf, 'wb') as fh:
                    fh.write(bytes(lua.p8scii_to_unicode(src), 'utf-8'))
                files += [luaf, outp]
                with quiet(sink):
                    rc = tool.main(['build', '--lua', luaf, '--lua-minify'] + opts + [outp])
            if rc != 0:
                return {'raised': 'exit-%s %s' % (rc, sink.getvalue()[-300:])}
            with open(outp, 'rb') as fh:
                txt = fh.read()
            a = txt.index(b'__lua__\n') + 8
            b = txt.find(b'\n__gfx__\n', a)
            sect = txt[a:] if b < 0 else txt[a:b + 1]
            out = bytes(lua.unicode_to_p8scii(sect.decode('utf-8')))
            chunks = None
            # input and output are counted under the version of the written cart (luamin keeps the input's, build
            # gives the cart the library's current version)
            try:
                ver = int(txt.split(b'\n')[1].split()[1])
            except Exception:  # noqa
                pass
            obs['cin'] = _stats(src, ver)[0]
            obs['out'] = out
        if chunks is not None:
            obs['chunks'] = chunks
            obs['out'] = b''.join(chunks)
        obs['cout'], obs['title'], obs['byline'] = _stats(obs['out'], ver)
        return obs
    except Exception as e:  # noqa
        return {'raised': lib.exc_name(e), 'msg': str(e)[:160]}
    finally:
        for p in files:
            if os.path.exists(p):
                os.remove(p)


def enc_chunks(chunks):
    return '.' if not chunks else '|'.join(lib.hx(c) for c in chunks)


def dec_chunks(s):
    return [] if s == '.' else [lib.unhx(x) for x in s.split('|')]


def model_request(case):
    ka, kf = cfg_fields(case)
    return '%s %d %s %s' % ('cart' if case['kind'].startswith('cli') else 'min', ka, 'N' if kf is None else lib.hx(kf),
                            enc_chunks(split_lines(lib.unhx(case['src']))))


def compare(case, obs, answer):
    """implementation vs extracted model: the yielded chunks (writer API) or the written text (CLI)"""
    if obs.get('timeout'):
        return 'implementation timed out'
    if 'raised' in obs:
        exp = 'ERR ' + obs['raised']
        if case['kind'] == 'prog' and obs['raised'] == 'ParserError':
            return None            # the parser is not part of this model; the case says nothing
        if case['kind'].startswith('cli') and answer.startswith('ERR'):
            return None
        if answer != exp:
            return 'implementation raised %s %s, model answered %s' % (obs['raised'], obs.get('msg', ''), answer[:80])
        return None
    if not answer.startswith('OK '):
        return 'implementation wrote %r, model answered %s' % (obs['out'][:60], answer[:80])
    if 'chunks' not in obs:
        mtxt = lib.unhx(answer[3:])       # `cart` request: the model's __lua__ text (writer + .p8 final line break)
        if mtxt != obs['out']:
            n = next((i for i, (a, b) in enumerate(zip(mtxt, obs['out'])) if a != b), min(len(mtxt), len(obs['out'])))
            return 'written __lua__ section differs at byte %d: implementation %r, model %r' % (n, obs['out'][max(0, n - 20):n + 20], mtxt[max(0, n - 20):n + 20])
        return None
    mchunks = dec_chunks(answer[3:])
    if 'chunks' in obs:
        if mchunks != obs['chunks']:
            for i, (a, b) in enumerate(zip(obs['chunks'], mchunks)):
                if a != b:
                    return 'chunk %d: implementation %r, model %r (after %r)' % (i, a[:40], b[:40], b''.join(mchunks[:i])[-30:])
            return 'number of chunks: implementation %d, model %d' % (len(obs['chunks']), len(mchunks))
        return None
    mtxt = b''.join(mchunks)
    if not (mchunks and mchunks[-1].endswith(b'\n')):
        mtxt += b'\n'                 # the .p8 writer supplies the final line break
    if mtxt != obs['out']:
        n = next((i for i, (a, b) in enumerate(zip(mtxt, obs['out'])) if a != b), min(len(mtxt), len(obs['out'])))
        return 'written __lua__ section differs at byte %d: implementation %r, model %r' % (n, obs['out'][max(0, n - 20):n + 20], mtxt[max(0, n - 20):n + 20])
    return None


def cnt(x):
    return x if isinstance(x, int) else -1


# ------------------------------------------------------------------ generators
def pick_cfg(rng):
    return rng.choice(CONFIGS)


def programs(rng, n, nstat=None, cfgs=None):
    for _ in range(n):
        src = luagen.program_source(rng, nstat=nstat)
        for cfg in (cfgs or [pick_cfg(rng)]):
            yield {'kind': 'prog', 'src': lib.hx(src), 'cfg': cfg}


# token representatives of the adjacency enumerator: every symbol of the regenerated table, names incl.
# glyph and keyword-prefixed names, every numeric form, every string form, labels, `?`
def representatives():
    from pico8.lua import lexer
    syms = []
    for pat, cls in lexer._TOKEN_MATCHERS:
        if cls is lexer.TokSymbol:
            lit = luagen_pure(pat.pattern)
            if lit is not None:
                syms.append(lit)
    words = [b'a', b'x1', b'_', b'endx', b'\x80', b'e', b'f', b'and', b'not', b'end', b'nil', b'function', b'?']
    nums = [b'0', b'1', b'12', b'3.', b'.5', b'1.5', b'1e3', b'1e-2', b'0x1', b'0xe', b'0x1.8', b'0b1', b'0X1F',
            b'1.5e10', b'2.5e0', b'10.0', b'100']
    strs = [b'"s"', b"'s'", b'""', b'[[k]]', b'[=[k]=]', b'[[]]', b'"\\0"', b'"1"']
    labels = [b'::l::']
    return syms + words + nums + strs + labels


def luagen_pure(pattern):
    import re
    try:
        parser = re._parser
    except AttributeError:
        import sre_parse as parser
    try:
        p = parser.parse(pattern.decode('latin-1'))
    except Exception:  # noqa
        return None
    out = []
    for op, av in p:
        if str(op) != 'LITERAL':
            return None
        out.append(av)
    return bytes(out)


def pair_cases(rng, seps, cfgs=('default',)):
    reps = representatives()
    for a in reps:
        for b in reps:
            for sep in seps:
                # `x=` in front and `y` behind so that number/name neighbours on both sides are exercised too
                src = b'x = ' + a + sep + b + b' y\n'
                for cfg in cfgs:
                    yield {'kind': 'toks', 'src': lib.hx(src), 'cfg': cfg, 'pair': [lib.hx(a), lib.hx(b), lib.hx(sep)]}


HEADER_COMMENTS = [b'-- title', b'--by someone', b'// slash title', b'--[[ block title ]]', b'--', b'--[[ two\nlines ]]',
                   b'--- dashes -', b'--[[]]']
GAPS = [b'\n', b'\n\n', b'\n  ', b' \n', b'\n\t\n']


def header_shapes(eols=(b'\n', b'\r\n')):
    """0-3 leading comments x comment forms x blank lines / spaces before and between x code on the next
    line or on the same line (only a block comment can have code behind it on its line)"""
    bodies = [b'x=1\ny=2\n', b'-- trailing comment\nx=1 -- eol comment\n--[[ late ]] y=2\n', b'',
              b'x=1\ny=2']                                    # code whose last line has no line end
    for eol in eols:
        for n in range(4):
            pools = [HEADER_COMMENTS] * n if n < 3 else [HEADER_COMMENTS[:3], HEADER_COMMENTS[:4], HEADER_COMMENTS[2:6]]
            for forms in _product(pools):
                for lead in (b'', b'\n', b' \n  '):
                    for gap in (GAPS[:3] if n >= 2 else GAPS[:1]):
                        for same_line in ((False, True) if n and forms[-1].endswith(b']]') else (False,)):
                            for body in bodies:
                                txt = lead
                                for i, c in enumerate(forms):
                                    txt += c
                                    if i < n - 1:
                                        txt += gap
                                if n and not body and not same_line:
                                    # a program of comments only, its last comment not followed by a line end
                                    yield txt.replace(b'\n', eol)
                                if n:
                                    txt += b' ' if same_line else b'\n'
                                txt += body
                                yield txt.replace(b'\n', eol)


def _product(pools):
    if not pools:
        yield ()
        return
    for x in pools[0]:
        for rest in _product(pools[1:]):
            yield (x,) + rest
