"""C08 - the parser consumes every valid program entirely and builds the tree it denotes."""
import re

import lib
from props import pgen, pstack

ID = 'C08'
GEN_FILES = ['T_parser', 'T_pins_parser', 'T_pins_lexer', 'T_pins_walker']
COQ_PROPERTY = 'theories/Properties/C08.vo'
COQ_EXTRA = ['theories/Proofs/ParserPins.vo', 'theories/Generated/T_parser_selftest.vo', 'theories/Proofs/LexerPins.vo', 'theories/Proofs/WalkerPins.vo']
MODEL = ('ExC08', ['lua_io.ml', 'c08_main.ml'])
MONITOR = ('MonC08', ['lua_io.ml', 'c08_mon_main.ml'])
CASE_TIMEOUT = 120
RULE = ('valid stream: programs derived at random from the dialect grammar (harness/props/pgen.py: every statement kind, '
        'nesting, call/index/field/method chains, argument / parameter lists, table fields, assignment targets, operator '
        'chains, one-line ifs followed by code / comment / end of input, inside blocks, with else, semicolons) x layouts '
        '(random: spaces, tabs, newlines, CRLF, the three comment kinds between any two tokens; compact: no separator '
        'where the lexer allows; spaces), each carrying its own derivation tree; the monitor first checks that this tree is a '
        'derivation of the real token list in the reference grammar (Spec/LuaGrammar.v: derives, line_scoped), then that the '
        'library parsed to the last token and exposes the denoted tree (holds_C08).  malformed stream: valid programs with a '
        'token deleted / duplicated / replaced and hand-written inputs: model and implementation must agree on the result '
        '(tree dump with start/end of every node, or the exception).  Every case is also run through the extracted parser '
        'model (correspondence).  distinct+non-trivial = distinct significant-token sequences with at least one statement')
ASSUMPTIONS = ['the token list is the one pico8/lua/lexer.py produces (the lexer is the subject of C07); programs are generated '
               'over the token forms the real lexer splits as the generator intends (checked per case)',
               'dialect = Lua 5.2 grammar + PICO-8 compound assignment, integer / peek operators, !=, one-line if; the form '
               '`if (c) do ... end` is read by picotool as `if (c) then ... end` on purpose and is only generated on request']
PARTIAL = ('C08_complete covers the whole reference grammar under three explicit exclusions on the derivation (excl g, '
           'notes/C08.md): a statement starting with "(" follows a ";" or is the first statement of a block other than the body '
           'of a one-line if (Lua call ambiguity); a one-line if body starts with an item that is not a do-block (known finding) '
           'and its else part, if any, has a statement (picotool drops an empty one). Well-formedness of the derivation TREE (only '
           'if-nodes carry the short flag, token leaves carry their token\'s data) is now part of the reference definition '
           'derives (Spec/LuaGrammar.v: flags_ok, leaves_ok), hence checked by the monitor on every generated derivation. Outside '
           'the exclusions the generated-program stream and the monitor apply')
CLAIM = dict(
    text=("Theorems about a model of pico8/lua/parser.py that mirrors every parse function, the white-space skipping _accept "
          "with the short-if fence and the backtracking, over BINOP_PATS / UNOP_PATS regenerated from parser.py: C08_fuel (the "
          "recursion budget the model supplies is never exhausted, for every token list), C08_ranges (every accepted parse: "
          "root spans [0, end], every node start <= end <= enclosing end), C08_leaves (every significant token of the consumed "
          "range is accounted for by exactly one leaf of the tree, in source order), C08_shortif_fence (a one-line if never "
          "extends past the newline that follows its condition). C08_complete: for every token list ts and every derivation g of ts in "
          "the reference grammar (derives ts g - which includes that g is a well-formed derivation tree: only if-nodes carry the "
          "short flag, token leaves carry the data of their token -, line_scoped ts g) that satisfies the computable exclusions "
          "excl g (a statement starting with '(' follows a ';' or is the first statement of a block that is not the body of a "
          "one-line if; the body of a one-line if starts with an item that is not a do-block; its else part has a statement), "
          "the model accepts, the end position leaves only white space / comments (consumed) and the Python-visible tree "
          "is the denoted one (denotes g (view root)): statement kinds, nesting, chains, lists, targets, operators and operands in "
          "source order, one-line ifs owning exactly their line and else part. "
          "Tie: extracted model vs the real parser on generated programs x layouts and malformed inputs (full tree dump with "
          "positions), and the extracted monitor holds_C08 (reference grammar written from the Lua manual) on the real parser's "
          "output: consumed to the last token, tree = the derivation the generator built."),
    note=("Trusted: Coq kernel+VM, table dump in gen/kernels_parser.py, ExtrOcamlBasic extraction, OCaml glue (token / tree "
          "marshalling), the hand-written model of the control flow (correspondence-tested), the program generator."),
    technique='Coq proof over a hand-written parser model with regenerated operator tables + extracted-model correspondence + extracted monitor',
    design_ref='8 C08')

MAIN_ALLOW = ('nested_shortif', 'break_mid', 'qmark', 'paren_suffix')
SPECIAL = ['short-if-do-body']
_TRIVIA = ('TokSpace', 'TokNewline', 'TokComment')
_KIND = {'TokString': 'T', 'TokNumber': 'U', 'TokName': 'A', 'TokLabel': 'L', 'TokKeyword': 'K', 'TokSymbol': 'Y'}


# ----------------------------------------------------------------------------- cases
def gen_case(rng, maxdepth, size, style, allow=()):
    p = pgen.generate_program(rng, maxdepth=maxdepth, size=size, allow=allow)
    src = pgen.layout(p, rng, style)
    ident = list(range(len(p.toks)))
    return {'kind': 'gen', 'src': lib.hx(src), 'toks': [[k, lib.hx(s)] for k, s in p.toks],
            'tree': pgen.ser_tree(p.tree, ident), 'features': sorted(p.features), 'style': style}


def generate(tier, rng):
    """the cases of _generate, plus cases whose parser / Lua object is not fresh: every k-th valid program is parsed
    again by a Parser object that parsed the previous valid program first (the result must not depend on that
    history: judged exactly like the fresh parse, derivation tree included), and by a Lua object that was given the
    previous program first (update_from_lines twice: picotool appends, the accumulated token list is judged as a
    text case: model correspondence and the conditions on every accepted parse)"""
    prev = None
    k = 0
    for c in _generate(tier, rng):
        yield c
        if c['kind'] != 'gen' or c.get('style') == 'special':
            continue
        k += 1
        if prev is not None and k % 5 == 0:
            d = dict(c)
            d['prior'] = prev
            d['prior_mode'] = 'parser'
            yield d
        if prev is not None and k % 11 == 0:
            yield {'kind': 'text', 'src': c['src'], 'origin': 'after-another-program', 'prior': prev, 'prior_mode': 'lua'}
        if b'\n' in lib.unhx(c['src']):
            prev = c['src']


def _generate(tier, rng):
    n = 220 if tier == 'quick' else 2500
    styles = ['random', 'compact', 'spaces']
    for i in range(n):
        md = rng.choice([1, 2, 2, 3, 3, 4])
        sz = rng.choice([1, 2, 3, 4, 6])
        p = pgen.generate_program(rng, maxdepth=md, size=sz, allow=MAIN_ALLOW)
        ident = list(range(len(p.toks)))
        tree = pgen.ser_tree(p.tree, ident)
        for style in styles:
            src = pgen.layout(p, rng, style)
            yield {'kind': 'gen', 'src': lib.hx(src), 'toks': [[k, lib.hx(s)] for k, s in p.toks], 'tree': tree,
                   'features': sorted(p.features), 'style': style}
    # one-line ifs in every position: small programs, many of them
    for i in range(150 if tier == 'quick' else 1500):
        p = pgen.generate_program(rng, maxdepth=2, size=rng.choice([1, 2, 3]), allow=MAIN_ALLOW, force=('short-if',))
        ident = list(range(len(p.toks)))
        tree = pgen.ser_tree(p.tree, ident)
        for style in ('random', 'compact'):
            src = pgen.layout(p, rng, style)
            yield {'kind': 'gen', 'src': lib.hx(src), 'toks': [[k, lib.hx(s)] for k, s in p.toks], 'tree': tree,
                   'features': sorted(p.features), 'style': style}
    # forms with a suspected / known defect: a small dedicated stream (signature carries the form)
    for allow, feat in (('shortif_do_body', 'short-if-do-body'),):
        for i in range(25 if tier == 'quick' else 200):
            p = pgen.generate_program(rng, maxdepth=2, size=rng.choice([1, 2, 3]), allow=(allow,), force=(feat,))
            if feat not in p.features:
                continue
            ident = list(range(len(p.toks)))
            src = pgen.layout(p, rng, rng.choice(styles))
            yield {'kind': 'gen', 'src': lib.hx(src), 'toks': [[k, lib.hx(s)] for k, s in p.toks],
                   'tree': pgen.ser_tree(p.tree, ident), 'features': sorted(p.features), 'style': 'special'}
    # malformed stream: mutants of valid programs (token deleted / duplicated / replaced)
    for i in range(250 if tier == 'quick' else 3000):
        p = pgen.generate_program(rng, maxdepth=rng.choice([1, 2, 3]), size=rng.choice([1, 2, 3]))
        toks = list(p.toks)
        if not toks:
            continue
        k = rng.randrange(len(toks))
        r = rng.random()
        if r < 0.4:
            del toks[k]
        elif r < 0.6:
            toks.insert(k, toks[k])
        else:
            toks[k] = rng.choice([('K', b'end'), ('Y', b')'), ('Y', b'('), ('K', b'then'), ('Y', b'='), ('Y', b','), ('K', b'do'),
                                  ('A', b'x'), ('K', b'if'), ('K', b'else'), ('Y', b'{'), ('Y', b'}'), ('K', b'function'),
                                  ('Y', b'...'), ('K', b'not'), ('Y', b'|'), ('Y', b'['), ('K', b'return'), ('K', b'break')])
        p.toks = toks
        p.gap = {}
        src = pgen.layout(p, rng, rng.choice(['random', 'spaces', 'spaces']))
        yield {'kind': 'text', 'src': lib.hx(src), 'origin': 'mutant'}


CORPUS = [
    b'', b'\n', b'-- only a comment', b'x=1', b'x=1\n', b'return', b';;;', b'x = 1 ; ; y = 2 ;\n',
    b'if (a) b=1\n', b'if (a) b=1', b'if (a) b=1 -- c\n', b'if (a) b=1 else c=2\nd=3\n', b'if (a) b=1 c=2\nd=3\n',
    b'do if (a) b=1\nc=2 end\n', b'if (a) then b=1 end\n', b'if (a) b=1 else\nc=2\n', b'if (a)\nb=1\n', b'if (a) return\n',
    b'while x do if (a) break\nend\n', b'if (a) if (b) c=1\nd=2\n', b'if (a) do x=1 end\ny=2\n', b'if (a) do x=1 end else y=2\n',
    b'if a do b=1 end\n', b'if (a) --[[c]] b=1\n', b'if (f(a)) b=1\n', b'if (a) b=1 else if (c) d=1\n',
    b'if then end', b'if () then end', b'if (a)(b) c=1\n', b'if (a) + 1 then b=1 end\n',
    b'?x,y\nz=2\n', b'?"hi"\n', b'a |= 1\n', b'a += 1\n', b'a ..= "x"\n', b'a=b=c\n', b'#include foo.lua\nx=1\n',
    b'(f or g)(x)\n', b'(a+b).c = 1\n', b'(-x):f()\n', b'f{1,2;3}\n', b'f"s":g[[t]]\n', b'x = {a=1, [2]=3, 4, f(), ...}\n', b'x={,}\n', b'x={1,,}\n',
    b'x = ()\n', b'x = () {}\n', b'x = ()-1\n', b'f(())\n', b'x = {()}\n',
    b'for i=1,2 do end\n', b'for i=1,2,3 do end\n', b'for a,b in pairs(t) do end\n', b'for =1,2 do end\n', b'for a, in x do end\n',
    b'function a.b.c:d(x, ...) end\n', b'function f(...) end\n', b'function f(a,) end\n', b'local function f() end\n', b'local a, b = 1\n',
    b'local a,\n', b'goto top\n::top::\n', b'::a:: ::b::\n', b'while true do break x=1 end\n', b'while true do break end\n',
    b'repeat local x until x\n', b'return 1,2;\n', b'return;x=1\n', b'x = - - 1 ^ 2 .. "a"\n', b'x = not not nil\n', b'x = a and b or c\n',
    b'x = 1 +\n', b'x = \n', b'x.y[1]:z().w = 1\n', b'x.y[1]:z()\n', b'x.y[1]\n', b'f() = 1\n', b'a, b.c, d[1] = 1, 2, 3\n', b'a, f() = 1\n',
    b'x = function() return function() end end\n', b'x = @y + %z + $w\n', b'x = 1 \\ 2 ^^ 3 <<> 4 >>< 5 >>> 6\n', b'x = a != b\n',
    b'if x then elseif y then else end\n', b'if x then elseif y else end\n', b'end\n', b'x = 1 end\n', b'do\n', b'f(\n', b'x = {\n', b'x = a.\n', b'x = a:b\n',
]


def corpus_cases():
    for s in CORPUS:
        yield {'kind': 'text', 'src': lib.hx(s), 'origin': 'corpus'}


# ----------------------------------------------------------------------------- implementation side
_RE_TW = re.compile(r'([TW])(\d+)')
_RE_P = re.compile(r'P(\d+):(\d+)')


def remap_tree(tree, remap):
    tree = _RE_TW.sub(lambda m: m.group(1) + str(remap[int(m.group(2))]), tree)
    return _RE_P.sub(lambda m: 'P%d:%d' % (remap[int(m.group(1))], remap[int(m.group(2))]), tree)


def run_impl(case):
    src = lib.unhx(case['src'])
    if case.get('prior') is not None:
        o = pstack.observe_parse(src, prior=lib.unhx(case['prior']), mode=case['prior_mode'])
    else:
        o = pstack.observe_parse(src)
    l = o.pop('lua', None)
    if l is not None and o.get('parse', '').startswith('OK '):
        # the tree as every walker without handlers of its own sees it (build's RequireWalker; the statement's "the tree
        # walked by build and by the AST writers")
        w = pstack.walk_check(l.root)
        if w:
            o['walk'] = w
    toks = o.pop('tokens', None)
    if toks is None:
        return o
    sig = [(i, t) for i, t in enumerate(toks) if type(t).__name__ not in _TRIVIA]
    o['nsig'] = len(sig)
    o['ntok'] = len(toks)
    if case['kind'] == 'gen':
        want = [(k, lib.unhx(h)) for k, h in case['toks']]
        got = [(_KIND[type(t).__name__], bytes(t.code)) for _, t in sig]
        ok = len(want) == len(got) and all(a[0] == b[0] and (a[0] == 'T' or a[1] == b[1]) for a, b in zip(want, got))
        if not ok:
            o['layout_mismatch'] = True
        else:
            o['gtree'] = remap_tree(case['tree'], [i for i, _ in sig])
    return o


def model_requests(case, obs):
    if 'enc' not in obs:
        return []
    return ['parse ' + obs['enc']]


def compare(case, obs, answers):
    if 'enc' not in obs:
        return None
    if obs.get('layout_mismatch'):
        return 'harness: the real lexer does not split the generated source into the generated tokens'
    if obs['parse'] == 'ERR RecursionError':
        return None
    if answers[0] != obs['parse']:
        return 'parser result differs: implementation %s... model %s...' % (_firstdiff(obs['parse'], answers[0]))
    return None


def _firstdiff(a, b):
    k = 0
    while k < len(a) and k < len(b) and a[k] == b[k]:
        k += 1
    lo = max(0, k - 40)
    return a[lo:k + 60], b[lo:k + 60]


def monitor_requests(case, obs):
    if 'enc' not in obs or obs.get('layout_mismatch'):
        return []
    reqs = []
    g = obs.get('gtree')
    if g is not None:
        reqs.append('ref %s %s' % (obs['enc'], g))
    if obs['parse'].startswith('OK '):
        _, e, t = obs['parse'].split(' ', 2)
        reqs.append('hold %s %s %s %s' % (obs['enc'], g or '-', t, e))
    return reqs


def special_of(case):
    f = [x for x in case.get('features', []) if x in SPECIAL]
    return '+'.join(f) if f else None


def failure_class(case, obs, answers=None):
    if case['kind'] == 'gen' and obs.get('parse', '').startswith('ERR'):
        return 'rejected-' + obs['parse'][4:]
    if answers:
        for a in answers:
            if a.startswith('false'):
                if a.startswith('false walk'):
                    return 'walk'
                cl = a[6:].split(',')
                for c in ('consumed', 'denotes', 'shortif-on-line', 'ranges', 'leaves-increasing', 'root'):
                    if c in cl:
                        return c
    return 'other'


def signature(case, obs, answers=None):
    sp = special_of(case) if case['kind'] == 'gen' else None
    if case.get('prior') is not None:
        sp = (sp + '+' if sp else '') + 'used-%s-object' % case['prior_mode']
    return 'C08/%s/%s' % (failure_class(case, obs, answers), sp or 'general')


def what(case, obs, answers=None):
    fc = failure_class(case, obs, answers)
    d = {'consumed': 'the parser stopped before the last token of a valid program',
         'denotes': 'the tree is not the one the program denotes',
         'shortif-on-line': 'a one-line if extends past the end of its line',
         'ranges': 'node positions are not nested', 'leaves-increasing': 'tokens of the tree are out of source order',
         'walk': 'a walker with the default node handlers does not reach every node of the tree',
         'root': 'root is not a Chunk spanning [0, end]'}.get(fc, 'a valid program is rejected (%s)' % fc)
    sp = signature(case, obs, answers).split('/')[-1]
    return '%s [%s]: %r' % (d, sp, lib.unhx(case['src'])[:80])


def describe(case, obs):
    d = {'kind': case['kind'], 'src': lib.unhx(case['src'])[:120].decode('latin-1'), 'features': case.get('features'),
         'result': (obs.get('parse') or obs.get('lex_error') or '')[:60]}
    if case.get('prior') is not None:
        d['history'] = 'one %s object, which first %s: %s' % (
            {'parser': 'Parser', 'lua': 'Lua'}[case['prior_mode']],
            {'parser': 'parsed (process_tokens)', 'lua': 'was given (update_from_lines)'}[case['prior_mode']],
            lib.unhx(case['prior'])[:120].decode('latin-1'))
    return d


def nontrivial_key(case, obs):
    if 'enc' not in obs or not obs.get('nsig'):
        return None
    return hash(tuple(x for x in obs['enc'].split(',') if x[0] not in 'SNC'))


def histogram_key(case, obs):
    if 'lex_error' in obs:
        return case['kind'] + ':lexer-error'
    r = obs.get('parse', '')
    return '%s:%s' % (case['kind'] if case['kind'] == 'text' else 'gen-' + case.get('style', ''),
                      'parsed' if r.startswith('OK') else r[4:])


def _size_bucket(n):
    for b in (10, 30, 100, 300, 1000, 3000):
        if n <= b:
            return '<=%d' % b
    return '>3000'


def run_cases(cases, ctx):
    obs = []
    for c in cases:
        try:
            o = lib.with_alarm(CASE_TIMEOUT, run_impl, c)
        except lib.Timeout:
            o = {'timeout': True}
        obs.append(o)
    disagreements, violations = [], []
    hist, keys = {}, set()
    feats = {}
    # correspondence
    if ctx.get('model_exe'):
        reqs = [r for c, o in zip(cases, obs) for r in model_requests(c, o)]
        ans = iter(lib.run_driver_parallel(ctx['model_exe'], reqs))
        for c, o in zip(cases, obs):
            a = [next(ans) for _ in model_requests(c, o)]
            d = compare(c, o, a)
            if d is not None:
                disagreements.append({'case': c, 'summary': describe(c, o), 'difference': d})
    else:
        for c, o in zip(cases, obs):
            if o.get('layout_mismatch'):
                disagreements.append({'case': c, 'summary': describe(c, o), 'difference': compare(c, o, [''])})
    # monitor
    minimized = set()
    if ctx.get('monitor_exe'):
        reqs = [r for c, o in zip(cases, obs) for r in monitor_requests(c, o)]
        ans = iter(lib.run_driver_parallel(ctx['monitor_exe'], reqs))
        for c, o in zip(cases, obs):
            rq = monitor_requests(c, o)
            a = [next(ans) for _ in rq]
            refbad = [x for r, x in zip(rq, a) if r.startswith('ref ') and x != 'true']
            if refbad:
                disagreements.append({'case': c, 'summary': describe(c, o),
                                      'difference': 'harness: the generated tree is not a derivation of the token list in the reference grammar: ' + refbad[0]})
                continue
            bad = [x for r, x in zip(rq, a) if r.startswith('hold ') and x != 'true']
            if o.get('walk'):
                bad.append('false walk: ' + o['walk'])
            rejected = c['kind'] == 'gen' and o.get('parse', '').startswith('ERR') and not o.get('layout_mismatch')
            if bad or rejected:
                violations.append(_violation(c, o, bad, ctx, minimized))
    for c, o in zip(cases, obs):
        k = nontrivial_key(c, o)
        if k is not None:
            keys.add(k)
        h = histogram_key(c, o)
        hist[h] = hist.get(h, 0) + 1
        if 'ntok' in o:
            b = 'tokens' + _size_bucket(o['ntok'])
            hist[b] = hist.get(b, 0) + 1
        for f in c.get('features', []):
            feats[f] = feats.get(f, 0) + 1
    hist.update({'feature:' + k: v for k, v in sorted(feats.items())})
    step = max(1, len(cases) // 5)
    return {'evaluations': len(cases), 'nontrivial': len(keys), 'rule': RULE,
            'samples': [describe(c, o) for c, o in list(zip(cases, obs))[::step]][:6],
            'disagreements': disagreements, 'violations': violations, 'histogram': hist}


def _violation(c, o, bad, ctx, minimized):
    c2, o2, bad2 = c, o, bad
    sig = signature(c, o, bad)
    if ctx.get('tier') != 'replay' and sig not in minimized:
        minimized.add(sig)
        try:
            c2, o2, bad2 = minimize(c, o, bad, ctx)
        except Exception:  # noqa
            c2, o2, bad2 = c, o, bad
    return {'case': c2, 'summary': describe(c2, o2), 'signature': signature(c2, o2, bad2), 'what': what(c2, o2, bad2),
            'observed': [b[:200] for b in bad2[:3]] or [o2.get('parse')]}


def _check_one(c, ctx):
    o = run_impl(c)
    rq = monitor_requests(c, o)
    a = lib.run_driver(ctx['monitor_exe'], rq) if rq else []
    if any(r.startswith('ref ') and x != 'true' for r, x in zip(rq, a)):
        return o, None
    bad = [x for r, x in zip(rq, a) if r.startswith('hold ') and x != 'true']
    if o.get('walk'):
        bad.append('false walk: ' + o['walk'])
    rejected = c['kind'] == 'gen' and o.get('parse', '').startswith('ERR') and not o.get('layout_mismatch')
    return o, (bad if (bad or rejected) else None)


def minimize(case, obs, bad, ctx):
    """look for a smaller witness with the same signature among small generated programs (same optional forms)"""
    import random
    import time
    sig = signature(case, obs, bad)
    if case['kind'] != 'gen' or case.get('prior') is not None:
        return case, obs, bad
    allow = MAIN_ALLOW + tuple({'short-if-do-body': 'shortif_do_body'}[f] for f in case.get('features', []) if f in SPECIAL)
    rng = random.Random(len(case['src']))
    best = (case, obs, bad)
    t0 = time.time()
    tries = 0
    while time.time() - t0 < 8 and tries < 400:
        tries += 1
        c = gen_case(rng, rng.choice([1, 1, 2]), rng.choice([1, 1, 2]), 'compact', allow)
        if len(c['src']) >= len(best[0]['src']):
            continue
        o, b = _check_one(c, ctx)
        if b is not None and signature(c, o, b) == sig:
            best = (c, o, b)
            if len(c['src']) < 80:
                break
    return best


def search(ctx, budget):
    import random
    import time
    rng = random.Random(ctx['seed'] + 1)
    t0 = time.time()
    viol, n = [], 0
    gen = generate('thorough', rng)
    while time.time() - t0 < budget and not viol:
        batch = []
        for c in gen:
            batch.append(c)
            if len(batch) >= 100:
                break
        if not batch:
            break
        r = run_cases(batch, {'monitor_exe': ctx.get('monitor_exe'), 'model_exe': None, 'tier': ctx.get('tier')})
        n += r['evaluations']
        kf = [k['signature'] for k in lib.load_known_findings().get('known', []) if k.get('property') == ID]
        viol.extend(v for v in r['violations'] if v['signature'] not in kf)
    return {'violations': viol, 'evaluations': n}
