"""Grammar-based generator of PICO-8 Lua programs with an independent layout generator.

Shared by the lexer-stack properties (C07 C06 C19 C01).  A program is first a list of token
byte strings plus line-break markers (NL = a line break is REQUIRED here because a line-scoped
PICO-8 shorthand ends; SOFT = a line break is customary); the layout generator then chooses
separators (nothing / blanks / comments / line breaks) so that the token sequence is unchanged
under the reference grammar (it never glues two tokens: see needs_space, deliberately
conservative - adversarial adjacency is the job of the adjacency enumerator, not of this one).
All choices come from the random.Random passed in.
"""

NL = object()     # required line break
SOFT = object()   # optional line break

KEYWORDS = [b'and', b'break', b'do', b'else', b'elseif', b'end', b'false', b'for', b'function', b'goto', b'if',
            b'in', b'local', b'nil', b'not', b'or', b'repeat', b'return', b'then', b'true', b'until', b'while']

NAME_POOL = [b'a', b'b', b'ba', b'x', b'y', b'foo', b'bar', b'_i', b'x1', b'endx', b'ifa', b'nilx', b'do_it', b'fn',
             b'player', b'enemies', b'dx', b'dy', b'\x80', b'\x8ex', b'a\x99b', b'zz\xff', b'print', b't', b'add',
             b'btn', b'self', b'_update', b'e', b'e5', b'xb', b'elsei', b'_', b'__index', b'longer_name_here']
FIELD_POOL = [b'x', b'y', b'w', b'spd', b'a', b'n', b'hp', b'on', b'len']

NUMBERS = [b'0', b'1', b'2', b'10', b'255', b'32767', b'0.5', b'1.25', b'3.', b'.5', b'.75', b'1e3', b'2E2', b'1e-2',
           b'1.5e2', b'.5e1', b'0x10', b'0xff', b'0xFF', b'0x1f.8', b'0xa.c', b'0b101', b'0b1.1', b'0x7fff.ffff',
           b'007', b'12.50',
           # spellings a value-preserving re-spelling could get wrong: zeros at the end of an exponent, of a fraction,
           # of an integer, of a hex / binary fraction
           b'1.5e10', b'2.5e0', b'1.25e-10', b'1.50e1', b'1e10', b'100', b'1000', b'0.0', b'0.10', b'10.0', b'0x10.0',
           b'0x1.80', b'0b10.10', b'00.500', b'5e0', b'1.e1']
STRINGS = [b'"a"', b"'b'", b'""', b"''", b'"hello world"', b"'its'", b'"q\\"q"', b"'q\\'q'", b'"a\\nb"',
           b'"\\65\\066"', b'"\\0"', b'"tab\\there"', b'"\\\\"', b'"--not a comment"', b'"[[x]]"', b'[[long]]',
           b'[[a]b]]', b'[=[x]]y]=]', b'[==[]==]', b'"\\*\\#\\-\\|\\+\\^"', b'"\xe2\x99\xa5"', b'"\x80\xff"',
           b"'\"'", b'"\'"', b'"1\\0012"', b'"\\a\\b\\f\\r\\v"',
           # an escaped backslash followed by digits is a backslash and digits, not a numbered escape
           b'"c:\\\\0123"', b"'d:\\\\145'", b'"\\\\07"', b'"\\\\\\065"', b'"\\0\\\\0"']
BINOPS = [b'+', b'-', b'*', b'/', b'%', b'^', b'..', b'==', b'~=', b'!=', b'<', b'>', b'<=', b'>=', b'and', b'or',
          b'&', b'|', b'^^', b'<<', b'>>', b'>>>', b'<<>', b'>><', b'\\']
UNOPS = [b'-', b'not', b'#', b'~', b'@', b'%', b'$']
COMPOUND = [b'+=', b'-=', b'*=', b'/=', b'%=', b'..=']


class Gen:
    def __init__(self, rng, multiline_strings=True):
        self.rng = rng
        self.labels = 0
        self.oneline = 0
        self.multiline_strings = multiline_strings

    def name(self):
        return self.rng.choice(NAME_POOL)

    def number(self):
        return self.rng.choice(NUMBERS)

    def string(self):
        r = self.rng
        if self.multiline_strings and not self.oneline and r.random() < 0.08:
            return r.choice([b'[[\nline1\nline2]]', b'[=[a\n]]\n]=]', b'"one\\\ntwo"', b'[[\n]]',
                             # only the FIRST line break after the opening bracket is skipped
                             b'[[\n\n  game over\n]]', b'[==[\n\n]==]'])
        return r.choice(STRINGS)

    def primary(self, d):
        r = self.rng
        k = r.random()
        out = [self.name()] if k < 0.8 or d <= 0 else [b'('] + self.expr(d - 1) + [b')']
        for _ in range(r.choice([0, 0, 0, 1, 1, 2])):
            j = r.random()
            if j < 0.35:
                out += [b'.', r.choice(FIELD_POOL)]
            elif j < 0.55 and d > 0:
                out += [b'['] + self.expr(d - 1) + [b']']
            elif j < 0.8:
                out += self.args(d)
            elif j < 0.9:
                out += [b':', r.choice(FIELD_POOL)] + self.args(d)
            else:
                out += [b'.', r.choice(FIELD_POOL)]
        return out

    def args(self, d):
        r = self.rng
        j = r.random()
        if j < 0.1:
            return [self.string()]
        if j < 0.15:
            return self.table(d - 1)
        out = [b'(']
        n = r.choice([0, 1, 1, 2, 3])
        for i in range(n):
            if i:
                out.append(b',')
            out += self.expr(d - 1)
        return out + [b')']

    def table(self, d):
        r = self.rng
        out = [b'{']
        n = r.choice([0, 1, 2, 3])
        for i in range(n):
            if i:
                out.append(r.choice([b',', b',', b';']))
            j = r.random()
            if j < 0.3:
                out += [r.choice(FIELD_POOL), b'='] + self.expr(d - 1)
            elif j < 0.4:
                out += [b'['] + self.expr(d - 1) + [b']', b'='] + self.expr(d - 1)
            else:
                out += self.expr(d - 1)
        if n and r.random() < 0.15:
            out.append(b',')
        return out + [b'}']

    def expr(self, d):
        r = self.rng
        if d <= 0:
            j = r.random()
            if j < 0.35:
                return [self.number()]
            if j < 0.5:
                return [self.string()]
            if j < 0.6:
                return [r.choice([b'nil', b'true', b'false'])]
            return [self.name()]
        j = r.random()
        if j < 0.3:
            return self.expr(d - 1) + [r.choice(BINOPS)] + self.expr(d - 1)
        if j < 0.4:
            return [r.choice(UNOPS)] + self.expr(d - 1)
        if j < 0.6:
            return self.primary(d)
        if j < 0.67:
            return self.table(d)
        if j < 0.72 and not self.oneline:
            return [b'function', b'(', self.name(), b')', SOFT] + self.block(d - 1, 1) + [b'end']
        return self.expr(0)

    def simple_stat(self, d):
        """a statement that fits on one line (usable after a short-if)"""
        r = self.rng
        j = r.random()
        if j < 0.35:
            return self.primary(0)[:1] + [b'='] + self.expr(d)
        if j < 0.5:
            return [self.name(), r.choice(COMPOUND)] + self.expr(d)
        if j < 0.8:
            return [self.name()] + self.args(d)
        if j < 0.9:
            return [self.name(), b'.', r.choice(FIELD_POOL), b'='] + self.expr(d)
        return [b'local', self.name(), b'='] + self.expr(d)

    def stat(self, d, in_loop=False, top=False):
        r = self.rng
        j = r.random()
        if d <= 0 or j < 0.4:
            return self.simple_stat(max(d, 1))
        if j < 0.48:
            out = [b'if'] + self.expr(d - 1) + [b'then', SOFT] + self.block(d - 1, 2, in_loop)
            if r.random() < 0.3:
                out += [b'elseif'] + self.expr(d - 1) + [b'then', SOFT] + self.block(d - 1, 1, in_loop)
            if r.random() < 0.4:
                out += [b'else', SOFT] + self.block(d - 1, 1, in_loop)
            return out + [b'end']
        if j < 0.56:   # short if: ends at the line break
            self.oneline += 1
            out = [b'if', b'('] + self.expr(d - 1) + [b')'] + self.simple_stat(1)
            if r.random() < 0.25:
                out += [b'else'] + self.simple_stat(1)
            self.oneline -= 1
            return out + [NL]
        if j < 0.62:
            return [b'while'] + self.expr(d - 1) + [b'do', SOFT] + self.block(d - 1, 2, True) + [b'end']
        if j < 0.68:
            out = [b'for', self.name(), b'='] + self.expr(0) + [b','] + self.expr(0)
            if r.random() < 0.3:
                out += [b','] + self.expr(0)
            return out + [b'do', SOFT] + self.block(d - 1, 2, True) + [b'end']
        if j < 0.72:
            return [b'for', self.name(), b',', self.name(), b'in', b'pairs', b'(', self.name(), b')', b'do', SOFT] + \
                self.block(d - 1, 2, True) + [b'end']
        if j < 0.76:
            return [b'repeat', SOFT] + self.block(d - 1, 2, True) + [b'until'] + self.expr(d - 1)
        if j < 0.84:
            head = r.choice([[b'function', self.name()], [b'local', b'function', self.name()],
                             [b'function', self.name(), b'.', r.choice(FIELD_POOL)],
                             [b'function', self.name(), b':', r.choice(FIELD_POOL)]])
            params = []
            for i in range(r.choice([0, 1, 2])):
                if i:
                    params.append(b',')
                params.append(self.name())
            return head + [b'('] + params + [b')', SOFT] + self.block(d - 1, 2) + [b'end']
        if j < 0.9 and not top:
            # picotool's parser accepts the ? shorthand inside a block only with a string argument
            return [b'?', self.rng.choice(STRINGS)] + [NL]
        if j < 0.9:    # ? print shorthand: ends at the line break
            self.oneline += 1
            out = [b'?'] + self.expr(d - 1)
            if r.random() < 0.3:
                out += [b','] + self.expr(0) + [b','] + self.expr(0)
            self.oneline -= 1
            return out + [NL]
        if j < 0.93:
            self.labels += 1
            lab = b'l%d' % self.labels
            return [b'::' + lab + b'::', SOFT, b'goto', lab]
        if j < 0.96:
            return [b'do', SOFT] + self.block(d - 1, 2, in_loop) + [b'end']
        return [b'local', self.name(), b',', self.name(), b'='] + self.expr(d - 1) + [b','] + self.expr(d - 1)

    def block(self, d, n, in_loop=False):
        r = self.rng
        out = []
        for _ in range(r.randrange(0, n + 1)):
            out += self.stat(d, in_loop) + [SOFT]
        j = r.random()
        if j < 0.12:
            out += [b'return'] + (self.expr(d) if r.random() < 0.7 else []) + [SOFT]
        elif j < 0.18 and in_loop:
            out += [b'break', SOFT]
        return out

    def program(self, nstat, depth=2):
        out = []
        for _ in range(nstat):
            out += self.stat(depth, top=True) + [SOFT]
        return out


def _is_name_byte(c):
    return c == 95 or 48 <= c <= 57 or 65 <= c <= 90 or 97 <= c <= 122 or c >= 128


SAFE_PUNCT = b'(){}],;'


def needs_space(prev, nxt):
    """conservative: True whenever gluing prev and nxt might change the token sequence"""
    if prev is None or not prev or not nxt:
        return False
    a, b = prev[-1], nxt[0]
    if prev[:1] in (b'"', b"'") or nxt[:1] in (b'"', b"'"):
        return False
    if prev[:1] == b'[' and len(prev) > 1 and prev[1:2] in b'[=' and prev[-1:] == b']':    # long string before
        return nxt[:1] in (b'=', b']')
    if _is_name_byte(a) and _is_name_byte(b):
        return True
    if _is_name_byte(a):          # word, then punctuation
        if prev[:1].isdigit() or prev[:1] == b'.':
            return b == 46        # number then '.'
        return False
    if _is_name_byte(b):          # punctuation, then word
        return a == 46 and 48 <= b <= 57
    if b == 46 and 48 <= (nxt[1] if len(nxt) > 1 else 0) <= 57:    # punctuation then .5
        return a == 46
    if bytes([a]) in SAFE_PUNCT:
        return False
    if bytes([b]) in SAFE_PUNCT:
        return False
    return True


COMMENTS = [b'-- note', b'--', b'// slash comment', b'--[[ block ]]', b'--[ not block', b'-- "quote', b'--x=1',
            b'--\x80\x99', b'//', b'--[[]]']


def layout(tokens, rng, eol=b'\n', comments=True, final_newline=True, dense=0.5):
    """-> source bytes.  dense = probability of omitting an optional separator."""
    out = []
    prev = None
    at_line_start = True
    for t in tokens:
        if t is NL or t is SOFT:
            if t is SOFT and rng.random() < 0.12 and prev is not None:
                # stay on the same line; a ';' or a blank keeps statements apart
                out.append(rng.choice([b' ', b' ', b';', b' ; ']))
                prev = None if out[-1].strip() else prev
                if out[-1].strip():
                    prev = b';'
                continue
            if comments and rng.random() < 0.15:
                c = rng.choice([x for x in COMMENTS if not x.startswith(b'--[[')])
                out.append((b' ' if not at_line_start else b'') + c)
            out.append(eol)
            while rng.random() < 0.15:
                out.append(rng.choice([b'', b'  ', b'\t', b'--[[ a' + eol + b' b ]]', b'-- c']) + eol)
            prev = None
            at_line_start = True
            if rng.random() < 0.4:
                out.append(rng.choice([b' ', b'  ', b'\t', b'    ']))
            continue
        sep = b''
        if prev is not None:
            if needs_space(prev, t) or rng.random() >= dense:
                sep = rng.choice([b' ', b' ', b' ', b'  ', b'\t'])
            if comments and rng.random() < 0.03:
                sep = b' ' + rng.choice([b'--[[ c ]]', b'--[[]]', b'--[[ a b ]]']) + b' '
        out.append(sep + t)
        prev = t
        at_line_start = False
    src = b''.join(out)
    if not final_newline:
        src = src.rstrip(b'\r\n')
    elif not src.endswith(eol):
        src += eol
    return src


def header(rng, eol=b'\n'):
    """0-3 leading comments in assorted shapes (C19)"""
    out = []
    for _ in range(rng.choice([0, 1, 2, 2, 3])):
        if rng.random() < 0.2:
            out.append(rng.choice([b'', b' ', eol]))
        out.append(rng.choice([b'-- title', b'--by someone', b'// slash', b'--[[ block title ]]', b'--',
                               b'--[[ two' + eol + b'lines ]]']))
        out.append(eol)
    return b''.join(out)


def program_source(rng, nstat=None, eol=None, comments=True, final_newline=None, with_header=True, dense=None):
    g = Gen(rng)
    nstat = nstat if nstat is not None else rng.choice([1, 2, 3, 5, 8, 12])
    eol = eol if eol is not None else rng.choice([b'\n', b'\n', b'\n', b'\r\n'])
    toks = g.program(nstat)
    final_newline = final_newline if final_newline is not None else rng.random() < 0.8
    dense = dense if dense is not None else rng.choice([0.0, 0.5, 0.9, 1.0])
    if not final_newline:
        # a trailing NL-terminated shorthand keeps its line break only if something follows; fine either way
        pass
    src = layout(toks, rng, eol=eol, comments=comments, final_newline=final_newline, dense=dense)
    if with_header and rng.random() < 0.5:
        src = header(rng, eol) + src
    return src


def split_lines(src):
    """chunks ending after each \\n (how the .p8 reader feeds the lexer)"""
    out = []
    i = 0
    while i < len(src):
        j = src.find(b'\n', i)
        if j < 0:
            out.append(src[i:])
            break
        out.append(src[i:j + 1])
        i = j + 1
    return out
