"""`.p8` files whose data sections have fewer rows than the full count (shared by C03 C04 C13 C16).

Newer PICO-8 versions do not write the empty tail of a data section: trailing rows that hold what an empty cart
holds are left out (a section may have any number of rows from none to the full count, or be missing).  A row that is
not in the file denotes the empty default, so every region keeps its full size.  Everything here is written from the
format description (Spec/P8Format.v, "short sections"), not from picotool: the harness cuts files itself and knows
what they denote.
"""

ROW = {'gfx': 64, 'label': 64, 'gff': 128, 'map': 128, 'sfx': 68, 'music': 4}      # memory bytes per text row
ROWS = {'gfx': 128, 'label': 128, 'gff': 2, 'map': 32, 'sfx': 64, 'music': 64}     # rows of a whole section
SIZE = {s: ROW[s] * ROWS[s] for s in ROW}
DATA_SECTIONS = ['gfx', 'label', 'gff', 'map', 'sfx', 'music']


def default_region(sec):
    """the contents of the empty cart PICO-8 writes"""
    if sec == 'music':
        return bytes([0x41, 0x42, 0x43, 0x44]) * 64
    if sec == 'sfx':
        return bytes(64) + bytes([0, 1, 0, 0]) + (bytes(64) + bytes([0, 16, 0, 0])) * 63
    return bytes(SIZE[sec])


def default_line(sec, i):
    """the text row i of the empty default"""
    if sec in ('gfx', 'label'):
        return b'0' * 128 + b'\n'
    if sec in ('gff', 'map'):
        return b'00' * 128 + b'\n'
    if sec == 'music':
        return b'00 41424344\n'
    return (b'0001' if i == 0 else b'0010') + b'0000' + b'0' * 160 + b'\n'


def fill(sec, prefix):
    """the region denoted by the bytes of the rows that are present"""
    prefix = bytes(prefix)
    return prefix + default_region(sec)[len(prefix):]


def is_header(line):
    return (len(line) > 5 and line.startswith(b'__') and line.endswith(b'__\n') and
            all(chr(c).isalnum() or c == 95 for c in line[2:-3]))


def split_p8(data):
    """(the two header lines, [(section name, [line, ...]), ...]) - lines keep their newline"""
    lines = data.split(b'\n')
    lines = [x + b'\n' for x in lines[:-1]] + ([lines[-1]] if lines[-1] else [])
    head, secs = [], []
    for ln in lines:
        if is_header(ln):
            secs.append((ln[2:-3].decode(), []))
        elif secs:
            secs[-1][1].append(ln)
        else:
            head.append(ln)
    return head, secs


def join_p8(head, secs):
    out = list(head)
    for name, lines in secs:
        out.append(b'__' + name.encode() + b'__\n')
        out.extend(lines)
    return b''.join(out)


def data_rows(lines):
    return [ln for ln in lines if ln.strip()]


def cut_rows(data, keep, blank_lines=False, drop_empty=False):
    """cut section s of the .p8 text `data` to its first keep[s] rows (sections not in `keep` are left whole).
    blank_lines: keep the blank separator lines picotool writes (PICO-8 writes none); drop_empty: leave a section
    with no row out altogether, header line included (as PICO-8 does)."""
    head, secs = split_p8(data)
    out = []
    for name, lines in secs:
        if name not in ROW:
            out.append((name, lines))
            continue
        rows = data_rows(lines)
        if name in keep:
            rows = rows[:keep[name]]
        if drop_empty and not rows:
            continue
        tail = [ln for ln in lines if not ln.strip()] if blank_lines else []
        out.append((name, rows + tail))
    return join_p8(head, out)


def strip_default_tail(data, blank_lines=False, drop_empty=True):
    """what PICO-8 does when it saves: trailing rows equal to the empty default are not written"""
    head, secs = split_p8(data)
    keep = {}
    for name, lines in secs:
        if name in ROW:
            rows = data_rows(lines)
            k = len(rows)
            while k > 0 and rows[k - 1] == default_line(name, k - 1):
                k -= 1
            keep[name] = k
    return cut_rows(data, keep, blank_lines=blank_lines, drop_empty=drop_empty), keep


def region_with_default_tail(rng, sec, rows):
    """a region whose first `rows` rows are random (the last of them not the default) and whose tail is the default"""
    n = rows * ROW[sec]
    d = bytearray(rng.randbytes(n))
    if sec == 'music':
        for i in range(3, n, 4):
            d[i] &= 0x7f            # the bit the .p8 text has no place for
    if n:
        d[n - 1] = (d[n - 1] | 1) & (0x7f if sec == 'music' else 0xff)
        if bytes(d[n - ROW[sec]:n]) == default_region(sec)[n - ROW[sec]:n]:
            d[n - 2] ^= 2
    return fill(sec, bytes(d))


# hand-written minimal carts, the way PICO-8 0.2.x saves them (no blank lines, empty sections left out)
_GFX2 = b'0123456789abcdef' * 8 + b'\n' + b'f' * 127 + b'1\n'
MINIMAL = {
    'gfx2-music1': (b'pico-8 cartridge // http://www.pico-8.com\nversion 41\n__lua__\nprint("hi")\n__gfx__\n' + _GFX2 +
                    b'__music__\n01 01424344\n'),
    'map1-only': (b'pico-8 cartridge // http://www.pico-8.com\nversion 41\n__lua__\nx=1\ny=2\n__map__\n' +
                  b'0102' * 64 + b'\n'),
    'all-one-row': (b'pico-8 cartridge // http://www.pico-8.com\nversion 38\n__lua__\n-- short\nx=1\n__gfx__\n' +
                    b'7' * 128 + b'\n__label__\n' + b'c' * 128 + b'\n__gff__\n' + b'80' * 128 + b'\n__map__\n' +
                    b'1f' * 128 + b'\n__sfx__\n' + b'010a0003' + b'0c750' * 32 + b'\n__music__\n02 0a0b0c0d\n'),
    'sfx2-gff1': (b'pico-8 cartridge // http://www.pico-8.com\nversion 41\n__lua__\nz=3\n__gff__\n' + b'01' * 128 +
                  b'\n__sfx__\n' + b'00100000' + b'1a340' * 32 + b'\n' + b'01200407' + b'00000' * 32 + b'\n'),
    'code-only': b'pico-8 cartridge // http://www.pico-8.com\nversion 41\n__lua__\nprint(1)\n',
}
