"""C20 - #include splices exactly the named file or cart tab at the include line."""
import io
import itertools
import os
import re

import lib
from props import fsobs

ID = 'C20'
GEN_FILES = ['T_files_p8', 'T_p8scii',
             # the composition with the .p8 reader (Properties/C20Bytes.v) stands on the C03 / C06 models
             'K_p8file', 'K_gfx', 'K_gff', 'K_map', 'K_sfx', 'K_music', 'T_lexer',
             # source pins of the hand-modelled modules (gen/kernels_pins.py)
             'T_pins_p8']
COQ_PROPERTY = 'theories/Properties/C20.vo'
COQ_EXTRA = ['theories/Properties/C20Bytes.vo',
             'theories/Proofs/P8Pins.vo']
MODEL = ('ExC20', 'c20_main.ml')
MONITOR = ('MonC20', 'c20_mon_main.ml')
RULE = ('four streams. re: every string of <= 5 (thorough: 6) tokens over {" ", "\\t", "#include", "a", ".", ".p8", '
        '".p8.png", ".lua", ":", "1", "b/"} + random mutations: INCLUDE_LINE_RE.match(line).groups() vs the model\'s '
        'match_include_line, and the Spec\'s classify vs the regex on the lines it defines. tab: random line lists over '
        '{code, "-->8", "-->8x", " -->8", unterminated last line} x selector None / 0..tabs+1: lines_for_tab. flines: '
        'random byte strings over {a, \\n, \\r}: file iteration. load: a cart c/host.p8 in a sandbox tree with 0-4 include '
        'lines at first / middle / last position among plain lines (incl. near-misses such as "#includex", '
        '"-- #include a.lua"), targets of the three kinds (.lua, .p8, .p8.png written by the real writer) in the cart '
        'directory and two levels of sub-directories, with and without final newline, empty, with tab separators at '
        'the edges, with include lines of their own; selectors 0..tabs+1; missing targets; host named absolutely or '
        'relatively; some carts end inside their code section without a final newline. Each load: process_includes(lines, filename) vs the extracted model on the same file-system view, and '
        'the extracted Spec-only monitor holds_C20 on (cart code, directory content, file.from_file(cart).lua.to_lines()) '
        'and on the raw process_includes output. distinct+non-trivial = distinct (host lines, names) with >= 1 include line')
CLAIM = dict(
    text=("Theorems (Coq, closed under the global context), about the model of p8.py's include machinery after "
          "two `fix:` commits (findings/known_C20.json): C20_splice / C20_splice_complete (the result is the in-order "
          "concatenation of what each line expands to), C20_expand (a non-include line expands to itself; an include "
          "line to the - selected - lines of its target, each given its newline and not examined again, so nested "
          "includes are not expanded), C20_tab (NAME:n is the n-th segment between -->8 lines, empty beyond the last; "
          "no selector keeps everything), C20_missing / C20_error / C20_no_filename (a target that is not a file fails "
          "the load with P8IncludeNotFound/OutsideOfAllowedDirectory; any failing expansion fails the load), "
          "C20_recogniser (INCLUDE_LINE_RE, modelled as a backtracking scanner, reads every line the description "
          "defines exactly as the description does), C20_file_lines, and the refinement C20_in_place: for every cart, "
          "every directory content and every consistent file-system view, whenever the reference splice of "
          "Spec/SpliceSpec.v is defined the model's code text has exactly the reference lines (no host line merged "
          "with an included one, with or without final newline) and fails when a file is missing; "
          "C20_in_place_unterminated_last (the same for a cart whose last line has no newline); C20_model_holds "
          "(the monitor's predicate holds of the model). C20_glue_variant_refuted: with `yield line` (the code "
          "before the fix) the statement is false (vm_compute witness x=1 / a=bc=d); C20_tab_variant_refuted: so it is when "
          "tabs are selected on the lexer's chunks (a -->8 line inside a long string). Composition with the .p8 reader "
          "(Properties/C20Bytes.v): C20_p8_reader_bytes (what from_file(do_includes=False).lua.to_lines() returns for the "
          "BYTES of a .p8 file - model reader of C03 + lexer/echo model of C06 - is the echo of the lexed lines of the "
          "file's __lua__ section, p8_code_lines, computed by the section splitter alone), C20_p8_code_echo (so its text "
          "repeats those lines in the sense of holds_C06), C20_expand_p8_bytes (an `#include NAME.p8[:n]` line expands to "
          "the selected text lines of that function of the bytes), C20_in_place_p8_bytes (C20_in_place with the "
          "directory content given as bytes for .lua and .p8 files). Tie: regex sources + the way "
          "they are applied, the shape of the two yield sites, of the lines offered to lines_for_tab and of the containment tests are regenerated and "
          "pinned; match_include_line vs re on every string of <= 5 (6) tokens + mutations; lines_for_tab, file "
          "iteration, process_includes on real directory trees vs the extracted model; the Spec-only monitor on "
          "file.from_file(cart).lua.to_lines() and on the raw process_includes output; the Spec's recogniser is "
          "also compared with the regex directly."),
    note=("Trusted: Coq kernel+VM, extraction, OCaml glue; the cart readers (do_includes=False) as the source of 'the "
          "Lua code of the cart' and the lexer's echo of the spliced code (C03/C04/C06/C07 are about them); the "
          "description-derived Spec (text lines cut at \\n; the directive grammar `#include NAME[:n]`; tabs separated by "
          "lines equal to -->8). No claim (Spec undefined) for: malformed directives, a selector on a .lua file, "
          "absolute or ..-names (C12's subject), selecting a tab of a cart that has a longer line starting with -->8. "
          "fs_agrees (the hypothesis of C20_in_place: a named text file is read as its bytes, a named cart's reader "
          "returns its code) is checked for every cart of the sandbox on each run."),
    technique='Coq refinement proof (regex scanner + splice vs a reference splice) + regenerated shapes + extracted-model correspondence + extracted monitor',
    design_ref='8 C20')
ASSUMPTIONS = ['lines of the including cart reach process_includes newline-terminated (the .p8 reader guarantees it)',
               'C20_in_place assumes fs_agrees: named text files are read as their bytes and a named cart\'s reader returns the '
               'cart\'s code (chunked in any way)']
PARTIAL = ('for a .p8 target the reader result is the C03/C06 model reader applied to the file\'s bytes (Properties/C20Bytes.v; its '
           'tie to the implementation is the correspondence of C03 and C06, not re-run here; the byte-for-byte echo clause asks '
           'that the code lines end in LF and are bytes); what the .p8.png reader returns is taken from the implementation (C04/C05)')
CASE_TIMEOUT = 120

SB = {'root': None, 'view': None, 'content': None, 'view_ok': None}

# ---------------------------------------------------------------- the target pool
GLYPH = '\u25cf'                      # U+25CF, P8SCII byte 0x86 (Generated/T_p8scii.v): a PICO-8 glyph in a file name


def to_p8scii(s):
    """the P8SCII bytes of a harness string (ASCII + GLYPH), independent of picotool's converter"""
    return b''.join(b'\x86' if ch == GLYPH else ch.encode('ascii') for ch in s)


PAD = b'-- fixture fixture fixture fixture fixture fixture fixture fixture fixture\n'
LUA_POOL = {
    'l0.lua': b'x=1\ny=2\n',
    'l1.lua': b'a=b',                                  # no final newline
    'l2.lua': b'',
    'l3.lua': b'\n',
    'l4.lua': b'p=1\n\n#include l0.lua\n-->8\nq=2',     # looks like a directive / a tab line; not expanded, not split
    'l5.lua': b'-- \x80\x99\xff\ne=5\n',
    'l6.lua': b'f=6\n\n',
    'l7.lua': b'a=1  \n\tb=2\t\n   \n  c=3',                 # leading / trailing blanks, a blank-only line
    'sub/l0.lua': b'sx=1\n',
    'sub/l1.lua': b'sa=sb',
    'sub/deep/l0.lua': b'dx=1\ndy=2',
    'l8.lua': b'r=1\rs=2\nt=3\r\n',                    # a lone CR inside a line, then CR LF: the lines of a file end at LF only
    'l9.lua': b'm=[[a\rb]]\r',                           # lone CR inside a long string and as the last byte
    'a.lua.lua': b'dbl=1\n',
    GLYPH + 'lib.lua': b'glyph=1\n',                    # a file name with a PICO-8 glyph
    'sub/' + GLYPH + '.lua': b'subglyph=1',
    'b.p8.lua': b'mix=1\n',
}
CART_CODES = {
    't0': b'c1=1\n-->8\nc2=2\n-->8\nc3=3\n',
    't1': b'k=1\n',
    't2': b'n1=1\n#include l0.lua\nn2=2\n',             # an include line inside an included cart
    't3': b'-->8\nfoo=1\n',
    't4': b'-->8\n-->8\n',
    't5': b'u1=1\n-->8\nu2=2',                           # last tab unterminated
    't6': b'v=1',                                        # unterminated single line
    't7': b'w1=1\n -->8\nw2=2\n--->8\nw3=3\n',           # near-miss separators
    't8': b's=[[\n-->8\n]]\nt=2\n-->8\nu=3\n',            # a long string opened in tab 0 and closed in tab 1
    't9': b'g=1 --[[ c\n-->8\nd ]]\nv=1',                   # a long comment across a tab boundary, unterminated end
    't11': b'  i=1  \n-->8\n\tj=2\t\n\n',                  # blanks around code, empty last line
    't' + GLYPH: b'gl1=1\n-->8\ngl2=2\n',
    't10': b'-->8\n'.join(b'tab%d=%d\n' % (i, i) for i in range(12)),   # twelve tabs: selectors with two digits, 8 and 9
}
CART_DIRS = {'t0': ['', 'sub/', 'sub/deep/'], 't1': ['', 'sub/'], 't2': [''], 't3': [''], 't4': [''], 't5': [''],
             't6': [''], 't7': [''], 't8': ['', 'sub/'], 't9': [''], 't10': [''], 't11': [''], 't' + GLYPH: ['']}
MISSING = ['nope.lua', 'nope.p8', 'nope.p8.png', 'sub/nope.lua', 'l0.p8', 'dir.lua',     # dir.lua is a directory
           # a cart that exists in ONE of the two formats only: the other spelling names no file
           'only8.p8.png', 'only8.p8.png:1', 'onlypng.p8', 'onlypng.p8:0', 'l0.lua.p8', 'only8.lua']
ONE_FORMAT = {'only8.p8': b'o8a=1\n-->8\no8b=2\n', 'onlypng.p8.png': b'opa=1\n-->8\nopb=2\n'}


CARTS_ROOT = 'home/.lexaloffle/pico-8/carts'
# where the including cart lives (case['where']): the plain directory, a sub-folder of the PICO-8 carts folder, a
# second plain copy used by the cases that load twice, and the plain directory reached through a symbolic link
CART_DIR = {'c': 'c', 'carts': CARTS_ROOT + '/mygame', 'tw': 'c_tw', 'lnk': 'lnk', 'wip': CARTS_ROOT + '_wip'}
# ('wip': a sibling of the carts folder whose name merely begins with the folder's name - not inside it)


def p8_file(code):
    return fsobs.p8_text(code if code.endswith(b'\n') or not code else code + b'\n')


def p8_code(code):
    """the code text of a .p8 fixture made from `code` (the section ends with a newline)"""
    return code if code.endswith(b'\n') or not code else code + b'\n'


def sandbox():
    if SB['root'] is not None:
        return SB['root']
    from pico8.game import game, file as pfile
    from pico8.lua import lua
    S = fsobs.mk_sandbox('c20')
    content = {}     # relname -> (kind, reference text)
    for rel, data in LUA_POOL.items():
        fsobs.write_file(os.path.join(S, 'c', rel), data)
        content[rel] = (0, data)
    for name, code in CART_CODES.items():
        for d in CART_DIRS[name]:
            rel = d + name + '.p8'
            fsobs.write_file(os.path.join(S, 'c', rel), p8_file(code))
            content[rel] = (1, p8_code(code))
            # .p8.png with the real writer (padded so that the code is stored compressed)
            rel = d + name + '.p8.png'
            full = os.path.join(S, 'c', rel)
            text = PAD + code
            g = game.Game.make_empty_game(filename=full)
            g.lua = lua.Lua.from_lines(io.BytesIO(text).readlines(), version=game.DEFAULT_VERSION)
            with fsobs.quiet():
                pfile.to_file(g, full)
                back = b''.join(pfile.from_file(full).lua.to_lines())
            if back != text:
                raise RuntimeError('fixture %s does not read back' % rel)
            content[rel] = (2, text)
    # carts that exist in one format only (their sibling spelling is in MISSING)
    fsobs.write_file(os.path.join(S, 'c', 'only8.p8'), p8_file(ONE_FORMAT['only8.p8']))
    content['only8.p8'] = (1, p8_code(ONE_FORMAT['only8.p8']))
    full = os.path.join(S, 'c', 'onlypng.p8.png')
    text = PAD + ONE_FORMAT['onlypng.p8.png']
    g = game.Game.make_empty_game(filename=full)
    g.lua = lua.Lua.from_lines(io.BytesIO(text).readlines(), version=game.DEFAULT_VERSION)
    with fsobs.quiet():
        pfile.to_file(g, full)
    content['onlypng.p8.png'] = (2, text)
    fsobs.write_file(os.path.join(S, 'c', 'bad.p8'), b'not a cart\n')
    os.makedirs(os.path.join(S, 'home'), exist_ok=True)
    os.makedirs(os.path.join(S, 'c', 'dir.lua'), exist_ok=True)
    # the same fixtures beside a cart that lives in a sub-folder of the PICO-8 carts folder (HOME = S/home), and
    # decoys with the same names but other contents in the carts folder itself: a name is resolved against the
    # including cart's own directory, not against the include root
    import shutil
    shutil.copytree(os.path.join(S, 'c'), os.path.join(S, CART_DIR['carts']))
    for rel, data in LUA_POOL.items():
        if '/' not in rel:
            fsobs.write_file(os.path.join(S, CARTS_ROOT, rel), b'decoy_root=1\n')
    for name in CART_CODES:
        fsobs.write_file(os.path.join(S, CARTS_ROOT, name + '.p8'), p8_file(b'decoy_cart=1\n'))
    fsobs.write_file(os.path.join(S, CARTS_ROOT, 'sub', 'l0.lua'), b'decoy_sub=1\n')
    shutil.copytree(os.path.join(S, 'c'), os.path.join(S, CART_DIR['tw']))
    shutil.copytree(os.path.join(S, 'c'), os.path.join(S, CART_DIR['wip']))
    os.symlink(os.path.join(S, 'c'), os.path.join(S, CART_DIR['lnk']))
    SB['root'], SB['content'] = S, content
    SB['view'] = None
    SB['view_ok'] = []
    return S


def cleanup():
    fsobs.rm_sandbox(SB['root'])
    SB['root'] = SB['view'] = SB['content'] = SB['view_ok'] = None


def fs_view(S):
    """(files, carts) strings for the model: every regular file under S/c except the host"""
    if SB['view'] is None:
        from pico8.game.formatter.p8 import P8Formatter
        from pico8.game.formatter.p8png import P8PNGFormatter
        files, carts = [], []
        walk = list(os.walk(os.path.join(S, 'c'))) + list(os.walk(os.path.join(S, CARTS_ROOT))) + \
            list(os.walk(os.path.join(S, CART_DIR['tw']))) + list(os.walk(os.path.join(S, CART_DIR['lnk']))) + \
            list(os.walk(os.path.join(S, CART_DIR['wip'])))
        for root, _, fs in walk:
            for f in sorted(fs):
                if f == 'host.p8':
                    continue
                full = os.path.join(root, f)
                data = fsobs.read_file(full)
                files.append((full, data if f.endswith('.lua') else b''))
                cls = P8PNGFormatter if f.endswith('.p8.png') else (P8Formatter if f.endswith('.p8') else None)
                if cls is not None:
                    try:
                        with open(full, 'rb') as fh, fsobs.quiet():
                            ls = list(cls.from_file(fh, filename=full, do_includes=False).lua.to_lines())
                        carts.append((full, ls))
                        rel = os.path.relpath(full, os.path.join(S, 'c'))
                        if full.startswith(os.path.join(S, CART_DIR['carts']) + '/'):
                            rel = os.path.relpath(full, os.path.join(S, CART_DIR['carts']))
                        elif full.startswith(os.path.join(S, CART_DIR['tw']) + '/'):
                            rel = os.path.relpath(full, os.path.join(S, CART_DIR['tw']))
                        elif full.startswith(os.path.join(S, CART_DIR['lnk']) + '/'):
                            rel = os.path.relpath(full, os.path.join(S, CART_DIR['lnk']))
                        elif full.startswith(os.path.join(S, CART_DIR['wip']) + '/'):
                            rel = os.path.relpath(full, os.path.join(S, CART_DIR['wip']))
                        elif not full.startswith(os.path.join(S, 'c') + '/'):
                            rel = None                    # a decoy
                        if rel in SB['content']:
                            code = SB['content'][rel][1]
                            ok = b''.join(ls) == code
                            SB['view_ok'].append((rel, ok))
                    except Exception:  # noqa
                        pass
        SB['view'] = (files, carts)
    return SB['view']


def view_strings(S, host_path, host_bytes):
    files, carts = fs_view(S)
    h = fsobs.hx
    fl = ';'.join('%s=%s' % (h(p), h(d)) for p, d in files + [(host_path, b'')])
    cl = ';'.join('%s=%s' % (h(p), ','.join(h(x) for x in ls) if ls else '~') for p, ls in carts)
    return fl or '~', cl or '~'


# ---------------------------------------------------------------- generators
RE_TOKENS = [' ', '\t', '#include', 'a', '.', '.p8', '.p8.png', '.lua', ':', '1', 'b/']
PLAIN = ['x=1', 'y = "s"', '-- note', '', '  z=3', 'function f() end', '#includex.lua', '-- #include l0.lua',
         'print("#include l0.lua")', 'w=#t', '-->8', 'local q = {1,2}', '#INCLUDE l0.lua', '#include',
         '# include l0.lua', 'x=1 #include l0.lua', 'v=2  ', '\tu=3']


def re_strings(n):
    out = set()
    for k in range(0, n + 1):
        for t in itertools.product(RE_TOKENS, repeat=k):
            out.add(''.join(t))
    return sorted(out)


def all_names():
    names = list(LUA_POOL) + list(ONE_FORMAT)
    for n, dirs in CART_DIRS.items():
        for d in dirs:
            names += [d + n + '.p8', d + n + '.p8.png']
    return names


def n_tabs(name):
    kind, text = SB['content'][name] if SB['content'] else (0, b'')
    return sum(1 for ln in text.split(b'\n') if ln == b'-->8') + 1


def include_line(rng, name, sel):
    lead = rng.choice(['', '', ' ', '\t', '  '])
    mid = rng.choice([' ', ' ', '  ', '\t'])
    trail = rng.choice(['', '', ' ', '\t '])
    pre = rng.choice(['', '', '', '', '', './', './', 'sub/../'] if not name.startswith('sub/') else ['', '', './'])
    return lead + '#include' + mid + pre + name + ('' if sel is None else ':%d' % sel) + trail


def gen_host(rng, names):
    n_inc = rng.choice([0, 1, 1, 1, 2, 2, 3, 4])
    n_plain = rng.choice([0, 1, 2, 3, 5])
    items = ['P'] * n_plain + ['I'] * n_inc
    rng.shuffle(items)
    if n_inc and rng.random() < 0.3:
        items = ['I'] + items[:-1] if items[-1] != 'I' else items      # bias: include first
    host, used = [], []
    for it in items:
        if it == 'P':
            host.append(rng.choice(PLAIN))
        else:
            r = rng.random()
            name = rng.choice(MISSING) if r < 0.06 else rng.choice(names)
            sel = None
            if not name.endswith('.lua') and rng.random() < 0.6:
                tabs = n_tabs(name) if name in SB['content'] else 1
                sel = rng.randrange(0, tabs + 2)
            if name.endswith('.lua') and rng.random() < 0.03:
                sel = 1
            host.append(include_line(rng, name, sel))
            used.append(name)
    return host, used


def generate(tier, rng):
    quick = tier == 'quick'
    sandbox()
    strs = re_strings(5 if quick else 6)
    for i in range(0, len(strs), 20000):
        yield {'kind': 're', 'lines': strs[i:i + 20000]}
    alpha = ' \t#include.p8nglua:0123456789ab/\r\n-'
    extra = []
    for _ in range(4000 if quick else 40000):
        base = rng.choice([' #include a.lua', '#include  b/a.p8.png:12 ', '\t#include a.p8:0', '#include a.lua.p8.png:3x'])
        s = list(base)
        for _ in range(rng.randrange(1, 4)):
            j = rng.randrange(0, len(s) + 1)
            op = rng.random()
            if op < 0.4 and s:
                del s[min(j, len(s) - 1)]
            elif op < 0.8:
                s.insert(j, rng.choice(alpha))
            elif s:
                s[min(j, len(s) - 1)] = rng.choice(alpha)
        extra.append(''.join(s))
    yield {'kind': 're', 'lines': extra}
    # lines_for_tab
    tl = ['a=1\n', '-->8\n', '-->8x\n', ' -->8\n', 'b=2\n', '-->8', '\n', '--> 8\n']
    tabs = []
    for _ in range(1500 if quick else 20000):
        k = rng.randrange(0, 8)
        ls = [rng.choice(tl) for _ in range(k)]
        if ls and rng.random() < 0.3:
            ls[-1] = ls[-1].rstrip('\n')
        nt = sum(1 for x in ls if x.startswith('-->8'))
        tabs.append([ls, rng.choice([None] + list(range(0, nt + 3)))])
    yield {'kind': 'tab', 'items': tabs}
    fl = []
    for _ in range(1500 if quick else 20000):
        fl.append(''.join(rng.choice('ab\n\n\r') for _ in range(rng.randrange(0, 9))))
    yield {'kind': 'flines', 'items': fl}
    # loads
    names = all_names()
    for i in range(700 if quick else 12000):
        host, used = gen_host(rng, names)
        c = {'kind': 'load', 'host': host, 'names': sorted(set(used)), 'mode': rng.choice(['abs', 'abs', 'rel', 'relc'])}
        if host and host[-1] and rng.random() < 0.08:
            c['final_nl'] = False
        if i % 4 == 3:
            c['where'] = 'carts'       # the including cart lives in a sub-folder of the PICO-8 carts folder
        elif i % 8 == 1:
            c['where'] = 'tw'          # loaded twice in this process, the targets changed in between
            c['twice'] = 1
        elif i % 8 == 5:
            c['where'] = 'lnk'         # the cart's directory is reached through a symbolic link
        elif i % 16 == 2:
            c['where'] = 'wip'         # a sibling of the carts folder whose name begins with the folder's name
        yield c


def corpus_cases():
    sandbox()
    # the former glue defect (fixed): unterminated last line of a .lua / .p8.png target followed by a host line
    yield {'kind': 'load', 'host': ['x=1', '#include l1.lua', 'c=d'], 'names': ['l1.lua'], 'mode': 'abs'}
    yield {'kind': 'load', 'host': ['#include t6.p8.png', 'c=d'], 'names': ['t6.p8.png'], 'mode': 'abs'}
    yield {'kind': 'load', 'host': ['#include t5.p8.png:1', 'c=d'], 'names': ['t5.p8.png'], 'mode': 'rel'}
    # the three kinds, selectors at the edges, nested include line not expanded, missing target
    yield {'kind': 'load', 'host': ['h=1', '#include l0.lua', '#include sub/t0.p8:1', '#include t0.p8.png:3', 'z=0'],
           'names': ['l0.lua', 'sub/t0.p8', 't0.p8.png'], 'mode': 'abs'}
    yield {'kind': 'load', 'host': ['#include t2.p8', '#include t2.p8.png'], 'names': ['t2.p8', 't2.p8.png'], 'mode': 'relc'}
    yield {'kind': 'load', 'host': ['a=1', '#include nope.lua', 'b=2'], 'names': ['nope.lua'], 'mode': 'abs'}
    yield {'kind': 'load', 'host': ['a=1', '#include dir.lua', 'b=2'], 'names': ['dir.lua'], 'mode': 'abs'}
    yield {'kind': 'load', 'host': ['#include t3.p8:0', '#include t4.p8:1', '#include t4.p8:2', '#include t4.p8:3'],
           'names': ['t3.p8', 't4.p8'], 'mode': 'abs'}
    yield {'kind': 'load', 'host': ['#include l4.lua', 'after=1'], 'names': ['l4.lua'], 'mode': 'abs'}
    yield {'kind': 'load', 'host': ['#include bad.p8'], 'names': [], 'mode': 'abs'}
    # the former tab-counting defect (fixed): a -->8 line inside a long string / comment is a tab boundary
    yield {'kind': 'load', 'host': ['#include t8.p8:1', 'z=1', '#include t8.p8.png:2'], 'names': ['t8.p8', 't8.p8.png'], 'mode': 'abs'}
    yield {'kind': 'load', 'host': ['#include t9.p8:0', 'z=1'], 'names': ['t9.p8'], 'mode': 'abs'}
    yield {'kind': 'load', 'host': ['#include t10.p8:8', '#include t10.p8.png:10', '#include t10.p8:011', '#include t10.p8:12'],
           'names': ['t10.p8', 't10.p8.png'], 'mode': 'abs'}
    yield {'kind': 'load', 'host': ['#include ', 'x=1', '#include l0.lua:2', '#include a.txt', '#include l0.lua x'], 'names': ['l0.lua'], 'mode': 'abs'}
    yield {'kind': 'load', 'host': ['x=1', '#include l1.lua', 'c=d'], 'names': ['l1.lua'], 'mode': 'abs', 'final_nl': False}
    yield {'kind': 'load', 'host': ['x=1', '#include t5.p8:1'], 'names': ['t5.p8'], 'mode': 'abs', 'final_nl': False}
    # the former name-decoding defect (fixed): a PICO-8 glyph in the name of the target
    yield {'kind': 'load', 'host': ['a=1', '#include ' + GLYPH + 'lib.lua', '#include sub/' + GLYPH + '.lua', 'b=2'],
           'names': [GLYPH + 'lib.lua', 'sub/' + GLYPH + '.lua'], 'mode': 'abs'}
    yield {'kind': 'load', 'host': ['#include t' + GLYPH + '.p8:1', '#include t' + GLYPH + '.p8.png:0', '#include ' + GLYPH + GLYPH + '.lua'],
           'names': ['t' + GLYPH + '.p8', 't' + GLYPH + '.p8.png'], 'mode': 'rel'}
    # a cart in a sub-folder of the PICO-8 carts folder: names resolve beside the cart, not in the carts folder (decoys there)
    yield {'kind': 'load', 'host': ['a=1', '#include l0.lua', '#include sub/l0.lua', '#include t0.p8:1', 'b=2'],
           'names': ['l0.lua', 'sub/l0.lua', 't0.p8'], 'mode': 'abs', 'where': 'carts'}
    yield {'kind': 'load', 'host': ['#include l1.lua', '#include t1.p8.png'], 'names': ['l1.lua', 't1.p8.png'], 'mode': 'relc', 'where': 'carts'}
    # a missing target whose sibling in the other cart format exists: still missing
    yield {'kind': 'load', 'host': ['a=1', '#include only8.p8.png', 'b=2'], 'names': ['only8.p8.png'], 'mode': 'abs'}
    yield {'kind': 'load', 'host': ['a=1', '#include onlypng.p8:1', 'b=2'], 'names': ['onlypng.p8'], 'mode': 'abs'}
    yield {'kind': 'load', 'host': ['#include only8.p8:1', '#include onlypng.p8.png:0'], 'names': ['only8.p8', 'onlypng.p8.png'], 'mode': 'rel'}
    # loaded twice, targets edited in between; the cart's directory behind a symbolic link
    yield {'kind': 'load', 'host': ['a=1', '#include l0.lua', '#include t0.p8:1', 'b=2'], 'names': ['l0.lua', 't0.p8'],
           'mode': 'abs', 'where': 'tw', 'twice': 1}
    yield {'kind': 'load', 'host': ['a=1', '#include l0.lua', '#include sub/l0.lua', '#include t0.p8:1', '#include t1.p8.png', 'b=2'],
           'names': ['l0.lua', 'sub/l0.lua', 't0.p8', 't1.p8.png'], 'mode': 'abs', 'where': 'lnk'}
    yield {'kind': 'load', 'host': ['#include l1.lua'], 'names': ['l1.lua'], 'mode': 'relc', 'where': 'lnk'}
    yield {'kind': 'load', 'host': ['a=1', '#include l0.lua', '#include sub/t0.p8:1', 'b=2'], 'names': ['l0.lua', 'sub/t0.p8'],
           'mode': 'abs', 'where': 'wip'}
    # lone carriage returns in an included file
    yield {'kind': 'load', 'host': ['a=1', '#include l8.lua', '#include l9.lua', 'b=2'], 'names': ['l8.lua', 'l9.lua'], 'mode': 'abs'}
    yield {'kind': 'nofile', 'host': ['x=1', '#include l0.lua']}
    yield {'kind': 'nofile', 'host': ['x=1', 'y=2']}


# ---------------------------------------------------------------- implementation runs
_OBS = {}


def run_impl(case):
    o = _run_impl(case)
    _OBS[id(case)] = o
    return o


def _run_impl(case):
    S = sandbox()
    if case['kind'] == 're':
        from pico8.game.formatter import p8
        rows = []
        for s in case['lines']:
            m = p8.INCLUDE_LINE_RE.match(s.encode('latin-1'))
            rows.append(None if m is None else list(m.groups()))
        return {'rows': rows}
    if case['kind'] == 'tab':
        from pico8.game.formatter import p8
        return {'rows': [list(p8.lines_for_tab(iter([x.encode('latin-1') for x in ls]), n)) for ls, n in case['items']]}
    if case['kind'] == 'flines':
        return {'rows': [list(io.BytesIO(s.encode('latin-1'))) for s in case['items']]}
    from pico8.game import file as pfile
    from pico8.game.formatter import p8
    if case['kind'] == 'nofile':
        data = fsobs.p8_text(''.join(x + '\n' for x in case['host']).encode('utf-8'))
        obs = {'S': S}
        with fsobs.quiet():
            try:
                g = p8.P8Formatter.from_file(io.BytesIO(data))
                obs['load'] = b''.join(g.lua.to_lines())
            except Exception as e:  # noqa
                obs['load_err'] = lib.exc_name(e)
            raw = p8._get_raw_data_from_p8_file(io.BytesIO(data)).section_lines.get('lua', [])
            obs['lualines'] = raw
            try:
                obs['pi'] = list(p8.process_includes(iter(raw), None))
            except Exception as e:  # noqa
                obs['pi_err'] = lib.exc_name(e)
        return obs
    D = os.path.join(S, CART_DIR[case.get('where', 'c')])
    host_path = os.path.join(D, 'host.p8')
    cwd, arg = {'abs': (S, host_path), 'rel': (S, os.path.relpath(host_path, S)), 'relc': (D, 'host.p8')}[case['mode']]
    if case.get('final_nl', True):
        data = fsobs.p8_text(''.join(x + '\n' for x in case['host']).encode('utf-8'))
    else:       # the file ends inside its code section, without a final newline
        data = fsobs.p8_text('\n'.join(case['host']).encode('utf-8'), tail=b'')
    fsobs.write_file(host_path, data)
    obs = {'S': S, 'cwd': cwd, 'arg': arg, 'home': os.path.join(S, 'home'), 'host_path': host_path}
    if case.get('twice'):
        # the cart is loaded once while its .lua / .p8 targets hold OTHER text, the targets get the text of the
        # fixture back, and the load that is observed follows in the same process: what was read earlier from a
        # path must not be remembered
        saved = {}
        for name in case['names']:
            full = os.path.normpath(os.path.join(D, name))
            if os.path.isfile(full) and not name.endswith('.png'):
                saved[full] = fsobs.read_file(full)
                fsobs.write_file(full, b'stale_before=1\n' if name.endswith('.lua') else p8_file(b'stale_cart=1\n-->8\nstale_tab=1\n'))
        with fsobs.environment(cwd=cwd, home=obs['home']), fsobs.quiet():
            try:
                pfile.from_file(arg)
            except Exception:  # noqa
                pass
        for full, data0 in saved.items():
            fsobs.write_file(full, data0)
    with fsobs.environment(cwd=cwd, home=obs['home']), fsobs.quiet():
        with open(arg, 'rb') as fh:
            raw = p8._get_raw_data_from_p8_file(fh, filename=arg).section_lines.get('lua', [])
        obs['lualines'] = raw
        try:
            obs['pi'] = list(p8.process_includes(iter(raw), arg))
        except Exception as e:  # noqa
            obs['pi_err'] = lib.exc_name(e)
        try:
            g = pfile.from_file(arg)
            obs['load'] = b''.join(g.lua.to_lines())
        except Exception as e:  # noqa
            obs['load_err'] = lib.exc_name(e)
    # what the cart's directory offers under the names the case mentions (for the Spec monitor)
    offered = []
    for name in case['names']:
        for variant in {name, './' + name, 'sub/../' + name}:
            full = os.path.normpath(os.path.join(D, variant))
            rel = os.path.relpath(full, D)
            if os.path.isfile(full) and rel in SB['content']:
                k, text = SB['content'][rel]
                offered.append((variant, k, text))
    obs['offered'] = offered
    os.remove(host_path)
    return obs


# ---------------------------------------------------------------- model side
def model_requests(case, obs):
    h = fsobs.hx
    if case['kind'] == 're':
        return ['re ' + h(s.encode('latin-1')) for s in case['lines']]
    if case['kind'] == 'tab':
        return ['tab %s %s' % (','.join(h(x.encode('latin-1')) for x in ls) if ls else '~', '~' if n is None else n)
                for ls, n in case['items']]
    if case['kind'] == 'flines':
        return ['flines ' + h(s.encode('latin-1')) for s in case['items']]
    ls = ','.join(h(x) for x in obs['lualines']) if obs['lualines'] else '~'
    if case['kind'] == 'nofile':
        return ['pi %s %s ~ %s ~ ~' % (h('/'), h('/'), ls)]
    fl, cl = view_strings(obs['S'], obs['host_path'], b'')
    return ['pi %s %s %s %s %s %s' % (h(obs['cwd']), h(obs['home']), h(obs['arg']), ls, fl, cl)]


def _lines(ans):
    return [] if ans == '~' else [lib.unhx(x) for x in ans.split(',')]


def compare(case, obs, answers):
    if case['kind'] == 're':
        for s, row, a in zip(case['lines'], obs['rows'], answers):
            if row is None:
                exp = 'NONE'
            else:
                exp = '%s %s %s' % (fsobs.hx(row[0]), fsobs.hx(row[1]), '~' if row[2] is None else int(row[2][1:]))
            if a != exp:
                return 'INCLUDE_LINE_RE.match(%r): re %s, model %s' % (s, exp, a)
        return None
    if case['kind'] in ('tab', 'flines'):
        for it, row, a in zip(case['items'], obs['rows'], answers):
            if _lines(a) != row:
                return '%s(%r): implementation %r, model %r' % (case['kind'], it, row, _lines(a))
        return None
    a = answers[0]
    if 'pi_err' in obs:
        if a == 'ERR ' + obs['pi_err'] or (a == 'ERR OtherError' and obs['pi_err'] not in ('IncludeNotFound', 'IncludeOutside', 'AssertionError')):
            return None
        return 'process_includes raised %s, model %s' % (obs['pi_err'], a[:80])
    if not a.startswith('OK '):
        return 'process_includes returned %d lines, model %s' % (len(obs['pi']), a[:80])
    if _lines(a[3:]) != obs['pi']:
        return 'process_includes lines: implementation %r, model %r' % (obs['pi'], _lines(a[3:]))
    return None


# ---------------------------------------------------------------- monitor side
def _mon_files(obs):
    return ';'.join('%s:%d:%s' % (fsobs.hx(to_p8scii(n)), k, fsobs.hx(t)) for n, k, t in obs.get('offered', [])) or '~'


def monitor_requests(case, obs):
    h = fsobs.hx
    if case['kind'] == 're':
        return []
    if case['kind'] in ('tab', 'flines'):
        return []
    # the cart's code as the harness wrote it (ASCII), not as the implementation's reader returned it
    host = to_p8scii(''.join(x + '\n' for x in case['host']) if case.get('final_nl', True) else '\n'.join(case['host']))
    fl = _mon_files(obs)
    r = ['holds %s %s %s' % (h(host), fl, h(b''.join(obs['pi'])) if 'pi' in obs else 'ERR')]
    # the loaded cart: when the splice itself succeeded (judged by the request above) but the spliced text is
    # not Lua the lexer / parser accepts (half of a long string selected as a tab, ...), the load fails for a
    # reason outside this property: no second claim
    if not ('pi' in obs and obs.get('load_err') in ('LexerError', 'ParserError')):
        r.append('holds %s %s %s' % (h(host), fl, h(obs['load']) if 'load' in obs else 'ERR'))
    return r


def spec_selftest(monitor_exe, case, obs):
    """the Spec's own classify / text_lines against an independent reading (harness-side sanity of the monitor)"""
    problems = []
    if case['kind'] == 're':
        reqs = ['cls ' + fsobs.hx(s.encode('latin-1')) for s in case['lines'] if '\n' not in s]
        lines = [s for s in case['lines'] if '\n' not in s]
        ans = lib.run_driver_parallel(monitor_exe, reqs)
        for s, row, a in zip(lines, [r for s2, r in zip(case['lines'], obs['rows']) if '\n' not in s2], ans):
            if a == 'U':
                continue
            if a == 'P':
                if row is not None:
                    problems.append('Spec says plain, regex matches: %r' % s)
            else:
                _, n, k, t = a.split(' ')
                if row is None:
                    problems.append('Spec says include, regex does not match: %r' % s)
                else:
                    name = lib.unhx(n)
                    if row[0] + row[1] != name or (t == '~') != (row[2] is None) or (t != '~' and int(t) != int(row[2][1:])):
                        problems.append('Spec %r vs regex %r on %r' % (a, row, s))
    return problems


def signature(case, obs):
    if case['kind'] not in ('load', 'nofile'):
        return 'C20/' + case['kind']
    unterminated = [n for n, k, t in obs.get('offered', []) if t and not t.endswith(b'\n')]
    if ('pi_err' in obs) != ('load_err' in obs):
        return 'C20/pi-vs-load'
    if 'pi_err' in obs:
        if obs['pi_err'] == 'UnicodeError':
            return 'C20/name/not-decoded-as-p8scii'
        return 'C20/unexpected-error/' + obs['pi_err']
    multi = [n for n, k, t in obs.get('offered', []) if k and (b'[[' in t)]
    if multi and any(('#include' in x and n in x and ':' in x) for x in case['host'] for n in multi):
        return 'C20/tab/separator-inside-multiline-token'
    out_lines = (b''.join(obs['pi']) if 'pi' in obs else obs.get('load', b'')).split(b'\n')
    for n, k, t in obs.get('offered', []):
        last = t.split(b'\n')[-1] if t and not t.endswith(b'\n') else b''
        if last and any(ln.startswith(last) and len(ln) > len(last) and ln not in t.split(b'\n') for ln in out_lines):
            return 'C20/glue/no-final-newline'
    return 'C20/splice/other'


def what(case, obs):
    return '%s: %s' % (signature(case, obs), describe(case, obs))


def describe(case, obs):
    if case['kind'] in ('re', 'tab', 'flines'):
        return {'kind': case['kind'], 'n': len(case.get('lines') or case.get('items'))}
    d = dict(case)
    if obs:
        d['result'] = obs.get('load_err') or (obs.get('load') or b'').decode('latin-1')
    return d


def minimize(case, obs, answers):
    return case


def nontrivial_key(case, obs):
    if case['kind'] not in ('load', 'nofile'):
        return None
    if any('#include' in x for x in case['host']):
        return (tuple(case['host']), case.get('mode'))
    return None


def histogram_key(case, obs):
    if case['kind'] not in ('load', 'nofile'):
        return case['kind']
    if 'pi' in obs and obs.get('load_err') in ('LexerError', 'ParserError'):
        return 'load:spliced-text-not-lexable'
    return 'load:' + (obs.get('load_err') or 'OK')


def run_cases(cases, ctx):
    mod = __import__('props.c20', fromlist=['x'])
    _OBS.clear()
    try:
        res = lib.standard_run(mod, cases, ctx)
        # how many loads the Spec leaves undefined; and the Spec's recogniser against the regex
        if ctx.get('monitor_exe'):
            judged = {'0': 0, '1': 0, '2': 0}
            reqs = []
            for c in cases:
                if c['kind'] in ('load', 'nofile') and id(c) in _OBS:
                    o = _OBS[id(c)]
                    for r in monitor_requests(c, o)[:1]:
                        reqs.append('judge' + r[5:])
            for a in lib.run_driver_parallel(ctx['monitor_exe'], reqs):
                judged[a] = judged.get(a, 0) + 1
            vk = SB.get('view_ok') or []
            res['histogram']['view_ok:carts'] = sum(1 for _, ok in vk if ok)
            for rel, ok in vk:
                if not ok:
                    res['disagreements'].append({'case': {'kind': 'view', 'cart': rel}, 'summary': 'view_ok',
                                                 'difference': 'the reader does not return the code the fixture %s was made from' % rel})
            res['histogram']['spec:undefined'] = judged.get('0', 0)
            res['histogram']['spec:holds'] = judged.get('1', 0)
            for c in cases:
                if c['kind'] == 're' and id(c) in _OBS:
                    for p in spec_selftest(ctx['monitor_exe'], c, _OBS[id(c)])[:3]:
                        res['disagreements'].append({'case': {'kind': 're', 'lines': c['lines'][:3]}, 'summary': 'spec-selftest',
                                                     'difference': p})
    finally:
        cleanup()
        _OBS.clear()
    n = 0
    for c in cases:
        n += len(c.get('lines') or c.get('items') or [1])
    res['evaluations'] = n
    return res


def search(ctx, budget):
    import random
    import time
    rng = random.Random(ctx['seed'] + 1)
    t0 = time.time()
    viol, n = [], 0
    mod = __import__('props.c20', fromlist=['x'])
    try:
        gen = (c for c in itertools.chain(corpus_cases(), generate('thorough', rng)) if c['kind'] in ('load', 'nofile'))
        while time.time() - t0 < budget and not viol:
            batch = list(itertools.islice(gen, 300))
            if not batch:
                break
            r = lib.standard_run(mod, batch, {'monitor_exe': ctx.get('monitor_exe'), 'model_exe': None})
            n += r['evaluations']
            viol.extend(r['violations'])
    finally:
        cleanup()
    return {'violations': viol, 'evaluations': n}
