"""In-process observation of picotool's file-system activity (properties C11 C12 C13 C14 C20).

No instrumentation is added to /repo: the harness temporarily replaces the *attributes*
builtins.open, os.path.isfile, os.path.exists (and, for C11, tempfile.TemporaryFile, os.remove,
os.rename, os.replace) by recording wrappers that delegate to the originals, and restores them.
All files live in a fresh directory under tmp_base() that is removed afterwards.
"""
import builtins
import contextlib
import io
import os
import shutil
import tempfile


def tmp_base():
    """$VERIF_TMP, else <parent of the verif clone>/tmp when it exists (a worker's /work/<name>/tmp),
    else <verif>/work/tmp (git-ignored).  Never the system /tmp."""
    b = os.environ.get('VERIF_TMP')
    if not b:
        verif = os.path.dirname(os.path.dirname(os.path.dirname(os.path.abspath(__file__))))
        sib = os.path.join(os.path.dirname(verif), 'tmp')
        b = sib if os.path.isdir(sib) and os.path.dirname(verif) != '/' else os.path.join(verif, 'work', 'tmp')
    os.makedirs(b, exist_ok=True)
    return b


def mk_sandbox(tag):
    return os.path.realpath(tempfile.mkdtemp(prefix='verif_%s_' % tag, dir=tmp_base()))


def rm_sandbox(path):
    if path and os.path.isdir(path) and os.path.basename(path).startswith('verif_'):
        shutil.rmtree(path, ignore_errors=True)


def write_file(path, data):
    os.makedirs(os.path.dirname(path), exist_ok=True)
    with io.open(path, 'wb') as fh:
        fh.write(data)


def read_file(path):
    with io.open(path, 'rb') as fh:
        return fh.read()


class Recorder:
    """Records ('p', path) for os.path.isfile / os.path.exists and ('o', path, mode) for open()."""

    def __init__(self):
        self.events = []

    def __enter__(self):
        self._open = builtins.open
        self._isfile = os.path.isfile
        self._exists = os.path.exists
        rec = self

        def w_open(file, mode='r', *a, **kw):
            if isinstance(file, (str, bytes, os.PathLike)):
                rec.events.append(('o', os.fsdecode(file), mode))
            return rec._open(file, mode, *a, **kw)

        def w_isfile(p):
            rec.events.append(('p', os.fsdecode(p), 'isfile'))
            return rec._isfile(p)

        def w_exists(p):
            rec.events.append(('p', os.fsdecode(p), 'exists'))
            return rec._exists(p)

        builtins.open = w_open
        os.path.isfile = w_isfile
        os.path.exists = w_exists
        return self

    def __exit__(self, *exc):
        builtins.open = self._open
        os.path.isfile = self._isfile
        os.path.exists = self._exists
        return False


@contextlib.contextmanager
def quiet():
    """Capture picotool's console output (util._write_stream / util._error_stream)."""
    from pico8 import util
    ow, oe, ov = util._write_stream, util._error_stream, util._verbosity
    buf = io.StringIO()
    util._write_stream = buf
    util._error_stream = buf
    try:
        yield buf
    finally:
        util._write_stream, util._error_stream, util._verbosity = ow, oe, ov


@contextlib.contextmanager
def environment(cwd=None, home=None, env=None):
    """Temporarily change working directory / HOME / other environment variables."""
    old_cwd = os.getcwd()
    saved = {}
    changes = dict(env or {})
    if home is not None:
        changes['HOME'] = home
    for k, v in changes.items():
        saved[k] = os.environ.get(k)
        if v is None:
            os.environ.pop(k, None)
        else:
            os.environ[k] = v
    if cwd is not None:
        os.chdir(cwd)
    try:
        yield
    finally:
        os.chdir(old_cwd)
        for k, v in saved.items():
            if v is None:
                os.environ.pop(k, None)
            else:
                os.environ[k] = v


def hx(s):
    b = s if isinstance(s, (bytes, bytearray)) else s.encode('utf-8')
    return bytes(b).hex() if b else '-'


def hxlist(items):
    return ','.join(hx(x) for x in items) if items else '~'


def trace_str(events):
    return ','.join('%s:%s' % (e[0], hx(e[1])) for e in events) if events else '~'


P8_HEADER = b'pico-8 cartridge // http://www.pico-8.com\nversion 33\n'


def p8_text(lua, tail=b'__gfx__\n'):
    """A minimal .p8 file with the given Lua section bytes."""
    return P8_HEADER + b'__lua__\n' + lua + tail
