"""C19 - luamin keeps the title and author comments that PICO-8 reads."""
import random
import time

import lib
from props import luagen
from props import mincommon as mc

ID = 'C19'
GEN_FILES = ['T_lexer', 'T_luanames', 'T_minifier', 'T_minifier_p8', 'T_minwiring_lua', 'T_minwiring_tool', 'T_minwiring_build', 'T_pins_lexer',
             # source pins of the hand-modelled modules (gen/kernels_pins.py)
             'T_pins_luamin', 'T_pins_luacontainer']
COQ_PROPERTY = 'theories/Properties/C19.vo'
COQ_EXTRA = ['theories/Proofs/LexerPins.vo',
             'theories/Proofs/LuaMinPins.vo', 'theories/Proofs/LuaContainerPins.vo']
MODEL = ('ExC01', 'c01_main.ml')
MONITOR = ('MonC01', 'c01_mon_main.ml')
CASE_TIMEOUT = 120
RULE = ('header-shape enumerator: 0-3 leading comments x {--, //, --[[ ]], multi-line block, empty, ---} x blank lines / '
        'spaces before and between x LF / CR LF x code on the next line or (block comments) on the same line x bodies '
        'with later comments (quick: every 4th shape, thorough: all 5,910), + generated programs with generated headers, '
        '+ the two CLI paths. Every case: yielded chunks vs the extracted model, and the extracted holds_C19 (reference '
        'tokenizer on source and on the real output: the first two leading comments verbatim at the top, each followed '
        'by a line break, no other comment token, as many code tokens as before) plus Lua.get_title()/get_byline() of '
        'the written text against the text of those comments. distinct+non-trivial = distinct sources inside the '
        'reference dialect with at least one leading comment')
ASSUMPTIONS = ['sources outside the reference dialect (spec_lex = None) carry no claim',
               'PICO-8 itself is not available: its title/byline rule is taken to be the first two comment lines, and the '
               'stats rule is Lua.get_title / get_byline (token 0 / token 2)']
PARTIAL = ''
CLAIM = dict(
    text=("Theorems (Coq, closed under the global context) about the same model and reference lexer as C01, for every token "
          "sequence of the dialect, configuration and keep file: C19_header - the first two comments that precede any code "
          "are written verbatim, each followed by a line break, as a prefix of the output (header_text); under the reference "
          "rules the output starts with exactly these comment tokens each followed by a newline token, contains no other "
          "comment token, has as many code tokens as the input, and the title/byline rule of stats reads the two comments "
          "(C19_titles); C19_holds - holds_C19 is true of the model's output; C19_total; C19_end_to_end - composed with the "
          "lexer worker's lex_agrees_code (C07), from the source bytes, no hypothesis about the lexer left; C19_lines / "
          "C19_end_to_end_chunks / C19_header_chunks - the same (holds_C19, and the header statement itself) for the source "
          "as per-line chunks, by C07_chunking. "
          "Tie: correspondence of lexer model + writer model with the real writer on the header-shape enumerator (0-3 leading "
          "comments x comment forms x blank lines/spaces x LF/CRLF x code on the same/next line), generated programs and both "
          "CLI paths; the extracted holds_C19 on the implementation's real output plus Lua.get_title()/get_byline()."),
    note=("Trusted: as C01. PICO-8 itself is not available offline; its rule is taken to be the first two comment lines, the "
          "stats rule is token 0 / token 2 as in Lua.get_title / get_byline."),
    technique='Coq proof (induction over the writer with header counters as invariant) + correspondence + extracted monitor',
    design_ref='8 C19')

_CTX = {}
_SELF = 'props.c19'
CLAUSE = {1: 'output-does-not-lex', 2: 'header', 3: 'title-byline', 4: 'code-token-count', 6: 'stats-title-byline'}


def generate(tier, rng):
    quick = tier == 'quick'
    for i, src in enumerate(mc.header_shapes()):
        if quick and i % 4:
            continue
        yield {'kind': 'prog', 'src': lib.hx(src), 'cfg': mc.CONFIGS[i % 3] if not quick else 'default'}
    for i in range(200 if quick else 3000):
        eol = rng.choice([b'\n', b'\n', b'\r\n'])
        src = luagen.header(rng, eol) + luagen.program_source(rng, nstat=rng.choice([1, 2, 4]), eol=eol, with_header=False)
        yield {'kind': 'prog', 'src': lib.hx(src), 'cfg': mc.pick_cfg(rng)}
    shapes = [s for s in mc.header_shapes(eols=(b'\n',)) if not any(b >= 0x80 for b in s)]
    for i in range(24 if quick else 240):
        yield {'kind': 'cli-luamin' if i % 2 == 0 else 'cli-build', 'src': lib.hx(rng.choice(shapes)), 'cfg': mc.pick_cfg(rng)}


def corpus_cases():
    for s in [b'-- title\n-- author\nx=1\n', b'\n\n  -- title\n\n-- author\n-- third\nx=1\n', b'--[[t]] x=1 -- not header\n',
              b'// t\n--[[ b\nb2 ]]\n--[[c]]x=1\n', b'x=1\n-- late\n', b'--\n--\n', b'', b'-- only\n',
              b'-- t\r\n-- b\r\nx=1\r\n', b'-- my game\n-- by me', b'-- my game', b'--[[a]]', b'-- t\n-- b\n-- c', b'// t\n// b', b'--[[a]]--[[b]]--[[c]]x=1\n', b'-- t - -\n--\tb\t\nx = 1 - -2\n']:
        yield {'kind': 'prog', 'src': lib.hx(s), 'cfg': 'default'}
    yield {'kind': 'cli-luamin', 'src': lib.hx(b'-- title\n-- author\nfoo=1\n'), 'cfg': 'default'}
    yield {'kind': 'cli-build', 'src': lib.hx(b'\n-- title\n\n--[[ author ]] foo=1\n'), 'cfg': 'keep-all'}


def run_impl(case):
    return mc.run_impl(case)


def model_requests(case, obs):
    return [mc.model_request(case)]


def compare(case, obs, answers):
    return mc.compare(case, obs, answers[0])


def _opt(b):
    return 'N' if b is None else lib.hx(bytes(b))


def monitor_requests(case, obs):
    if 'out' not in obs:
        return []
    return ['c19 %s %s %s %s' % (case['src'], lib.hx(obs['out']), _opt(obs.get('title')), _opt(obs.get('byline')))]


def _answer(case, obs):
    if 'mon' in obs:
        return obs['mon']
    exe = _CTX.get('monitor_exe')
    if not exe or 'out' not in obs:
        return 'true'
    obs['mon'] = lib.run_driver(exe, monitor_requests(case, obs))[0]
    return obs['mon']


def _shape(src):
    """class of the header: kinds of the leading comments"""
    out = []
    i = 0
    while i < len(src) and len(out) < 4:
        if src[i:i + 1] in b' \t\r\n':
            i += 1
        elif src.startswith(b'--[[', i):
            j = src.find(b']]', i)
            out.append('block-ml' if b'\n' in src[i:j] else 'block')
            i = len(src) if j < 0 else j + 2
        elif src.startswith(b'--', i) or src.startswith(b'//', i):
            out.append(src[i:i + 2].decode())
            j = src.find(b'\n', i)
            i = len(src) if j < 0 else j
        else:
            break
    return '+'.join(out) or 'none'


def signature(case, obs):
    f = _answer(case, obs).split(' ')
    if f[0] != 'false':
        return 'C19/none'
    return 'C19/%s/%s%s' % (CLAUSE.get(int(f[1]), f[1]), _shape(lib.unhx(case['src'])),
                            '/' + case['kind'] if case['kind'].startswith('cli') else '')


def what(case, obs):
    f = _answer(case, obs).split(' ')
    cl = int(f[1]) if len(f) > 1 else 0
    txt = {1: 'the minified text is not a token sequence of the dialect',
           2: 'the first two leading comments are not verbatim at the top, each on its own line, or another comment is in the output',
           3: 'title / byline of the output differ from the leading comments', 4: 'the number of code tokens changed (code <-> comment)',
           6: 'Lua.get_title()/get_byline() of the output differ from the leading comments'}.get(cl, 'holds_C19 is false')
    return '%s: %r -> %r' % (txt, lib.unhx(case['src'])[:80], obs.get('out', b'')[:80])


def describe(case, obs):
    d = {'kind': case['kind'], 'cfg': case.get('cfg'), 'src': repr(lib.unhx(case['src'])[:100]), 'header': _shape(lib.unhx(case['src']))}
    if obs:
        if 'out' in obs:
            d['out'] = repr(obs['out'][:100])
            d['title'], d['byline'] = repr(obs.get('title')), repr(obs.get('byline'))
        if 'raised' in obs:
            d['raised'] = obs['raised']
        if 'mon' in obs:
            d['monitor'] = obs['mon']
    return d


def minimize(case, obs, answers):
    obs['mon'] = answers[0]
    return case


def nontrivial_key(case, obs):
    if 'out' not in obs or _shape(lib.unhx(case['src'])) == 'none':
        return None
    return (case['kind'], case['src'], case.get('cfg'))


def histogram_key(case, obs):
    if 'raised' in obs:
        return '%s/raised-%s' % (case['kind'], obs['raised'])
    src = lib.unhx(case['src'])
    return '%s/%s/%s' % (case['kind'], 'crlf' if b'\r' in src else 'lf', _shape(src))


def run_cases(cases, ctx):
    _CTX.update(ctx)
    try:
        res = lib.standard_run(__import__(_SELF, fromlist=['x']), cases, ctx)
        exe = ctx.get('monitor_exe')
        if exe:
            srcs = sorted(set(c['src'] for c in cases))
            ans = lib.run_driver_parallel(exe, ['lex ' + s for s in srcs])
            inside = {s for s, a in zip(srcs, ans) if a != 'N'}
            res['histogram']['sources-inside-reference-dialect'] = len(inside)
            res['histogram']['sources-outside-reference-dialect'] = len(srcs) - len(inside)
            res['nontrivial'] = len({(c['kind'], c['src'], c.get('cfg')) for c in cases
                                     if c['src'] in inside and _shape(lib.unhx(c['src'])) != 'none'})
    finally:
        mc.cleanup()
    return res


def search(ctx, budget):
    _CTX.update(ctx)
    rng = random.Random(ctx['seed'] + 1)
    t0 = time.time()
    viol, n = [], 0
    mod = __import__(_SELF, fromlist=['x'])
    shapes = mc.header_shapes()
    try:
        while time.time() - t0 < budget and not viol:
            batch = []
            for s in shapes:
                batch.append({'kind': 'prog', 'src': lib.hx(s), 'cfg': mc.pick_cfg(rng)})
                if len(batch) >= 400:
                    break
            for _ in range(50):
                eol = rng.choice([b'\n', b'\r\n'])
                batch.append({'kind': 'prog', 'cfg': mc.pick_cfg(rng),
                              'src': lib.hx(luagen.header(rng, eol) + luagen.program_source(rng, eol=eol, with_header=False))})
            r = lib.standard_run(mod, batch, {'monitor_exe': ctx.get('monitor_exe'), 'model_exe': None})
            n += len(batch)
            viol.extend(r['violations'])
    finally:
        mc.cleanup()
    return {'violations': viol, 'evaluations': n}
