"""C11 - a failed cart write never damages the file already at the destination."""
import io
import os
import random
import shutil

import lib
from props import fsx

ID = 'C11'
GEN_FILES = ['T_file_proto', 'T_p8_proto', 'T_png_proto',
             # source pins of the hand-modelled modules (gen/kernels_pins.py)
             'T_pins_file', 'T_pins_tool', 'T_pins_p8', 'T_pins_p8png', 'T_pins_build', 'T_pins_fmtbase']
COQ_PROPERTY = 'theories/Properties/C11.vo'
COQ_EXTRA = ['theories/Proofs/FilePins.vo', 'theories/Proofs/ToolPins.vo', 'theories/Proofs/P8Pins.vo', 'theories/Proofs/P8PngPins.vo', 'theories/Proofs/BuildPins.vo', 'theories/Proofs/FmtBasePins.vo']
MODEL = ('ExC11', 'c11_main.ml')
MONITOR = ('MonC11', 'c11_mon_main.ml')
CASE_TIMEOUT = 600
RULE = ('one evaluation = one real run of a cart writer under in-process wrappers around builtins.open, '
        'tempfile.TemporaryFile, os.remove/unlink/truncate/rename/replace, shutil.copyfile/move and the two formatters\' '
        'to_file (normal return = EncoderDone): file.to_file through the API with {echo, minify, format} writers, and the '
        'command-line paths writep8, luamin, luafmt, luafmt --overwrite, build over its own OUT (tool.main), x {.p8, .p8.png} '
        'x {destination exists, absent} x {small, medium cart}; faults: the temporary stream\'s write raises at call k for '
        'EVERY k of the run (API paths; a stride plus both ends for the CLI paths in quick), and internal failure sources: a '
        'Lua writer that raises (during the sanity pass / during the real pass, at several lines), a writer whose output '
        'does not re-parse, a section whose to_lines / to_bytes raises, an unreadable label picture (destination is not a '
        'PNG; explicit label file is not a PNG), version > 255 for .p8.png, Lua that does not compress. Each run: recorded '
        'trace == trace of the extracted protocol model (chunk lengths taken from the unfaulted reference run), extracted '
        'monitor holds_C11 on (trace, destination bytes same?), directory listing unchanged after a failure. '
        'distinct+non-trivial = distinct (path, format, destination state, writer, size, fault kind, fault index) whose '
        'run failed before the encoder returned')
ASSUMPTIONS = ['a path is its byte string after os.path.realpath; no symbolic links or other processes in the sandbox',
               'a failure of the final copy (open(filename)/finalfh.write after the encoder returned) is outside the '
               'property\'s statement (C11_final_copy_window_observation)']
PARTIAL = ('runtime behaviour (what CPython and the OS do when an exception propagates through the with-blocks) is observed '
           'for every fault index, not proved; the theorems are about the protocol model and the monitor')
TRUSTED = ['in-process wrappers of harness/props/fsx.py (a write path that bypasses builtins.open / tempfile / os.* / shutil '
           'would be seen only by the before/after comparison of the destination bytes)']
CLAIM = dict(
    text=("Theorems (Coq, closed under the global context): C11_monitor_sound / C11_holds_sound - if the extracted trace "
          "predicate accepts a trace, then after EVERY prefix in which the encoder has not finished, from every file system, "
          "the destination holds exactly what it held before (bytes or absence); C11_model_safe - the model of file.to_file + "
          "formatter write sequence is safe for EVERY formatter, destination, label source, chunk list and fault index k, a "
          "failed write leaves every path as it was, an unfaulted write stores the concatenated chunks under the destination "
          "and nothing else; C11_model_prefix_intact (crash consistency before the encoder returns); C11_cli_safe / "
          "C11_cli_fail_untouched / C11_luafmt_overwrite_dest (tool.py process_game_files incl. --overwrite writing over its "
          "input) and C11_build_safe / C11_build_fail_untouched (build over its own OUT); "
          "C11_final_copy_window_observation states the limit (the final copy is not atomic). Tie: FORMATTERS order, the open "
          "mode and the ordered call skeletons of file.to_file, P8Formatter.to_file, P8PNGFormatter.to_file are regenerated "
          "and pinned; every real run's recorded trace must equal the extracted model's trace; the extracted Spec-only "
          "monitor holds_C11 is evaluated on the recorded trace and the before/after bytes, for every fault index."),
    note=("Level: proof for the protocol model and the monitor's soundness, PARTIAL for run-time behaviour: exception "
          "propagation, the with-statement, tempfile and the OS are observed under fault injection at every write index and "
          "for the internal failure sources, not proved. Trusted: Coq kernel+VM, extraction, OCaml glue, the wrappers."),
    technique='Coq proof of a file-system protocol model and of trace-monitor soundness + fault injection at every write index with extracted-model trace correspondence and extracted monitor',
    design_ref='8 C11')

SECS = ['lua', 'gfx', 'gff', 'map', 'sfx', 'music']


# ----------------------------------------------------------------------------- carts
def _lua_prog(rng, n):
    lines = [b'-- c11 cart\n']
    for i in range(n):
        k = i % 4
        if k == 0:
            lines.append(b'v_%d=%d\n' % (i, rng.randrange(1000)))
        elif k == 1:
            lines.append(b'function f_%d(a,b) return a+b*%d end\n' % (i, rng.randrange(100)))
        elif k == 2:
            lines.append(b'print("n %d")\n' % rng.randrange(1000))
        else:
            lines.append(b'if v_0 then v_0=%d end\n' % rng.randrange(100))
    return b''.join(lines)


def _mk_game(seed, size, version=33, label=True, lua=None):
    from pico8.game.game import Game
    from pico8.gfx.gfx import Gfx
    from pico8.lua.lua import Lua
    from pico8.sfx.sfx import Sfx
    from pico8.music.music import Music
    rng = random.Random(seed)
    g = Game.make_empty_game(version=version)
    for s in SECS[1:]:
        sec = getattr(g, s)
        sec._data[:] = rng.randbytes(len(sec._data))
    g.sfx = Sfx.from_lines(list(g.sfx.to_lines()), version=version)
    g.music = Music.from_lines(list(g.music.to_lines()), version=version)
    code = _lua_prog(rng, 12 if size == 'small' else 60) if lua is None else lua
    g.lua = Lua.from_lines([code] if code else [], version=version)
    g.label = Gfx(data=rng.randbytes(8192), version=version) if label else None
    return g


def _write_p8(path, g):
    """a .p8 file assembled independently of P8Formatter.to_file (sections' own line encoders)"""
    from pico8.lua.lua import p8scii_to_unicode
    code = b''.join(g.lua.to_lines())
    if not code.endswith(b'\n'):
        code += b'\n'
    out = [b'pico-8 cartridge // http://www.pico-8.com\n', b'version %d\n' % g.version, b'__lua__\n',
           p8scii_to_unicode(code).encode('utf-8'), b'__gfx__\n']
    out.extend(g.gfx.to_lines())
    if g.label is not None:
        out.append(b'__label__\n')
        out.extend(g.label.to_lines())
    out.append(b'\n')
    for name in ('gff', 'map', 'sfx', 'music'):
        out.append(b'__%s__\n' % name.encode())
        out.extend(getattr(g, name).to_lines())
    out.append(b'\n')
    fsx.write_file(path, b''.join(out))


def _write_cart(path, g):
    if path.endswith('.p8.png'):
        from pico8.game.formatter.p8png import P8PNGFormatter
        with io.open(path, 'wb') as fh:
            P8PNGFormatter.to_file(g, fh, filename=path)
    else:
        _write_p8(path, g)


# ----------------------------------------------------------------------------- failing components
class _WriterFailure(RuntimeError):
    pass


class _SectionFailure(RuntimeError):
    pass


def _raising_writer(at, on_pass):
    """a Lua writer that echoes and raises at line `at` of its `on_pass`-th use (1 = the sanity pass of the .p8 writer)"""
    from pico8.lua import lua
    state = {'n': 0}

    class RaisingWriter(lua.LuaEchoWriter):
        def __init__(self, *a, **kw):
            super().__init__(*a, **kw)
            state['n'] += 1
            self._pass = state['n']

        def to_lines(self):
            for i, ln in enumerate(super().to_lines()):
                if self._pass >= on_pass and i >= at:
                    raise _WriterFailure('the Lua writer failed at line %d' % i)
                yield ln
    return RaisingWriter


def _garbage_writer():
    """a Lua writer whose output does not re-parse"""
    from pico8.lua import lua

    class GarbageWriter(lua.LuaEchoWriter):
        def to_lines(self):
            yield b'x = = 1 )\n'
            yield b'end end\n'
    return GarbageWriter


class _FailingSection:
    """stands for a section object: yields `at` lines / then raises; to_bytes raises"""

    def __init__(self, real, at):
        self._real, self._at = real, at
        self._data = real._data

    def to_lines(self):
        for i, ln in enumerate(self._real.to_lines()):
            if i >= self._at:
                raise _SectionFailure('section encoder failed at line %d' % i)
            yield ln

    def to_bytes(self):
        raise _SectionFailure('section encoder failed')


# ----------------------------------------------------------------------------- one scenario
def _ext(fmt):
    return {'png': '.p8.png', 'p8': '.p8', 'rom': '.rom', 'txt': '.txt'}[fmt]


class _Run:
    """Sets the sandbox up for a scenario and performs single runs of it."""

    def __init__(self, sc, sb):
        self.sc, self.sb = sc, sb
        self.ext = _ext(sc['fmt'])
        self.inp = os.path.join(sb, 'in' + self.ext)
        via = sc['via']
        if via == 'api':
            self.dest = os.path.join(sb, 'out' + self.ext)
        elif via == 'luafmt-overwrite':
            self.dest = self.inp if sc['fmt'] == 'p8' else os.path.join(sb, 'in_fmt' + self.ext)
        elif via in ('build-own', 'build-self'):
            self.dest = self.inp
        elif via == 'many':
            # luafmt [--overwrite] in1.p8 in2.p8.png in3.p8 [bad.p8]: several carts written by one command
            self.many = [os.path.join(sb, n) for n in sc['inputs']]
            self.dest = None
        else:
            self.dest = os.path.join(sb, 'in_fmt' + self.ext)
        self.src = os.path.join(sb, 'src.p8')
        self.label_file = None
        self.tpl = None
        self.game_tpl = None

    def _build_templates(self):
        """the scenario's files, made once (PNG encoding is slow) in a template directory next to the sandbox"""
        sc = self.sc
        self.tpl = fsx.mk_sandbox('c11tpl')
        t = lambda p: os.path.join(self.tpl, os.path.basename(p))  # noqa
        seed = sc.get('seed', 1)
        fk = sc['fault']['kind']
        if sc['via'] == 'many':
            for i, pth in enumerate(self.many):
                if os.path.basename(pth).startswith('bad'):
                    fsx.write_file(t(pth), b'pico-8 cartridge // http://www.pico-8.com\nversion 33\n__lua__\nx = = 1 )\n__gfx__\n')
                else:
                    _write_cart(t(pth), _mk_game(seed + 10 * i, 'small', label=pth.endswith('.p8')))
                    o = self.many_out(pth)
                    if o != pth and sc['dest_exists']:
                        _write_cart(t(o), _mk_game(seed + 10 * i + 1, 'small', label=o.endswith('.p8')))
            return
        if sc['via'] != 'api':
            if fk == 'input-bad':
                # an input cart whose Lua does not parse: process_game_files reports it and writes nothing
                fsx.write_file(t(self.inp), b'pico-8 cartridge // http://www.pico-8.com\nversion 33\n__lua__\nx = = 1 )\n__gfx__\n')
            else:
                _write_cart(t(self.inp), self._game(version=33))
        if sc['via'].startswith('build'):
            _write_p8(t(self.src), _mk_game(seed + 1, 'small', label=False))
        if self.dest != self.inp:
            if fk == 'label-unreadable' and sc['fault']['how'] == 'dest-garbage':
                fsx.write_file(t(self.dest), b'\x89PNG\r\n\x1a\n this is not a picture ' + bytes(40))
            elif sc['dest_exists'] and sc.get('dest_empty'):
                fsx.write_file(t(self.dest), b'')      # an existing file of length zero (mkstemp, touch) is a file too
            elif sc['dest_exists']:
                _write_cart(t(self.dest), _mk_game(seed + 2, 'small', label=(sc['fmt'] == 'p8')))
        if fk == 'label-unreadable' and sc['fault']['how'] == 'explicit':
            self.label_file = os.path.join(self.sb, 'label.png')
            fsx.write_file(t(self.label_file), b'not a png at all')

    def many_out(self, pth):
        if self.sc.get('overwrite') and pth.endswith('.p8'):
            return pth
        if pth.endswith('.p8.png'):
            return pth[:-len('.p8.png')] + '_fmt.p8.png'
        return pth[:-len('.p8')] + '_fmt.p8'

    def _game(self, version=None):
        sc = self.sc
        fk = sc['fault']['kind']
        lua = b'' if fk == 'uncompressible' else None
        if fk == 'odd-code':
            # valid Lua whose .p8 text a later reading would misread (a line of a long string / comment that looks like
            # a section header or an include directive): the WRITE succeeds; a writer that fails on it after having
            # replaced the destination shows here
            lua = [b'lvl=[[\n__gfx__\n]]\nx=1\n', b'--[[\n#include no_such_file.lua\n]]\nx=1\n',
                   b'x=[[\n__lua__\n]]\n'][sc['fault'].get('which', 0)]
        if version is None:
            version = sc['fault']['v'] if fk == 'version' else 33
        return _mk_game(sc.get('seed', 1), sc['size'], label=(sc['fmt'] == 'p8'), lua=lua, version=version)

    def prepare(self):
        """(re)create the files of the scenario: called before every single run"""
        if self.tpl is None:
            self._build_templates()
        for f in os.listdir(self.sb):
            os.remove(os.path.join(self.sb, f))
        for f in os.listdir(self.tpl):
            shutil.copyfile(os.path.join(self.tpl, f), os.path.join(self.sb, f))
        if self.sc['via'] == 'api':
            import copy
            if self.game_tpl is None:
                self.game_tpl = self._game()
            self.game = copy.copy(self.game_tpl)      # to_file does not modify the game; a failing section is set on the copy

    def close(self):
        if self.tpl:
            fsx.rm_sandbox(self.tpl)

    def _invoke(self):
        from pico8 import tool
        from pico8.game import file as p8file
        from pico8.lua import lua
        sc = self.sc
        via, fk = sc['via'], sc['fault']['kind']
        if via == 'api':
            g = self.game
            kw = {}
            w = sc.get('writer', 'echo')
            if w == 'minify':
                kw = {'lua_writer_cls': lua.LuaMinifyTokenWriter,
                      'lua_writer_args': {'keep_all_names': False, 'keep_names_from_file': None}}
            elif w == 'format':
                kw = {'lua_writer_cls': lua.LuaFormatterWriter, 'lua_writer_args': {'indentwidth': 2}}
            if fk == 'writer-raises':
                kw = {'lua_writer_cls': _raising_writer(sc['fault']['at'], sc['fault']['pass'])}
            elif fk == 'no-reparse':
                kw = {'lua_writer_cls': _garbage_writer()}
            elif fk == 'section-raises':
                s = sc['fault']['section']
                setattr(g, s, _FailingSection(getattr(g, s), sc['fault']['at']))
            if self.label_file:
                kw['label_fname'] = self.label_file
            return p8file.to_file(g, self.dest, **kw)
        if via == 'writep8':
            return tool.main(['writep8', self.inp])
        if via == 'luamin':
            return tool.main(['luamin', self.inp])
        if via == 'luafmt':
            return tool.main(['luafmt', self.inp])
        if via == 'luafmt-overwrite':
            return tool.main(['luafmt', '--overwrite', self.inp])
        if via == 'build-own':
            return tool.main(['build', '--gfx', self.src, self.inp])
        if via == 'build-self':
            return tool.main(['build', '--lua', self.inp, '--sfx', self.src, self.inp])
        if via == 'many':
            return tool.main(['luafmt'] + (['--overwrite'] if sc.get('overwrite') else []) + self.many)
        raise ValueError(via)

    def once(self, fail_at):
        """one run with the temp stream's write failing at call fail_at (None: no injected fault)"""
        from pico8.game.formatter.p8 import P8Formatter
        from pico8.game.formatter.p8png import P8PNGFormatter
        self.prepare()
        dests = [self.dest] if self.dest else [self.many_out(p_) for p_ in self.many]
        before_all = {d: fsx.read_file(d) for d in dests}
        before = before_all[dests[0]]
        listing = sorted(os.listdir(self.sb))
        rec = fsx.TraceRecorder(root=self.sb, fail_at=fail_at)
        saved = {}

        def mark(cls):
            cm = cls.__dict__['to_file']
            saved[cls] = cm
            f = cm.__func__

            def w(c, *a, **kw):
                r = f(c, *a, **kw)
                rec.events.append(('E',))
                return r
            cls.to_file = classmethod(w)
        raised = None
        with fsx.cwd(self.sb), fsx.quiet():
            mark(P8Formatter)
            mark(P8PNGFormatter)
            try:
                with rec:
                    self._invoke()
            except Exception as e:  # noqa
                raised = type(e).__name__
                rec.events.append(('!',))
            finally:
                for cls, cm in saved.items():
                    cls.to_file = cm
        after = fsx.read_file(dests[0])
        return {'k': fail_at, 'trace': rec.events, 'raised': raised, 'fired': rec.fault_fired,
                'same_all': {d: before_all[d] == fsx.read_file(d) for d in dests},
                'existed_all': {d: before_all[d] is not None for d in dests},
                'same': before == after, 'existed': before is not None,
                'listing_same': sorted(os.listdir(self.sb)) == listing,
                'new_files': sorted(set(os.listdir(self.sb)) - set(listing))}


def _trace_str(events):
    out = []
    for e in events:
        t = e[0]
        if t == 'T':
            out.append('T%d' % e[1])
        elif t == 'R':
            out.append('R' + fsx.hx(e[1]))
        elif t == 'W':
            out.append('W%s:%d' % (fsx.hx(e[1]), e[2]))
        elif t == 'w':
            out.append('w%d:%d' % (e[1], e[2]))
        elif t == 'r':
            out.append('r%d' % e[1])
        elif t == 's':
            out.append('s%d' % e[1])
        elif t == 'c':
            out.append('c%d' % e[1])
        elif t == 'X':
            out.append('X' + fsx.hx(e[1]))
        elif t == 'M':
            out.append('M%s:%s' % (fsx.hx(e[1]), fsx.hx(e[2])))
        elif t == 'E':
            out.append('E')
        elif t == '!':
            out.append('!')
    return ','.join(out) or '~'


def _temp_chunks(events):
    temps = [e[1] for e in events if e[0] == 'T']
    if not temps:
        return []
    return [e[2] for e in events if e[0] == 'w' and e[1] == temps[0]]


def _segment_chunks(events):
    """temp-write lengths per cart write (one segment per OpenTemp)"""
    segs = []
    for e in events:
        if e[0] == 'T':
            segs.append([])
        elif e[0] == 'w' and segs and e[1] == 1:
            segs[-1].append(e[2])
    return segs


def _split_segments(trace_str):
    """the recorded trace cut before every OpenTemp (one piece per cart write; the first piece may hold only reads)"""
    ev = trace_str.split(',') if trace_str != '~' else []
    pieces, cur = [], []
    for e in ev:
        if e.startswith('T') and cur:
            pieces.append(cur)
            cur = []
        cur.append(e)
    if cur:
        pieces.append(cur)
    return pieces


def _ks(spec, n):
    """fault indices for a run with n temp writes; index n = the fault never fires (unfaulted run)"""
    if spec == 'all':
        return list(range(n))
    if isinstance(spec, list) and spec and spec[0] == 'range':
        return [k for k in range(spec[1], spec[2]) if k < n]
    if isinstance(spec, list) and spec and spec[0] == 'stride':
        st = spec[1]
        ks = set(range(0, min(n, 12))) | set(range(max(0, n - 12), n)) | set(range(0, n, st))
        return sorted(ks)
    return []


def run_impl(case):
    sc = case
    sb = fsx.mk_sandbox('c11')
    run = None
    try:
        run = _Run(sc, sb)
        fk = sc['fault']['kind']
        ref = run.once(None)
        obs = {'dest': run.dest, 'inp': run.inp, 'src': run.src, 'label_file': run.label_file,
               'many': getattr(run, 'many', None),
               'many_outs': [run.many_out(p_) for p_ in run.many] if getattr(run, 'many', None) else None,
               'ref_segments': _segment_chunks(ref['trace']),
               'ref_chunks': _temp_chunks(ref['trace']), 'ref_raised': ref['raised'], 'runs': []}
        ref['trace'] = _trace_str(ref['trace'])
        obs['runs'].append(ref)
        if fk == 'inject':
            n = len(obs['ref_chunks'])
            spec = sc['fault']['ks']
            if spec == 'segments':
                # around the first / last write of every cart of the command, plus the middle of each
                ks, b = set(), 0
                for seg in obs['ref_segments']:
                    for d in (0, 1, 2, len(seg) // 2, len(seg) - 2, len(seg) - 1):
                        if 0 <= b + d < n:
                            ks.add(b + d)
                    b += len(seg)
                klist = sorted(ks)
            else:
                klist = _ks(spec, n)
            for k in klist:
                r = run.once(k)
                r['chunks_seen'] = _temp_chunks(r['trace'])
                r['trace'] = _trace_str(r['trace'])
                obs['runs'].append(r)
        return obs
    finally:
        if run is not None:
            run.close()
        fsx.rm_sandbox(sb)


# ----------------------------------------------------------------------------- model and monitor
def _ints(l):
    return ','.join(str(x) for x in l) if l else '-'


def _model_req(case, obs, r):
    via = case['via']
    fk = case['fault']['kind']
    if r['k'] is None:
        if r['raised'] is None:
            chunks, fail = obs['ref_chunks'], '~'
        else:
            chunks = obs['ref_chunks']           # internal failure: the writes that went through, then the failure
            fail = str(len(chunks))
    else:
        chunks, fail = obs['ref_chunks'], (str(r['k']) if r['fired'] else '~')
    ex = '1' if r['existed'] else '0'
    if via == 'many':
        segs = list(obs['ref_segments'])
        ents, j = [], 0
        for pth, outp in zip(obs['many'], obs['many_outs']):
            bad = os.path.basename(pth).startswith('bad')
            ch = []
            if not bad:
                ch = segs[j] if j < len(segs) else []
                j += 1
            ents.append('%s/~/%d/%d/%s' % (fsx.hx(pth), 0 if bad else 1, 1 if r['existed_all'][outp] else 0, _ints(ch)))
        return 'many %d %s %s' % (1 if case.get('overwrite') else 0, '|'.join(ents), fail)
    if via == 'api':
        lbl = fsx.hx(obs['label_file']) if obs['label_file'] else '~'
        return 'tofile %s %s %s %s %s' % (fsx.hx(obs['dest']), ex, lbl, _ints(chunks), fail)
    if via in ('writep8', 'luamin', 'luafmt', 'luafmt-overwrite'):
        return 'proc %d %s ~ %d %s %s %s' % (1 if via == 'luafmt-overwrite' else 0, fsx.hx(obs['inp']),
                                             0 if fk == 'input-bad' else 1, ex, _ints(chunks), fail)
    if via == 'build-own':
        return 'build %s %s %s 1 %s %s' % (fsx.hx(obs['dest']), ex, fsx.hx(obs['src']), _ints(chunks), fail)
    if via == 'build-self':
        return 'build %s %s %s,%s 1 %s %s' % (fsx.hx(obs['dest']), ex, fsx.hx(obs['inp']), fsx.hx(obs['src']), _ints(chunks), fail)
    raise ValueError(via)


def model_requests(case, obs):
    if obs.get('timeout'):
        return []
    return [_model_req(case, obs, r) for r in obs['runs']]


def compare(case, obs, answers):
    if obs.get('timeout'):
        return 'implementation timed out'
    via = case['via']
    for r, a in zip(obs['runs'], answers):
        want = a
        if via == 'many' and r['raised'] is None and r['k'] is None:
            # later carts must be untouched when an earlier one failed is covered by the monitor; here: all written
            pass
        if via in ('writep8', 'luamin', 'luafmt', 'luafmt-overwrite'):
            parts = a.split(' ')
            if parts[0] != fsx.hx(obs['dest']):
                return 'model output name %s, harness expected %s' % (parts[0], fsx.hx(obs['dest']))
            want = parts[1]
        if r['trace'] != want:
            return 'fault index %r: recorded trace\n   %s\n differs from the model\'s\n   %s' % (r['k'], _short(r['trace']), _short(want))
        if r['k'] is not None and r['fired'] and r['raised'] != 'InjectedFault':
            return 'fault index %r: injected fault did not propagate (raised %r)' % (r['k'], r['raised'])
        if r['raised'] is not None and not r['listing_same']:
            allowed = set(os.path.basename(o) for o in (obs.get('many_outs') or []))     # carts written before the failing one
            if not set(r['new_files']) <= allowed:
                return 'fault index %r: failed run left other files behind: %r' % (r['k'], r['new_files'])
    ref = obs['runs'][0]
    fk = case['fault']['kind']
    if fk in ('writer-raises', 'no-reparse', 'section-raises', 'label-unreadable', 'version', 'no-encoder') and ref['raised'] is None:
        if not (fk == 'no-reparse' and case['fmt'] == 'png'):        # the .p8.png writer has no sanity re-parse
            return 'the failure source %s did not make the write fail' % fk
    if fk in ('inject', 'none', 'odd-code') and ref['raised'] is not None:
        return 'the reference run failed: %s' % ref['raised']
    return None


def _short(t):
    return t if len(t) < 400 else t[:200] + ' ... ' + t[-180:]


_NAMED = ('writer-raises', 'no-reparse', 'section-raises', 'label-unreadable', 'version', 'no-encoder')


def _named_failure(case):
    """the run's failure source is one the property names (the Lua writer raises, the transformed code does not
    re-parse, a section or the PNG encoder raises ...): producing the cart has failed by definition, whether or not the
    library reports it by an exception - so the encoder's normal return is not accepted as "done" for such a run and the
    destination must be as it was.  (.p8.png has no sanity re-parse: there a writer whose output does not re-parse is
    not a failure source.)"""
    fk = case['fault']['kind']
    return fk in _NAMED and not (fk == 'no-reparse' and case['fmt'] == 'png')


def _mon_trace(case, trace, raised=None):
    # a call that RAISED did not produce the cart, whatever it had got done before (a "verification" step that fails
    # after the copy to the destination is a failure of producing the cart like any other): the encoder's normal
    # return is not accepted as "done" then either.  (The harness injects no fault into the final copy itself, the
    # one window the property's statement leaves open.)
    if _named_failure(case) or raised is not None:
        return ','.join(e for e in trace.split(',') if e != 'E')
    return trace


def monitor_requests(case, obs):
    if obs.get('timeout'):
        return []
    reqs = []
    for r in obs['runs']:
        # (the stronger predicate `quiet` - nothing at all modified while encoding - is a theorem about the model and
        #  reaches the implementation through the trace equality of the correspondence; it is NOT a verdict criterion:
        #  C11 only protects the destination)
        if case['via'] == 'many':
            # one cart write per OpenTemp, in the order of the carts that load
            pieces = [p_ for p_ in _split_segments(r['trace']) if p_ and p_[0].startswith('T')]
            outs = [o for pth, o in zip(obs['many'], obs['many_outs']) if not os.path.basename(pth).startswith('bad')]
            for piece, o in zip(pieces, outs):
                reqs.append('holds %s %d %s' % (fsx.hx(o), 1 if r['same_all'][o] else 0, ','.join(piece)))
        else:
            reqs.append('holds %s %d %s' % (fsx.hx(obs['dest']), 1 if r['same'] else 0, _mon_trace(case, r['trace'], r['raised'])))
    return reqs


def _bad_run(case, obs):
    """first run the monitor would reject (recomputed in Python only for the signature / description)"""
    if case['via'] == 'many':
        for r in obs.get('runs', []):
            if r['raised'] is not None and not all(r['same_all'].values()) and ',E' not in r['trace']:
                return r, False
        return (obs.get('runs') or [None])[0], True
    for r in obs.get('runs', []):
        ev = _mon_trace(case, r['trace'], r['raised']).split(',')
        done = 'E' in ev
        pre = ev[:ev.index('E')] if done else ev
        d = fsx.hx(obs['dest'])
        touched = any(e.startswith('W' + d + ':') or e == 'X' + d or (e.startswith('M') and d in e[1:].split(':')) for e in pre)
        if touched or (not done and not r['same']):
            return r, touched
    return None, False


def signature(case, obs):
    r, touched = _bad_run(case, obs)
    kind = 'touched-before-encoder-done' if touched else 'bytes-changed'
    return 'C11/%s/%s/%s/%s' % (kind, case['via'], case['fmt'], case['fault']['kind'])


def what(case, obs):
    r, touched = _bad_run(case, obs)
    k = r['k'] if r else None
    return ('%s: destination %s by a write that failed (fault index %r, raised %r); trace %s' % (
        signature(case, obs), 'opened/removed before the encoder returned' if touched else 'bytes changed', k,
        r and r['raised'], _short(r['trace']) if r else ''))


def describe(case, obs):
    d = {k: case[k] for k in ('via', 'fmt', 'dest_exists', 'dest_empty', 'size', 'fault', 'overwrite', 'inputs') if k in case}
    d['writer'] = case.get('writer')
    if obs and 'runs' in obs:
        d['runs'] = len(obs['runs'])
        d['writes_in_reference_run'] = len(obs['ref_chunks'])
        d['reference_raised'] = obs['ref_raised']
        d['reference_trace'] = _short(obs['runs'][0]['trace'])
    return d


def minimize(case, obs, answers):
    import copy
    r, _ = _bad_run(case, obs)
    if r is None or r['k'] is None or case['fault']['kind'] != 'inject':
        return case
    c = copy.deepcopy(case)
    c['fault']['ks'] = ['range', r['k'], r['k'] + 1]
    return c


def nontrivial_key(case, obs):
    return None


def histogram_key(case, obs):
    return '%s/%s/%s' % (case['via'], case['fmt'], case['fault']['kind'])


# ----------------------------------------------------------------------------- generation
def _sc(via, fmt, dest_exists, size, fault, writer=None, seed=1):
    d = {'via': via, 'fmt': fmt, 'dest_exists': dest_exists, 'size': size, 'fault': fault, 'seed': seed}
    if writer:
        d['writer'] = writer
    return d


def _split(ks_total, parts):
    step = (ks_total + parts - 1) // parts
    return [['range', a, min(ks_total, a + step)] for a in range(0, ks_total, step)]


def generate(tier, rng):
    cases = []
    quick = tier == 'quick'
    seeds = [rng.randrange(1 << 20)] if quick else [rng.randrange(1 << 20) for _ in range(5)]
    # upper bound of the number of temp writes of a .p8 run (header 2, lua <= 70, sections ~ 430); ranges beyond the
    # real count are simply empty
    P8_MAX = 560
    NSPLIT = 8

    def p8_all(via, ex, size, seed, writer=None):
        for rg in _split(P8_MAX, NSPLIT):
            cases.append(_sc(via, 'p8', ex, size, {'kind': 'inject', 'ks': rg}, writer, seed))

    def p8_stride(via, ex, size, seed, writer=None, st=9):
        cases.append(_sc(via, 'p8', ex, size, {'kind': 'inject', 'ks': ['stride', st]}, writer, seed))

    for si, seed in enumerate(seeds):
        for size in ('small', 'medium'):
            for ex in (True, False):
                # API: every k for the echo writer (both sizes) and for minify / format (small; medium by stride in quick)
                for w in ('echo', 'minify', 'format'):
                    every_k = (not quick) or (w == 'echo' and (size == 'small' or ex)) or (size == 'small' and ex)
                    if every_k:
                        p8_all('api', ex, size, seed, w)
                    else:
                        p8_stride('api', ex, size, seed, w, st=(9 if size == 'small' else 23))
                    cases.append(_sc('api', 'png', ex, size, {'kind': 'inject', 'ks': 'all'}, w, seed))
                # command-line paths
                for via in ('writep8', 'luamin', 'luafmt', 'luafmt-overwrite'):
                    if quick:
                        p8_stride(via, ex, size, seed, st=(13 if size == 'small' else 29))
                    else:
                        p8_all(via, ex, size, seed)
                    if size == 'small' or not quick:
                        cases.append(_sc(via, 'png', ex, size, {'kind': 'inject', 'ks': 'all'}, seed=seed))
            for via in ('build-own', 'build-self'):
                if quick:
                    p8_stride(via, True, size, seed, st=(13 if size == 'small' else 29))
                else:
                    p8_all(via, True, size, seed)
                if size == 'small' or not quick:
                    cases.append(_sc(via, 'png', True, size, {'kind': 'inject', 'ks': 'all'}, seed=seed))
        # several carts in one command (process_game_files loops over its arguments)
        for ow in (True, False):
            for ex in (True, False):
                for inputs in (['in1.p8', 'in2.p8.png', 'in3.p8'], ['in1.p8', 'bad.p8', 'in3.p8']):
                    d = _sc('many', 'p8', ex, 'small', {'kind': 'inject', 'ks': ('segments' if quick else ['stride', 7])}, seed=seed)
                    d['overwrite'], d['inputs'] = ow, inputs
                    cases.append(d)
        # formats without an encoder: .rom (ROMFormatter.to_file raises NotImplementedError), unrecognised extension
        for fmt in ('rom', 'txt'):
            for ex in (True, False):
                cases.append(_sc('api', fmt, ex, 'small', {'kind': 'no-encoder'}, seed=seed))
        # internal failure sources (API)
        for fmt in ('p8', 'png'):
            for ex in (True, False):
                for at in (0, 1, 5, 11):
                    for ps in ((1, 2) if fmt == 'p8' else (1,)):      # the .p8.png writer runs the Lua writer once
                        cases.append(_sc('api', fmt, ex, 'small', {'kind': 'writer-raises', 'at': at, 'pass': ps}, seed=seed))
                cases.append(_sc('api', fmt, ex, 'small', {'kind': 'no-reparse'}, seed=seed))
                for s in ('gfx', 'gff', 'map', 'sfx', 'music'):
                    ats = (0,) if fmt == 'png' else ((0, 1) if s == 'gff' else (0, 1, 17))
                    for at in ats:
                        cases.append(_sc('api', fmt, ex, 'small', {'kind': 'section-raises', 'section': s, 'at': at}, seed=seed))
                cases.append(_sc('api', fmt, ex, 'small', {'kind': 'uncompressible'}, seed=seed))
                if fmt == 'p8' and ex:
                    for fault in ({'kind': 'no-reparse'}, {'kind': 'writer-raises', 'at': 1, 'pass': 1},
                                  {'kind': 'section-raises', 'section': 'sfx', 'at': 1}):
                        d = _sc('api', fmt, True, 'small', fault, seed=seed)
                        d['dest_empty'] = True
                        cases.append(d)
                for which in (0, 1, 2):
                    cases.append(_sc('api', fmt, ex, 'small', {'kind': 'odd-code', 'which': which}, seed=seed))
                if fmt == 'png':
                    cases.append(_sc('api', fmt, ex, 'small', {'kind': 'version', 'v': 256}, seed=seed))
                    cases.append(_sc('api', fmt, ex, 'small', {'kind': 'version', 'v': 1000}, seed=seed))
                    cases.append(_sc('api', fmt, ex, 'small', {'kind': 'label-unreadable', 'how': 'explicit'}, seed=seed))
            if fmt == 'p8':
                for via in ('writep8', 'luamin', 'luafmt', 'luafmt-overwrite'):
                    for ex in (True, False):
                        cases.append(_sc(via, fmt, ex, 'small', {'kind': 'input-bad'}, seed=seed))
            if fmt == 'png':
                cases.append(_sc('api', fmt, True, 'small', {'kind': 'label-unreadable', 'how': 'dest-garbage'}, seed=seed))
                for via in ('writep8', 'luamin', 'luafmt', 'luafmt-overwrite'):
                    cases.append(_sc(via, fmt, True, 'small', {'kind': 'label-unreadable', 'how': 'dest-garbage'}, seed=seed))
    rng.shuffle(cases)
    return cases


def corpus_cases():
    yield _sc('api', 'p8', True, 'small', {'kind': 'inject', 'ks': ['range', 0, 4]}, 'echo')
    yield _sc('api', 'png', True, 'small', {'kind': 'inject', 'ks': 'all'}, 'echo')
    yield _sc('luafmt-overwrite', 'p8', True, 'small', {'kind': 'inject', 'ks': ['range', 0, 4]})
    yield _sc('build-own', 'p8', True, 'small', {'kind': 'inject', 'ks': ['range', 2, 5]})
    yield _sc('api', 'p8', True, 'small', {'kind': 'no-reparse'})
    yield _sc('api', 'png', True, 'small', {'kind': 'version', 'v': 256})
    yield _sc('api', 'png', True, 'small', {'kind': 'label-unreadable', 'how': 'dest-garbage'})
    d = _sc('many', 'p8', True, 'small', {'kind': 'inject', 'ks': ['range', 440, 460]})
    d['overwrite'], d['inputs'] = True, ['in1.p8', 'in2.p8.png', 'in3.p8']
    yield d


class _Shim:
    def __init__(self, mod, obs_by_id):
        self._mod, self._obs = mod, obs_by_id

    def run_impl(self, case):
        return self._obs[id(case)]

    def __getattr__(self, n):
        return getattr(self._mod, n)


def _run_one(case):
    try:
        return lib.with_alarm(CASE_TIMEOUT, run_impl, case)
    except lib.Timeout:
        return {'timeout': True}


def _parallel_obs(cases):
    import multiprocessing as mp
    n = min(lib.NCPU, max(1, len(cases) // 2))
    if n <= 1:
        return [_run_one(c) for c in cases]
    ctx = mp.get_context('fork')
    with ctx.Pool(n) as p:
        return p.map(_run_one, cases, chunksize=1)


def run_cases(cases, ctx):
    mod = __import__('props.c11', fromlist=['x'])
    obs = _parallel_obs(cases)
    shim = _Shim(mod, {id(c): o for c, o in zip(cases, obs)})
    res = lib.standard_run(shim, cases, ctx)
    for v in res['violations'][:20]:        # describe each violation by a fresh run of its (minimised) case
        o2 = _run_one(v['case'])
        if o2.get('runs'):
            v['summary'], v['signature'], v['what'] = describe(v['case'], o2), signature(v['case'], o2), what(v['case'], o2)
    runs, keys, hist = 0, set(), {}
    for c, o in zip(cases, obs):
        for r in o.get('runs', []):
            runs += 1
            failed = (r['raised'] is not None or c['fault']['kind'] == 'input-bad') and ',E' not in r['trace'] and not r['trace'].startswith('E')
            h = '%s/%s/%s dest-%s -> %s' % (c['via'], c['fmt'], c['fault']['kind'], 'exists' if r['existed'] else 'absent',
                                             ('failed:' + r['raised']) if r['raised'] else 'written')
            hist[h] = hist.get(h, 0) + 1
            if failed:
                keys.add((c['via'], c['fmt'], r['existed'], c.get('writer'), c['size'], c['seed'],
                          json_key(c['fault']), r['k']))
    res['evaluations'] = runs
    res['nontrivial'] = len(keys)
    res['histogram'] = hist
    return res


def json_key(d):
    return tuple(sorted((k, str(v)) for k, v in d.items() if k != 'ks'))


def search(ctx, budget):
    import time
    rng = random.Random(ctx['seed'] + 1)
    t0 = time.time()
    viol, n = [], 0
    cases = generate('thorough', rng)
    i = 0
    while time.time() - t0 < budget and not viol and i < len(cases):
        batch = cases[i:i + 64]
        i += 64
        r = run_cases(batch, {'monitor_exe': ctx.get('monitor_exe'), 'model_exe': None})
        n += r['evaluations']
        viol.extend(r['violations'])
    return {'violations': viol, 'evaluations': n}
