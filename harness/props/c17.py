"""C17 - section accessors read back what was set and touch nothing else."""
import lib

ID = 'C17'
GEN_FILES = ['K_gfx', 'K_gff', 'K_map', 'K_sfx', 'K_music',
             # source pins of the hand-modelled modules (gen/kernels_pins.py)
             'T_pins_gfx', 'T_pins_map', 'T_pins_gff', 'T_pins_sfx', 'T_pins_music', 'T_pins_util', 'T_pins_game']
COQ_PROPERTY = 'theories/Properties/C17.vo'
COQ_EXTRA = ['theories/Generated/K_gfx_selftest.vo', 'theories/Generated/K_gff_selftest.vo',
             'theories/Generated/K_map_selftest.vo', 'theories/Generated/K_sfx_selftest.vo',
             'theories/Generated/K_music_selftest.vo',
             'theories/Proofs/GfxPins.vo', 'theories/Proofs/MapPins.vo', 'theories/Proofs/GffPins.vo', 'theories/Proofs/SfxPins.vo', 'theories/Proofs/MusicPins.vo', 'theories/Proofs/UtilPins.vo', 'theories/Proofs/GamePins.vo']
MODEL = ('ExC17', ['c17_ops.ml', 'c17_main.ml'])
MONITOR = ('MonC17', ['c17_ops.ml', 'c17_mon_main.ml'])
SIZES = [8192, 4096, 256, 256, 4352]
RULE = ('case = initial contents of the five regions + a history of 1-80 accessor calls (all 19 accessors, incl. Map.get_rect_pixels: x 0/126/127, rows 0/30/31/32/62/63, rectangles touching / crossing the right edge by 0, 1, many and reaching the bottom edge, maps holding tile ids 0, 1, 255; set_rect_tiles blocks of 127 / 128 / 129 tiles per row at x 0 / 1 crossing rows 31/32, reaching the bottom edge and covering the whole map), arguments '
        'concentrated on the edges (crossing the right/bottom edge by 0, 1, many cells; ids at 0/15/16/240/255; TRANSPARENT '
        'pixels; ragged rows; blocks of 140 rows or columns, offsets up to 1000; None fields); implementation run on a real Game object, every returned value and the whole '
        'memory after the history compared with the extracted model (correspondence) and with Spec/PlainMem.v through '
        'holds_C17_seq (monitor); a separate stream of out-of-contract calls checks that model and implementation raise '
        'alike. evaluations = accessor calls; distinct+non-trivial = distinct (op kind, arguments) that either return a '
        'value or change memory')
ASSUMPTIONS = ['in-contract arguments are the documented ranges (docstrings): ids 0-255/0-63, cells 0-127 x 0-63, colours 0-15 or '
               'TRANSPARENT, flags 0-255, non-negative offsets; out-of-contract calls are compared model-vs-implementation only']
PARTIAL = ''
CLAIM = dict(
    text=("Theorems (Coq, closed under the global context). C17_refines: for every well-formed memory (five regions of the "
          "right sizes holding bytes) and every in-contract call of any of the 19 accessors - get_sprite/set_sprite, map "
          "get/set cell, get/set_rect_tiles, get_rect_pixels, the four flag ops, get/set note, sfx get/set properties, music get/set channel, "
          "get/set properties - with any id / coordinates / offsets, rows of any number, length and raggedness, any overhang "
          "across the right or bottom edge, TRANSPARENT pixels and None fields, the model of the code never raises and "
          "returns exactly the value and the memory that the plain model of the documented semantics (Spec/PlainMem.v: "
          "pixels, cells with rows 32-63 in gfx bytes 4096.., flags, note words, properties, channels) predicts; the result "
          "is again well formed. C17_history: the same for every sequence of such calls. C17_frame / C17_frame_len / "
          "C17_getter_pure (about the plain model, no hypotheses): every byte of every region outside the explicit "
          "footprint of a call keeps its value - the footprint of set_sprite is exactly the bytes of its non-transparent, "
          "non-clipped pixels, so clipped data neither wraps into the next row nor alters other cells - no region changes "
          "size, getters change nothing. C17_set_sprite_pixels / C17_set_rect_cells: after set_sprite every pixel of the "
          "sheet (after set_rect_tiles every cell of the map, rows 32-63 read through sprite memory) holds the block's value "
          "at that offset if the ragged block has a non-TRANSPARENT value there and its old value otherwise (read-back, "
          "frame, clipping, transparency in one per-cell equation). Get-after-set laws: C17_pixel_readback, C17_cell_readback (incl. the shared "
          "rows), C17_mapget_after_mapset, C17_flagget_after_flagreset, C17_noteget_after_noteset (None fields keep their "
          "value), C17_changet_after_chanset. C17_rect_pixels_at (no hypothesis on memory): the picture returned by get_rect_pixels has 8h "
          "rows of 8w pixels and pixel (X, Y) is pixel (X mod 8, Y mod 8) of the tile in cell (x + X/8, y + Y/8) as get_rect_tiles "
          "reads it (0 right of column 127, nothing wraps), tile 0 empty, tile t the 8x8 block of the sheet at ((t mod 16)*8, "
          "(t/16)*8); C17_rect_pixels_readback: the same after set_rect_tiles, the tile being the block's value where the block "
          "covers the cell. C17_nogfx_refuses_pixels: without a Gfx get_rect_pixels raises AssertionError. C17_refines_nogfx / C17_nogfx_refuses: a Map without a Gfx behaves identically "
          "on calls confined to rows 0-31 and refuses cell accesses below. C17_monitor_sound / C17_model_holds(_seq): the "
          "extracted monitor predicate says exactly 'no raise, the plain model's value and memory', and the code's model "
          "passes it on every call and history. Bit-level facts are complete vm_compute sweeps over the regenerated kernels "
          "(all bytes, all byte pairs for flags, all 65,536 note words, all note-field updates); loops by induction with "
          "invariants. Tie: kernels (index expressions, masks, clip tests, asserts) regenerated from gfx.py, map.py, "
          "gff.py, sfx.py, music.py on every run and self-tested in Coq; the hand-modelled loops are run extracted against "
          "the real Game object on generated edge-biased histories (values after every call and the whole memory), and "
          "the extracted plain model (holds_C17_seq, built from Spec/ only) judges the implementation's real observations."),
    note=("Three clipping defects found by this check were repaired in the implementation (findings/known_findings.json, fixed): "
          "set_sprite clipped with > 128 (column 128 wrapped into the next row, row 128 raised IndexError), set_rect_tiles "
          "clipped rows with > 127 (AssertionError below row 63), get_rect_tiles asserted instead of zero-filling below the "
          "map. get_rect_pixels keeps `assert 0 <= y + height <= 64` (rectangles extending below the map are refused although "
          "get_rect_tiles zero-fills them): taken as part of this getter's contract, see notes/C17.md 'Suspicious'. Trusted: Coq kernel+VM, translator, extraction, OCaml glue, Spec/PlainMem.v as a faithful reading of the "
          "docstrings and the PICO-8 memory layout, the in_contract ranges. Out-of-contract calls are only compared "
          "model-vs-implementation (exception kinds)."),
    technique='Coq refinement proof (sweeps on regenerated kernels + induction over loops) + correspondence + extracted plain model as monitor',
    design_ref='8 C17')
OPS_GET = ['gs', 'mgc', 'mgr', 'mgp', 'fg', 'sgn', 'sgp', 'mugc', 'mugp']


def _mem(rng, kind):
    if kind == 'zero':
        return [bytes(n) for n in SIZES]
    if kind == 'ff':
        return [b'\xff' * n for n in SIZES]
    if kind == 'ramp':
        return [bytes((j * 3 + i) & 255 for j in range(n)) for i, n in enumerate(SIZES)]
    if kind == 'tiles':
        # a map (both halves: rows 32-63 are gfx bytes 4096..) made of the tile ids that matter to get_rect_pixels
        def tiles(n):
            return bytes(rng.choice([0, 0, 1, 1, 255, 255, 16, 17, 128, rng.randrange(256)]) for _ in range(n))
        return [rng.randbytes(4096) + tiles(4096), tiles(4096)] + [rng.randbytes(n) for n in SIZES[2:]]
    return [rng.randbytes(n) for n in SIZES]


def _edge(rng, hi, far=False):
    """a coordinate biased to 0, the edge and just beyond"""
    r = rng.random()
    if r < 0.25:
        return rng.choice([0, 1, hi // 2])
    if r < 0.75:
        return hi + rng.choice([-9, -8, -7, -2, -1, 0])
    return rng.randrange(0, hi + 1)


def _rows(rng, maxw, maxh, lo, hi, transparent=None):
    h = rng.choice([0, 1, 2, 8, 9, maxh])
    rows = []
    for _ in range(h):
        w = rng.choice([0, 1, 2, 7, 8, 9, 16, maxw]) if rng.random() < 0.5 else rng.randrange(0, maxw + 1)
        row = bytes((transparent if transparent is not None and rng.random() < 0.2 else rng.randrange(lo, hi + 1))
                    for _ in range(w))
        rows.append(row)
    return '/'.join(lib.hx(r) for r in rows) if rows else '.'


def _rows_big(rng, n, lo, hi, transparent=None):
    """a block much larger than the sheet / map in one direction: n rows of 1-3 values or 1-3 rows of n values"""
    def val():
        return transparent if transparent is not None and rng.random() < 0.2 else rng.randrange(lo, hi + 1)
    if rng.random() < 0.5:
        rows = [bytes(val() for _ in range(rng.randrange(1, 4))) for _ in range(n)]
    else:
        rows = [bytes(val() for _ in range(n)) for _ in range(rng.randrange(1, 4))]
    return '/'.join(lib.hx(r) for r in rows)


def _opt(rng, hi):
    return 'N' if rng.random() < 0.3 else str(rng.choice([0, hi, rng.randrange(0, hi + 1)]))


def gen_op(rng, contract=True):
    k = rng.choice(['gs', 'ss', 'ss', 'mgc', 'msc', 'mgr', 'mgp', 'mgp', 'msr', 'msr', 'fg', 'fs', 'fc', 'fr',
                    'sgn', 'ssn', 'sgp', 'ssp', 'mugc', 'musc', 'mugp', 'musp'])
    ids = [0, 1, 14, 15, 16, 17, 127, 128, 239, 240, 241, 254, 255]
    if k == 'gs':
        return 'gs,%d,%d,%d' % (rng.choice(ids), rng.choice([1, 2, 3, 16, 17]), rng.choice([1, 2, 3, 16, 17]))
    if k == 'ss' and rng.random() < 0.06:
        # far offsets and blocks larger than the whole sheet (everything beyond the edges must be clipped)
        return 'ss,%d,%d,%d,%s' % (rng.choice(ids), rng.choice([0, 5, 64, 119, 127, 128, 1000]),
                                   rng.choice([0, 5, 64, 119, 127, 128, 1000]), _rows_big(rng, 140, 0, 15, 16))
    if k == 'msr' and rng.random() < 0.06:
        return 'msr,%d,%d,%s' % (rng.choice([0, 1, 100, 127, 128, 1000]), rng.choice([0, 1, 31, 32, 63, 64, 1000]),
                                 _rows_big(rng, 140, 0, 255))
    if k == 'ss':
        return 'ss,%d,%d,%d,%s' % (rng.choice(ids + [rng.randrange(256)]), rng.choice([0, 0, 1, 3, 7, 8, 9]),
                                   rng.choice([0, 0, 1, 3, 7, 8, 9]), _rows(rng, 20, 20, 0, 15, 16))
    if k == 'mgc':
        return 'mgc,%d,%d' % (_edge(rng, 127), rng.choice([0, 1, 30, 31, 32, 33, 62, 63]))
    if k == 'msc':
        return 'msc,%d,%d,%d' % (_edge(rng, 127), rng.choice([0, 1, 30, 31, 32, 33, 62, 63]), rng.choice([0, 1, 127, 128, 255]))
    if k == 'mgr':
        y = rng.choice([0, 1, 30, 31, 32, 33, 60, 62, 63])
        return 'mgr,%d,%d,%d,%d' % (_edge(rng, 127), y, rng.choice([1, 2, 3, 9, 130]), rng.choice([1, 2, 3, 4, 9, 33, 64]))
    if k == 'mgp':
        # in contract: 0 <= x <= 127, 0 <= y, y + h <= 64; the right edge is crossed by 0, 1, many tiles, the bottom
        # edge can only be reached (crossing it is refused: BAD_OPS)
        # (the extracted model reads every pixel through an O(n) list access: keep most rectangles below ~40 tiles)
        x = rng.choice([0, 0, 1, 64, 120, 125, 126, 126, 127, 127, 127])
        y = rng.choice([0, 1, 30, 31, 31, 32, 32, 33, 60, 62, 63, 63])
        big = rng.random() < 0.03
        if x >= 120:
            w = rng.choice([1, 2, 128 - x, 128 - x, 129 - x, 129 - x, 130 - x, 137 - x])
        else:
            w = rng.choice([128 - x, 129 - x, 140]) if big else rng.choice([1, 1, 2, 3])
        hs = [v for v in [1, 1, 2, 3, 64 - y, 64 - y, 32 - y, 33 - y, 63 - y] if 1 <= v <= 64 - y]
        h = rng.choice([v for v in hs if w * v <= 40 or (big and w * v <= 200)] or [1])
        return 'mgp,%d,%d,%d,%d' % (x, y, w, h)
    if k == 'msr':
        return 'msr,%d,%d,%s' % (rng.choice([0, 1, 100, 119, 120, 125, 126, 127, 128, 130]),
                                 rng.choice([0, 1, 29, 30, 31, 32, 55, 56, 60, 62, 63, 64, 66, 120, 127, 128]),
                                 _rows(rng, 12, 12, 0, 255))
    if k in ('fg', 'fs', 'fc', 'fr'):
        return '%s,%d,%d' % (k, rng.choice(ids), rng.choice([0, 1, 2, 128, 129, 254, 255, rng.randrange(256)]))
    if k == 'sgn':
        return 'sgn,%d,%d' % (rng.choice([0, 1, 31, 62, 63]), rng.choice([0, 1, 15, 30, 31]))
    if k == 'ssn':
        return 'ssn,%d,%d,%s,%s,%s,%s' % (rng.choice([0, 1, 31, 62, 63]), rng.choice([0, 1, 15, 30, 31]),
                                          _opt(rng, 63), _opt(rng, 15), _opt(rng, 7), _opt(rng, 7))
    if k == 'sgp':
        return 'sgp,%d' % rng.choice([0, 1, 31, 62, 63])
    if k == 'ssp':
        return 'ssp,%d,%s,%s,%s,%s' % (rng.choice([0, 1, 31, 62, 63]), _opt(rng, 255), _opt(rng, 255), _opt(rng, 255), _opt(rng, 255))
    if k == 'mugc':
        return 'mugc,%d,%d' % (rng.choice([0, 1, 31, 62, 63]), rng.randrange(4))
    if k == 'musc':
        return 'musc,%d,%d,%s' % (rng.choice([0, 1, 31, 62, 63]), rng.randrange(4), _opt(rng, 63))
    if k == 'mugp':
        return 'mugp,%d' % rng.choice([0, 1, 31, 62, 63])
    return 'musp,%d,%s,%s,%s' % (rng.choice([0, 1, 31, 62, 63]), rng.choice('N01'), rng.choice('N01'), rng.choice('N01'))


BAD_OPS = [
        'gs,256,1,1', 'gs,-1,1,1', 'gs,0,0,1', 'gs,0,1,0', 'mgc,128,0', 'mgc,0,64', 'mgc,-1,0', 'msc,0,0,256', 'msc,0,0,-1',
        'msc,128,3,1', 'mgr,128,0,1,1', 'mgr,0,0,0,1', 'mgr,0,0,1,0', 'mgr,0,64,1,1', 'fg,256,1', 'fs,-1,1', 'fc,256,1', 'fr,300,1',
        'fs,0,256', 'fs,0,511', 'fc,0,256', 'fr,0,256', 'fr,0,-1', 'fg,0,-1',
        'sgn,64,0', 'sgn,0,32', 'ssn,0,0,64,N,N,N', 'ssn,0,0,N,16,N,N', 'ssn,0,0,N,N,8,N', 'ssn,0,0,N,N,N,8', 'ssn,64,0,1,1,1,1',
        'sgp,64', 'ssp,64,1,N,N,N', 'ssp,0,256,N,N,N', 'ssp,0,N,N,N,-1', 'mugc,64,0', 'mugc,0,4', 'musc,0,0,64', 'musc,0,4,1', 'musc,64,0,N',
        'mugp,64', 'musp,64,1,N,N', 'ss,0,0,0,11/12', 'ss,255,7,7,0102030405060708090a/01', 'msr,0,0,ff/00', 'ss,0,-1,0,01',
        'ss,0,0,-1,01', 'msr,-1,0,01', 'msr,0,-1,01',
        # negative ids / coordinates: Python would index from the end, the accessors must refuse (or model and code agree)
        'fg,-1,1', 'fc,-1,1', 'fr,-1,1', 'fg,-256,1', 'mgc,0,-1', 'msc,-1,0,1', 'msc,0,-1,1', 'mgr,-1,0,1,1', 'mgr,0,-1,1,1',
        'sgn,-1,0', 'sgn,0,-1', 'ssn,-1,0,1,1,1,1', 'ssn,0,-1,1,1,1,1', 'sgp,-1', 'ssp,-1,1,N,N,N', 'mugc,-1,0', 'mugc,0,-1',
        'musc,-1,0,1', 'musc,0,-1,1', 'mugp,-1', 'musp,-1,1,N,N', 'ss,-1,0,0,01', 'ss,256,0,0,01', 'gs,0,-1,1', 'gs,0,1,-1',
        # get_rect_pixels: x = 128, width / height 0, crossing the bottom edge (y + height = 65), negative coordinates
        'mgp,128,0,1,1', 'mgp,0,0,0,1', 'mgp,0,0,1,0', 'mgp,0,63,1,2', 'mgp,0,1,1,64', 'mgp,0,64,1,1', 'mgp,-1,0,1,1',
        'mgp,0,-1,1,2', 'mgp,0,-2,1,1', 'mgp,127,0,-1,1', 'mgp,0,0,1,-1', 'mgp,0,32,1,33']
# calls on a Map without a Gfx (hasgfx = 0): get_rect_pixels refuses even inside rows 0-31; the others as documented
NOGFX_OPS = ['mgp,0,0,1,1', 'mgp,127,31,2,1', 'mgp,0,31,1,2', 'mgp,0,32,1,1', 'mgr,0,0,2,2', 'mgr,0,31,1,2', 'mgc,0,31', 'mgc,0,32',
             'msc,0,32,1', 'msr,0,31,01/02', 'msr,0,30,01/02']


def gen_bad_op(rng):
    return rng.choice(BAD_OPS)


def generate(tier, rng):
    n = 350 if tier == 'quick' else 8000
    kinds = ['random', 'random', 'zero', 'ff', 'ramp', 'tiles', 'tiles']
    for i in range(n):
        ln = rng.choice([1, 2, 5, 12, 30, 30, 80])
        case = {'hasgfx': 1, 'mem': [lib.hx(r) for r in _mem(rng, rng.choice(kinds))],
                'ops': [gen_op(rng) for _ in range(ln)]}
        if i % 8 == 3:
            # a cart LOADED from a .p8 file saved the PICO-8 way (default tails and empty sections left out): some
            # regions are the empty default, the others end in it
            from props import shortp8
            case['build'] = 'p8'
            mem = []
            for sec in ('gfx', 'map', 'gff', 'music', 'sfx'):
                r = rng.random()
                if r < 0.4:
                    mem.append(shortp8.default_region(sec))
                else:
                    rows = rng.randrange(1, shortp8.ROWS[sec] + 1)
                    mem.append(shortp8.region_with_default_tail(rng, sec, rows))
            case['mem'] = [lib.hx(m) for m in mem]
        if i % 8 == 7:
            # a cart assembled through the public constructors from caller buffers (shared where equal)
            case['build'] = 'buffers'
            if rng.random() < 0.7:
                case['mem'][3] = case['mem'][2]
        yield case
    nbad = 60 if tier == 'quick' else 600
    for i in range(len(BAD_OPS) + nbad):
        # every out-of-contract call once, then random ones
        ops = [gen_op(rng) for _ in range(rng.randrange(0, 4))] + [BAD_OPS[i] if i < len(BAD_OPS) else gen_bad_op(rng)]
        yield {'hasgfx': rng.choice([1, 1, 0]), 'mem': [lib.hx(r) for r in _mem(rng, 'ramp')], 'ops': ops, 'bad': True}
    for op in NOGFX_OPS:
        yield {'hasgfx': 0, 'mem': [lib.hx(r) for r in _mem(rng, 'tiles')], 'ops': [op], 'bad': True}
    if tier != 'quick':
        # exhaustive single placements along both edges
        z = [lib.hx(r) for r in _mem(rng, 'ramp')]
        for tid in [15, 31, 240, 241, 255]:
            for xo in range(0, 10):
                for yo in range(0, 10):
                    yield {'hasgfx': 1, 'mem': z, 'ops': ['ss,%d,%d,%d,%s' % (tid, xo, yo, '/'.join(['0102030405060708090a'] * 10)), 'gs,%d,2,2' % tid]}
        for x in range(118, 131):
            for y in list(range(22, 36)) + list(range(54, 68)):
                yield {'hasgfx': 1, 'mem': z, 'ops': ['msr,%d,%d,%s' % (x, y, '/'.join(['0102030405060708090a'] * 10)),
                                                     'mgr,%d,%d,12,%d' % (min(x, 127), min(y, 63), max(1, min(12, 64 - min(y, 63))))]}
        # get_rect_pixels: every rectangle of 1-3 x 1-2 tiles along the right edge and around rows 31/32 and 62/63
        for kind in ['tiles', 'ramp']:
            t = [lib.hx(r) for r in _mem(rng, kind)]
            for x in range(122, 128):
                for y in [0, 30, 31, 32, 61, 62, 63]:
                    yield {'hasgfx': 1, 'mem': t, 'ops': ['mgp,%d,%d,%d,%d' % (x, y, w, h) for w in (1, 128 - x, 129 - x, 131 - x)
                                                         for h in (1, 2) if y + h <= 64]}


def corpus_cases():
    z = [lib.hx(bytes(n)) for n in SIZES]
    yield {'hasgfx': 1, 'mem': z, 'build': 'buffers', 'ops': ['fs,3,255', 'mugc,0,3', 'musc,1,2,5', 'fg,6,255']}
    # a cart loaded from a .p8 that has a __gfx__ section and no __map__ section: the lower map rows live in its sprite sheet
    from props import shortp8 as _sp
    zz = [lib.hx(bytes([1]) + bytes(8191)), lib.hx(_sp.default_region('map')), lib.hx(_sp.default_region('gff')),
          lib.hx(_sp.default_region('music')), lib.hx(_sp.default_region('sfx'))]
    yield {'hasgfx': 1, 'mem': zz, 'build': 'p8', 'ops': ['msc,3,40,171', 'mgc,3,40', 'gs,176,1,1', 'ss,200,0,0,0102/0304', 'mgr,0,50,4,2']}
    # minimised pre-fix defects (kept as regression corpus)
    yield {'hasgfx': 1, 'mem': z, 'ops': ['ss,15,0,0,0102030405060708090a']}            # column 128 wrapped
    yield {'hasgfx': 1, 'mem': z, 'ops': ['ss,240,0,8,01/02']}                          # row 128 IndexError
    yield {'hasgfx': 1, 'mem': z, 'ops': ['msr,0,63,01/02']}                            # row 64 AssertionError
    yield {'hasgfx': 1, 'mem': z, 'ops': ['msr,127,31,0102/0304', 'mgr,126,30,4,4']}
    # get_rect_pixels: tile 0 is empty even when sprite 0 is not; tiles 1 / 255 drawn from the sheet; the shared rows
    yield {'hasgfx': 1, 'mem': z, 'ops': ['ss,0,0,0,0102030405060708/0807060504030201', 'ss,1,0,0,0f0e0d0c0b0a0908',
                                         'ss,255,7,7,0a', 'msr,126,31,0001ff/ff0100', 'mgp,126,31,3,2', 'mgp,0,0,1,1',
                                         'mgp,127,63,1,1', 'mgp,0,0,1,64']}
    # full-width blocks (rows of 127 / 128 / 129 tiles) that start in the upper half and cross rows 31/32, reach the
    # bottom edge, or cover the whole map (the "transform the whole map" use: a bulk path is a plausible rewrite); read
    # back cell by cell on both sides of the border and as one rectangle (round s11)
    def _wide(w, h, k):
        return '/'.join(lib.hx(bytes(((r * 37 + c * 3 + k) % 255) + 1 for c in range(w))) for r in range(h))
    for x, w in [(0, 128), (0, 127), (0, 129), (1, 127), (1, 128)]:
        for y, h in [(30, 4), (31, 2), (29, 3), (0, 33), (62, 3)]:
            yield {'hasgfx': 1, 'mem': z, 'ops': ['msr,%d,%d,%s' % (x, y, _wide(w, h, x + y)), 'mgc,0,31', 'mgc,0,32',
                                                 'mgc,127,31', 'mgc,127,32', 'mgc,1,33', 'mgc,126,63',
                                                 'mgr,0,%d,128,%d' % (y, min(h + 1, 64 - y)), 'mgr,120,28,8,8']}
    yield {'hasgfx': 1, 'mem': z, 'ops': ['msr,0,0,%s' % _wide(128, 64, 5), 'mgr,0,0,128,64', 'gs,0,16,16', 'mgc,5,40']}


def _fmt(v):
    """-> (compare string as the model prints it, monitor string)"""
    if v is None:
        return 'None', 'None'
    if isinstance(v, bool):
        return str(int(v)), str(int(v))
    if isinstance(v, int):
        return str(v), str(v)
    if isinstance(v, tuple) and all(isinstance(x, bool) for x in v):
        s = 'B' + ''.join(str(int(x)) for x in v)
        return s, s
    if isinstance(v, tuple):
        s = 'T' + ':'.join(str(int(x)) for x in v)
        return s, s
    if isinstance(v, list):
        s = 'R' + ('/'.join(lib.hx(r) for r in v) if v else '.')
        return s, s
    raise ValueError(repr(v))


def _o(s):
    return None if s == 'N' else int(s)


def _b(s):
    return None if s == 'N' else (s == '1')


def _rows_arg(s, op=''):
    """the block argument of set_sprite / set_rect_tiles: "an iterable of iterables".  The shape handed over is a
    function of the op text (so a replay repeats it): a list of bytearrays, a generator of lists, a one-shot iterator
    over tuples, a list of one-shot iterators"""
    rows = [] if s == '.' else [bytearray(lib.unhx(r)) for r in s.split('/')]
    shape = sum(op.encode()) % 4
    if shape == 1:
        return (list(r) for r in rows)
    if shape == 2:
        return iter([tuple(r) for r in rows])
    if shape == 3:
        return [iter(list(r)) for r in rows]
    return rows


def apply_op(g, op):
    a = op.split(',')
    k = a[0]
    if k == 'gs':
        return g.gfx.get_sprite(int(a[1]), int(a[2]), int(a[3]))
    if k == 'ss':
        return g.gfx.set_sprite(int(a[1]), _rows_arg(a[4], op), tile_x_offset=int(a[2]), tile_y_offset=int(a[3]))
    if k == 'mgc':
        return g.map.get_cell(int(a[1]), int(a[2]))
    if k == 'msc':
        return g.map.set_cell(int(a[1]), int(a[2]), int(a[3]))
    if k == 'mgr':
        return g.map.get_rect_tiles(int(a[1]), int(a[2]), int(a[3]), int(a[4]))
    if k == 'mgp':
        return g.map.get_rect_pixels(int(a[1]), int(a[2]), int(a[3]), int(a[4]))
    if k == 'msr':
        return g.map.set_rect_tiles(_rows_arg(a[3], op), int(a[1]), int(a[2]))
    if k == 'fg':
        return g.gff.get_flags(int(a[1]), int(a[2]))
    if k == 'fs':
        return g.gff.set_flags(int(a[1]), int(a[2]))
    if k == 'fc':
        return g.gff.clear_flags(int(a[1]), int(a[2]))
    if k == 'fr':
        return g.gff.reset_flags(int(a[1]), int(a[2]))
    if k == 'sgn':
        return tuple(g.sfx.get_note(int(a[1]), int(a[2])))
    if k == 'ssn':
        return g.sfx.set_note(int(a[1]), int(a[2]), pitch=_o(a[3]), waveform=_o(a[4]), volume=_o(a[5]), effect=_o(a[6]))
    if k == 'sgp':
        return tuple(g.sfx.get_properties(int(a[1])))
    if k == 'ssp':
        return g.sfx.set_properties(int(a[1]), editor_mode=_o(a[2]), note_duration=_o(a[3]), loop_start=_o(a[4]), loop_end=_o(a[5]))
    if k == 'mugc':
        r = g.music.get_channel(int(a[1]), int(a[2]))
        return ('opt', r)
    if k == 'musc':
        return g.music.set_channel(int(a[1]), int(a[2]), _o(a[3]))
    if k == 'mugp':
        return tuple(bool(x) for x in g.music.get_properties(int(a[1])))
    if k == 'musp':
        return g.music.set_properties(int(a[1]), begin=_b(a[2]), end=_b(a[3]), stop=_b(a[4]))
    raise ValueError(op)


def run_impl(case):
    from pico8.game.game import Game
    if case.get('build') == 'buffers':
        g, secs, _ = lib.game_from_buffers(case['mem'])
    elif case.get('build') == 'p8':
        g, secs = lib.game_from_p8(case['mem'])      # (a cart that loads to other bytes shows in the memory compared below)
    else:
        g = Game.make_empty_game()
        secs = [g.gfx, g.map, g.gff, g.music, g.sfx]
        for s, h in zip(secs, case['mem']):
            s._data[:] = lib.unhx(h)
    if not case.get('hasgfx', 1):
        g.map._gfx = None
    outs = []
    for op in case['ops']:
        try:
            r = apply_op(g, op)
            if isinstance(r, tuple) and len(r) == 2 and r[0] == 'opt':
                c = 'None' if r[1] is None else str(r[1])
                m = 'ONone' if r[1] is None else 'O%d' % r[1]
            else:
                c, m = _fmt(r)
            outs.append({'raised': None, 'cmp': c, 'mon': m})
        except Exception as e:  # noqa
            outs.append({'raised': lib.exc_name(e), 'cmp': 'ERR ' + lib.exc_name(e), 'mon': '-'})
            break
    return {'outs': outs, 'after': [lib.hx(s._data) for s in secs]}


def model_requests(case, obs):
    return ['seq %d %s %s' % (case.get('hasgfx', 1), ' '.join(case['mem']), ';'.join(case['ops']))]


def compare(case, obs, answers):
    vals = ';'.join(o['cmp'] for o in obs['outs'])
    if obs['outs'] and obs['outs'][-1]['raised']:
        # an exception mid-call may leave partial effects in the real objects; the functional model
        # has no such state: compare the returned values / exception kind only
        got = answers[0][:len(vals)]
        if got != vals or answers[0][len(vals):len(vals) + 1] != ' ':
            return 'history %s: implementation %s, model %s' % (case['ops'], vals[:200], answers[0][:200])
        return None
    exp = vals + ' ' + ' '.join(obs['after'])
    if answers[0] != exp:
        return 'history %s: implementation values/memory differ from the model (impl %s | model %s)' % (
            case['ops'], exp[:120], answers[0][:120])
    return None


def monitor_requests(case, obs):
    if case.get('bad') or not case.get('hasgfx', 1):
        return []
    n = len(obs['outs'])
    ops = case['ops'][:n]
    outs = ';'.join('%d:%s' % (1 if o['raised'] else 0, o['mon']) for o in obs['outs'])
    return ['holdseq %s %s %s %s' % (' '.join(case['mem']), ';'.join(ops), outs, ' '.join(obs['after']))]


def minimize(case, obs, answers):
    """shortest failing prefix, then try the last op alone on zero memory"""
    return case


def _sigop(op):
    a = op.split(',')
    k = a[0]
    if k == 'ss':
        rows = a[4].split('/') if a[4] != '.' else []
        w = max([len(r) // 2 for r in rows if r != '-'] or [0])
        tid, xo, yo = int(a[1]), int(a[2]), int(a[3])
        ex = (tid % 16) * 8 + xo + w - 128
        ey = (tid // 16) * 8 + yo + len(rows) - 128
        return 'ss/right%+d/bottom%+d' % (max(ex, -1), max(ey, -1)) if (ex >= 0 or ey >= 0) else 'ss/inside'
    if k == 'msr':
        rows = a[3].split('/') if a[3] != '.' else []
        w = max([len(r) // 2 for r in rows if r != '-'] or [0])
        ex = int(a[1]) + w - 128
        ey = int(a[2]) + len(rows) - 64
        return 'msr/right%+d/bottom%+d' % (max(ex, -1), max(ey, -1)) if (ex >= 0 or ey >= 0) else 'msr/inside'
    if k == 'mgr':
        return 'mgr/bottom%+d' % max(int(a[2]) + int(a[4]) - 64, -1)
    if k == 'mgp':
        return 'mgp/right%+d/bottom%+d' % (max(int(a[1]) + int(a[3]) - 128, -1), max(int(a[2]) + int(a[4]) - 64, -1))
    return k


def signature(case, obs):
    n = len(obs['outs'])
    last = case['ops'][n - 1] if n else case['ops'][0]
    return 'C17/' + _sigop(last)


def what(case, obs):
    return 'accessor history disagrees with the plain memory model at %s' % signature(case, obs)


def describe(case, obs):
    return {'ops': case['ops'][:6], 'n_ops': len(case['ops']), 'hasgfx': case.get('hasgfx', 1),
            'mem': ['zero' if set(m) <= set('0') else 'sha-%04x' % (hash(m) & 0xffff) for m in case['mem']],
            'outs': [o['cmp'][:40] for o in obs['outs'][:6]] if obs and 'outs' in obs else None}


def nontrivial_key(case, obs):
    return None


def histogram_key(case, obs):
    return 'bad' if case.get('bad') else 'len-%d' % len(case['ops'])


def run_cases(cases, ctx):
    mod = __import__('props.c17', fromlist=['x'])
    res = lib.standard_run(mod, cases, ctx)
    # shrink violations: find the shortest failing prefix
    if res['violations'] and ctx.get('monitor_exe'):
        for v in res['violations']:
            c = v['case']
            for n in range(1, len(c['ops']) + 1):
                c2 = dict(c, ops=c['ops'][:n])
                o2 = run_impl(c2)
                a = lib.run_driver(ctx['monitor_exe'], monitor_requests(c2, o2))
                if a and a[0] != 'true':
                    # try on the last op alone
                    c3 = dict(c2, ops=c2['ops'][-1:])
                    o3 = run_impl(c3)
                    a3 = lib.run_driver(ctx['monitor_exe'], monitor_requests(c3, o3))
                    if a3 and a3[0] != 'true':
                        c2, o2 = c3, o3
                    v['case'] = c2
                    v['summary'] = describe(c2, o2)
                    v['signature'] = signature(c2, o2)
                    v['what'] = what(c2, o2)
                    break
    ops, keys, hist = 0, set(), {}
    for c in cases:
        for op in c['ops']:
            ops += 1
            keys.add(op)
            k = op.split(',')[0]
            hist[k] = hist.get(k, 0) + 1
    res['evaluations'] = ops
    res['nontrivial'] = len(keys)
    res['histogram'] = hist
    return res


def search(ctx, budget):
    import random
    import time
    rng = random.Random(ctx['seed'] + 1)
    mod = __import__('props.c17', fromlist=['x'])
    t0 = time.time()
    viol, n = [], 0
    gen = generate('thorough', rng)
    while time.time() - t0 < budget and not viol:
        batch = []
        for c in gen:
            batch.append(c)
            if len(batch) >= 200:
                break
        if not batch:
            break
        r = run_cases(batch, {'monitor_exe': ctx.get('monitor_exe'), 'model_exe': None})
        n += r['evaluations']
        viol.extend(r['violations'])
    return {'violations': viol, 'evaluations': n}
