"""C03 - .p8 text cart write/read round trip preserves the whole cart."""
import io
import lib
from props import shortp8

ID = 'C03'
GEN_FILES = ['K_p8file', 'K_gfx', 'K_gff', 'K_map', 'K_sfx', 'K_music', 'T_p8scii', 'T_lexer',
             # source pins of the hand-modelled modules (gen/kernels_pins.py)
             'T_pins_p8', 'T_pins_file', 'T_pins_util', 'T_pins_fmtbase', 'T_pins_gfx', 'T_pins_map', 'T_pins_gff', 'T_pins_sfx', 'T_pins_music', 'T_pins_game']
COQ_PROPERTY = 'theories/Properties/C03.vo'
COQ_EXTRA = ['theories/Generated/K_gfx_selftest.vo', 'theories/Generated/K_sfx_selftest.vo',
             'theories/Generated/K_music_selftest.vo',
             'theories/Proofs/P8Pins.vo', 'theories/Proofs/FilePins.vo', 'theories/Proofs/UtilPins.vo', 'theories/Proofs/FmtBasePins.vo', 'theories/Proofs/GfxPins.vo', 'theories/Proofs/MapPins.vo', 'theories/Proofs/GffPins.vo', 'theories/Proofs/SfxPins.vo', 'theories/Proofs/MusicPins.vo', 'theories/Proofs/GamePins.vo']
MODEL = ('ExC03', 'c03_main.ml')
MONITOR = ('MonC03', 'c03_mon_main.ml')
SIZES = {'gfx': 8192, 'gff': 256, 'map': 4096, 'sfx': 4352, 'music': 256}
ORDER = ['gfx', 'gff', 'map', 'sfx', 'music']
RULE = ('cart case = version + label present/absent + five regions (random / 0xff / ramp / walking bit / zero) + Lua source '
        '(statements, comments and strings over all 256 P8SCII byte values, glyph identifiers, with or without final newline, '
        'empty, CRLF); the real P8Formatter.to_file output is compared byte for byte with the model\'s file, the real '
        'from_file result (regions, label, version, the lines handed to the lexer) with the model\'s reader on the same bytes, '
        'and holds_C03 (Spec/P8FileSpec.v, extracted) judges cart -> file -> cart\' -> file\' on the implementation alone; '
        'malformed files (bad header, unknown section, duplicate sections, header-like code lines, invalid UTF-8, lines '
        'before the first section) compare reader model and implementation incl. the exception raised; the two header regexes '
        'are compared with the hand-written matchers on all strings up to length 6 over a 7-symbol alphabet; short cases: the '
        'file the real to_file wrote for a cart, with every data section cut by the harness to its first k rows (k = 0, 1, 2, '
        'half, all but one; sections with no row left out or kept as a bare header; with or without the blank separator lines) '
        'and hand-written minimal carts the way PICO-8 0.2.x saves them: from_file on them is compared with the model\'s '
        'reader and judged by holds_C03_short (every region at full size: the rows present, then the empty default), and the '
        're-read cart is written and read once more (same cart). '
        'distinct+non-trivial = distinct cart cases with a non-zero region or non-empty code')
ASSUMPTIONS = ['the Lua object is abstract in the theorems (its lexer/parser/echo are C06/C07/C08): the round-trip theorem '
               'assumes echo(lex(text)) = text for text that is already an echo and that the sanity re-lex succeeds',
               'Python int() on the (\\d+) group and "%s" % int are modelled by the stdlib Decimal conversions']
PARTIAL = ('C03_roundtrip / C03_rewrite_identical keep the Lua object abstract (sanity re-lex, non-empty last chunk, echo '
           'stability as hypotheses); C03_roundtrip_lexer instantiates it with the lexer model and echo writer and discharges '
           'them (C03_roundtrip_lexer_full: also the sanity re-lex, under no_lone_cr_newline; C03_roundtrip_lexer_dialect: for '
           'code lexed from a source of the reference dialect no side condition is left and the re-read cart is again such a '
           'cart, re-written identically); left: the parser accepts what the '
           'lexer accepts (Lua.from_lines also parses) - observed by the monitor on every case, not proved')
TRUSTED = ['hand-written matchers for HEADER_VERSION_RE / SECTION_DELIM_RE (sources pinned; compared with re exhaustively on short strings)',
           'gen/kernels_p8file.py: the statement sequence of P8Formatter.to_file, the dispatch of from_file and its '
           'fill-up loop for short sections as data']
CLAIM = dict(
    text=("Theorems C03_roundtrip, C03_rewrite_identical, C03_ended_flag, C03_short_sections_padded, C03_short_holds, C03_fill_defaults_are_the_formats, C03_roundtrip_lexer, C03_roundtrip_lexer_full, C03_roundtrip_lexer_dialect (Coq, closed under the global context) about a model "
          "of P8Formatter.to_file / _get_raw_data_from_p8_file / from_file whose writer statement sequence, section dispatch, "
          "the loop that fills short data sections up (with the default contents taken from the running code) "
          "and header strings are regenerated from p8.py on every run: for every cart (any bytes in the five regions, any label "
          "or none, any version >= 0, any echoed Lua text without a __section__-like line) the file is written, splits back into "
          "exactly the written lines, the lexer is handed exactly the echoed text with a missing final newline supplied, and the "
          "re-read cart has the same version, regions (music minus the one excepted bit) and label; re-writing it gives the "
          "identical file. C03_short_sections_padded: for a cart whose data regions stop early at a row boundary (the .p8 files "
          "newer PICO-8 versions save leave out the empty tail of a section) the file spelling out just those rows reads back "
          "with every region at full length - the rows present followed by the empty default (zeros; 41 42 43 44 per music "
          "pattern) - about the code AFTER the fix: commit that fills short sections up in from_file; C03_short_holds: that "
          "reading is the cart the file denotes by the reference semantics (holds_C03_short holds of the model's reader); "
          "C03_fill_defaults_are_the_formats: the defaults dumped from the running code are those of the format description. "
          "Built on the C15 (P8SCII/UTF-8) and C16 (per-section codecs) theorems. PARTIAL in one respect: the "
          "Lua object is abstract in the theorems - that the sanity re-lex succeeds, that the echo writer's last chunk is not "
          "empty, and echo_stable (the re-read object echoes the text it was lexed from) are explicit hypotheses owed by the "
          "lexer stack (C06/C07); they are observed, not proved, in the abstract theorems; C03_roundtrip_lexer instantiates the Lua object with the lexer model and echo writer of C06/C07 and discharges them from Proofs/EchoStable.v (echo idempotence, also with the final newline supplied; no echoed line is empty), and C03_roundtrip_lexer_full also discharges the writer's sanity re-lex (for Lua objects without a lone-CR newline token), C03_roundtrip_lexer_dialect states it for carts whose code was lexed from a byte text of the reference dialect (written, read back, re-written identically, and the re-read cart is again lexed from a text of the dialect - by C06_relex_reference - so the trip iterates) with no lexer-side hypothesis, leaving the parser's acceptance (Lua.from_lines also parses) as the one thing observed rather than proved. Tie: model vs real to_file bytes and from_file results "
          "(regions, label, version, the lines handed to the lexer, exceptions on malformed files), the two header regex "
          "matchers vs re exhaustively on short strings, and holds_C03 (extracted from Spec/P8FileSpec.v) on the "
          "implementation's own cart -> file -> cart' -> file'; files with sections cut to k rows by the harness and "
          "hand-written minimal carts: from_file vs the model's reader and holds_C03_short (the cart read is the cart the file "
          "denotes by Spec/P8Format.v 'short sections')."),
    note=("Trusted: Coq kernel+VM, gen/kernels_p8file.py (to_file statement sequence, from_file dispatch and fill-up loop as data; fail-closed), "
          "the hand-written regex matchers (sources pinned), readline/dict modelling, stdlib Decimal for int()/'%s', extraction, "
          "OCaml glue. The lexer/parser/echo writer are abstract (hypotheses named in the theorem statements)."),
    technique='Coq proof (round trip by induction over lines/sections on regenerated writer events; table side conditions by vm_compute) + correspondence + extracted monitor',
    design_ref='8 C03')


# ------------------------------------------------------------------ generators
def _region(rng, n, kind):
    if kind == 'zero':
        return bytes(n)
    if kind == 'ff':
        return b'\xff' * n
    if kind == 'ramp':
        return bytes((i * 5 + 1) & 255 for i in range(n))
    if kind == 'bit':
        k = rng.randrange(8)
        return bytes((1 << k) if i % 9 == k else 0 for i in range(n))
    return rng.randbytes(n)


NAMES = [b'x', b'y', b'foo', b'a_b', b'\x80', b'p\x8bq', b'\xffz', b'_u', b'k9']


def _safe(rng, n, avoid):
    out = bytearray()
    while len(out) < n:
        c = rng.randrange(256)
        if c in avoid:
            continue
        out.append(c)
    return bytes(out)


def _code(rng, kind):
    if kind == 'empty':
        return b''
    if kind == 'nl':
        return b'\n'
    lines = []
    n = rng.choice([1, 2, 5, 20])
    for _ in range(n):
        r = rng.random()
        nm = rng.choice(NAMES)
        if r < 0.25:
            lines.append(nm + b'=' + str(rng.randrange(0, 1000)).encode())
        elif r < 0.5:
            lines.append(b'-- ' + _safe(rng, rng.randrange(0, 40), {10, 13}))
        elif r < 0.75:
            q = rng.choice([b'"', b"'"])
            lines.append(nm + b'=' + q + _safe(rng, rng.randrange(0, 30), {10, 13, 92, q[0], 0}) + q)
        elif r < 0.85:
            lines.append(b'print(' + nm + b')')
        elif r < 0.9:
            lines.append(b'')
        else:
            lines.append(b'if ' + nm + b' then ' + nm + b'=1 end -- ' + _safe(rng, 5, {10, 13}))
    if kind == 'allbytes':
        for lo in range(0, 256, 32):
            body = bytes(c for c in range(lo, lo + 32) if c not in (10, 13))
            lines.append(b'-- ' + body)
            lines.append(b's="' + bytes(c for c in body if c not in (34, 92, 0)) + b'"')
    eol = b'\r\n' if kind == 'crlf' else b'\n'
    text = eol.join(lines)
    if kind != 'nofinal':
        text += eol
    return text


def _cart(rng, tier):
    kinds = ['random', 'random', 'zero', 'ff', 'ramp', 'bit']
    c = {'kind': 'cart', 'version': rng.choice([0, 1, 8, 16, 29, 33, 41, 255, 256, 1000, 123456789012]),
         'label': lib.hx(_region(rng, 8192, rng.choice(kinds))) if rng.random() < 0.5 else None,
         'code': lib.hx(_code(rng, rng.choice(['plain', 'plain', 'allbytes', 'nofinal', 'empty', 'nl', 'crlf'])))}
    for s in ORDER:
        if rng.random() < 0.2:
            # derived from the library's own empty section (default, rotated by one record, ...): see c16.default_variants
            from props import c16
            c[s] = lib.hx(rng.choice(list(c16.default_variants(rng, s))))
        else:
            c[s] = lib.hx(_region(rng, SIZES[s], rng.choice(kinds)))
    return c


def _malformed(rng, base_file):
    """mutations of a well-formed file"""
    lines = base_file.split(b'\n')
    outs = []
    outs.append(b'pico-8 cartridge // http://www.pico-8.co\n' + b'\n'.join(lines[1:]))
    outs.append(lines[0] + b'\nversion x\n' + b'\n'.join(lines[2:]))
    outs.append(lines[0] + b'\nversion 12')
    outs.append(lines[0] + b'\n')
    outs.append(b'')
    outs.append(lines[0] + b'\nversion 007\n__lua__\nx=1\n')
    outs.append(lines[0] + b'\nversion 8\nstray line\n__lua__\nx=1\n__gfx__\n' + b'0' * 128 + b'\n')
    outs.append(lines[0] + b'\nversion 8\n__lua__\nx=1\n__bogus__\n00\n')
    outs.append(lines[0] + b'\nversion 8\n__lua__\nx=1\n__lua__\ny=2\n__gff__\n0102\n__lua__\nz=3\n')
    outs.append(lines[0] + b'\nversion 8\n__lua__\nx=1\n__x__y__\nz=3\n')
    outs.append(lines[0] + b'\nversion 8\n__lua__\nx="\xff\xfe"\n')
    outs.append(lines[0] + b'\nversion 8\n__lua__\nx="\xe2\x96\x88\xf0\x9f\x98\x90"\n__gfx__\nzz\n')
    outs.append(lines[0] + b'\nversion 8\n__gff__\n01 02\n0a0B\n\n__map__\n' + b'ab' * 128 + b'\n__sfx__\nshort\n__music__\n00 41424344\n')
    outs.append(lines[0] + b'\nversion 8\n__lua__\nx=1')
    outs.append(lines[0] + b'\nversion 8\n____\n_____\n__a__ \n __a__\n__lua__\nx=2\n')
    # a few random single-byte mutations in the first 200 bytes
    for _ in range(6):
        b = bytearray(base_file[:400])
        i = rng.randrange(len(b))
        b[i] = rng.choice([10, 95, 32, 48, 0xc3, 120])
        outs.append(bytes(b))
    return outs


def _regex_cases():
    alpha = [b'_', b'a', b'1', b'\n', b' ', b'\xc3', b'v']
    import itertools
    ms, mv = [], []
    for n in range(0, 7):
        for t in itertools.product(alpha, repeat=n):
            ms.append(b''.join(t))
    for tail in [b'', b'\n', b'1\n', b'12\n', b'12', b'1 \n', b' 1\n', b'1\n2', b'a\n', b'\xb2\n', b'00012\n', b'1_0\n', b'+1\n']:
        for head in [b'version ', b'version', b'Version ', b' version ', b'version  ']:
            mv.append(head + tail)
    return ms, mv


def generate(tier, rng):
    n = 24 if tier == 'quick' else 400
    for i in range(n):
        c = _cart(rng, tier)
        if i % 3 == 1:
            c['via_file'] = 1
        yield c
    # carts whose regions all derive from the library's own empty sections (see c16.default_variants)
    from props import c16
    vs = {s: list(c16.default_variants(rng, s)) for s in ORDER}
    for i in range(5):
        c = _cart(rng, tier)
        for s in ORDER:
            c[s] = lib.hx(vs[s][i])
        yield c
    # files whose data sections have fewer rows than the full count (newer PICO-8 versions leave out the empty tail)
    for i in range(10 if tier == 'quick' else 120):
        c = _cart(rng, tier)
        c['kind'] = 'short'
        keep = {}
        for s in shortp8.DATA_SECTIONS:
            n = shortp8.ROWS[s]
            if rng.random() < 0.8:
                keep[s] = rng.choice([0, 0, 1, 2, n // 2, n - 1])
        c['keep'] = keep
        c['blank'] = i % 2 == 0
        c['drop_empty'] = i % 3 != 0
        yield c
    for name in sorted(shortp8.MINIMAL):
        yield {'kind': 'shorttext', 'name': name, 'text': lib.hx(shortp8.MINIMAL[name])}
    yield {'kind': 'malformed'}
    yield {'kind': 'regex'}
    import os
    td = os.path.join(lib.REPO, 'tests', 'testdata')
    for base in ('test_cart', 'test_gol', 'test_cart_memdump', 'test_cart_with_label', 'empty'):
        p = os.path.join(td, base + '.p8')
        if os.path.exists(p):
            yield {'kind': 'file', 'path': p}


def corpus_cases():
    z = {s: lib.hx(bytes(SIZES[s])) for s in ORDER}
    # the cart of findings/known_C04.json (fixed): a two-row __gfx__ and a one-row __music__ section, nothing else
    yield {'kind': 'shorttext', 'name': 'gfx2-music1', 'text': lib.hx(shortp8.MINIMAL['gfx2-music1'])}
    yield dict(z, kind='cart', version=8, label=None, code=lib.hx(b''))
    yield dict(z, kind='cart', version=0, label=lib.hx(bytes(8192)), code=lib.hx(b'x=1'))
    yield dict(z, kind='cart', version=8, label=None, code=lib.hx(b'-- \x80\x8b\xff\x01\x7f\nx="\x99"\n'))


# ------------------------------------------------------------------ implementation
class _Capture:
    """records the lines P8Formatter.from_file hands to Lua.from_lines"""

    def __enter__(self):
        from pico8.lua import lua
        self.lua = lua
        self.orig = lua.Lua.__dict__['from_lines']
        self.lines = None
        self.lua_error = None
        cap = self
        origf = self.orig.__func__

        def from_lines(cls, lines, version):
            lines = list(lines)
            cap.lines = lines
            try:
                return origf(cls, lines, version)
            except Exception as e:  # noqa
                cap.lua_error = lib.exc_name(e)
                raise
        lua.Lua.from_lines = classmethod(from_lines)
        return self

    def __exit__(self, *a):
        self.lua.Lua.from_lines = self.orig


def _read(data):
    from pico8.game.formatter.p8 import P8Formatter
    with _Capture() as cap:
        try:
            g = P8Formatter.from_file(io.BytesIO(data))
            err = None
        except Exception as e:  # noqa
            g, err = None, lib.exc_name(e)
    return g, err, cap.lines, cap.lua_error


def _cart_obs(g, with_code=True):
    o = {'version': g.version, 'label': lib.hx(g.label._data) if g.label is not None else None}
    for s in ORDER:
        o[s] = lib.hx(getattr(g, s)._data)
    if with_code:
        o['code'] = lib.hx(b''.join(g.lua.to_lines()))
    return o


def _split_keep(b):
    out = b.split(b'\n')
    res = [x + b'\n' for x in out[:-1]]
    if out[-1]:
        res.append(out[-1])
    return res


def run_impl(case):
    k = case['kind']
    from pico8.game.formatter.p8 import P8Formatter
    if k == 'cart':
        from pico8.game.game import Game
        from pico8.gfx.gfx import Gfx
        from pico8.lua.lua import Lua
        g = Game.make_empty_game(version=case['version'])
        for s in ORDER:
            getattr(g, s)._data[:] = lib.unhx(case[s])
        g.label = Gfx(data=lib.unhx(case['label']), version=case['version']) if case['label'] is not None else None
        g.version = case['version']
        src = lib.unhx(case['code'])
        try:
            g.lua = Lua.from_lines(_split_keep(src), version=case['version'])
        except Exception as e:  # noqa: the source is outside picotool's dialect: no claim
            return {'skip': lib.exc_name(e)}
        chunks = list(g.lua.to_lines())
        before = _cart_obs(g)
        obs = {'chunks': [lib.hx(c) for c in chunks], 'before': before, 'raised': None}
        try:
            f1 = io.BytesIO()
            if case.get('via_file'):
                # through the file-name API, over an EXISTING .p8 that holds another cart WITH a label picture: what is
                # written must be this cart (a cart without a label must not inherit the destination's)
                import os
                import tempfile
                from pico8.game import file as gfile
                d = tempfile.mkdtemp(prefix='c03-', dir=os.path.join(lib.VERIF, 'work') if os.path.isdir(os.path.join(lib.VERIF, 'work')) else None)
                try:
                    path = os.path.join(d, 'cart.p8')
                    old = Game.make_empty_game(version=8)
                    old.label = Gfx(data=bytes((i * 7 + 3) & 255 for i in range(8192)), version=8)
                    old.lua = Lua.from_lines([b'old=1\n'], version=8)
                    with open(path, 'wb') as fh:
                        P8Formatter.to_file(old, fh)
                    gfile.to_file(g, path)
                    with open(path, 'rb') as fh:
                        f1.write(fh.read())
                finally:
                    import shutil
                    shutil.rmtree(d, ignore_errors=True)
            else:
                P8Formatter.to_file(g, f1)
            obs['f1'] = lib.hx(f1.getvalue())
        except Exception as e:  # noqa
            obs['raised'] = 'write:' + lib.exc_name(e)
            return obs
        g2, err, lines, lua_err = _read(f1.getvalue())
        obs['read_err'] = err
        obs['lualines'] = [lib.hx(l) for l in lines] if lines is not None else None
        if err:
            obs['raised'] = 'read:' + err
            return obs
        obs['after'] = _cart_obs(g2)
        try:
            f2 = io.BytesIO()
            P8Formatter.to_file(g2, f2)
            obs['f2'] = lib.hx(f2.getvalue())
        except Exception as e:  # noqa
            obs['raised'] = 'rewrite:' + lib.exc_name(e)
        return obs
    if k in ('short', 'shorttext'):
        if k == 'short':
            whole = run_impl(dict(case, kind='cart'))
            if 'skip' in whole or 'f1' not in whole:
                return {'skip': whole.get('skip') or whole.get('raised')}
            data = shortp8.cut_rows(lib.unhx(whole['f1']), case['keep'], blank_lines=case['blank'],
                                    drop_empty=case['drop_empty'])
            # what the file spells out: the rows kept of every region
            cut = {s: lib.hx(lib.unhx(case[s])[:case['keep'][s] * shortp8.ROW[s]]) if s in case['keep'] else case[s]
                   for s in ORDER}
            lab = case['label']
            if lab is not None and 'label' in case['keep']:
                lab = lib.hx(lib.unhx(lab)[:case['keep']['label'] * 64])
                if case['drop_empty'] and case['keep']['label'] == 0:
                    lab = None          # the label section is not in the file at all
            obs = {'spelt': dict(cut, version=case['version'], label=lab, code=whole['before']['code'])}
        else:
            data = lib.unhx(case['text'])
            obs = {}
        g, err, lines, lua_err = _read(data)
        obs.update({'file': lib.hx(data), 'read_err': err, 'lua_err': lua_err,
                    'lualines': [lib.hx(l) for l in lines] if lines is not None else None})
        if g is not None:
            obs['after'] = _cart_obs(g)
            # the cart read is a cart like any other: written and read once more it must be the same cart
            try:
                f2 = io.BytesIO()
                P8Formatter.to_file(g, f2)
                g3, err3, _, _ = _read(f2.getvalue())
                obs['again'] = _cart_obs(g3) if g3 is not None else 'ERR ' + str(err3)
            except Exception as e:  # noqa
                obs['again'] = 'ERR ' + lib.exc_name(e)
        return obs
    if k == 'file':
        data = open(case['path'], 'rb').read()
        g, err, lines, lua_err = _read(data)
        obs = {'file': lib.hx(data), 'read_err': err, 'lua_err': lua_err,
               'lualines': [lib.hx(l) for l in lines] if lines is not None else None}
        if g is not None:
            obs['after'] = _cart_obs(g, with_code=False)
        return obs
    if k == 'malformed':
        import random
        from pico8.game.game import Game
        g = Game.make_empty_game()
        f = io.BytesIO()
        P8Formatter.to_file(g, f)
        rows = []
        for data in _malformed(random.Random(7), f.getvalue()):
            g2, err, lines, lua_err = _read(data)
            row = {'file': lib.hx(data), 'read_err': err, 'lua_err': lua_err,
                   'lualines': [lib.hx(l) for l in lines] if lines is not None else None}
            if g2 is not None:
                row['after'] = _cart_obs(g2, with_code=False)
            rows.append(row)
        return {'rows': rows}
    if k == 'regex':
        from pico8.game.formatter import p8
        ms, mv = _regex_cases()
        r1 = []
        for s in ms:
            m = p8.SECTION_DELIM_RE.match(s)
            r1.append((lib.hx(s), 'S ' + lib.hx(m.group(1)) if m else 'N'))
        r2 = []
        for s in mv:
            m = p8.HEADER_VERSION_RE.match(s)
            r2.append((lib.hx(s), 'S %d' % int(m.group(1)) if m else 'N'))
        return {'ms': r1, 'mv': r2}
    raise ValueError(k)


def _w_req(case, chunks):
    return 'w %d %s %s %s' % (case['version'], case['label'] or 'N', ' '.join(case[s] for s in ORDER),
                              '|'.join(chunks) if chunks else '.')


def _r_expect(row):
    """the model's answer to `r file` expected from an implementation read observation (None = not comparable)"""
    if row.get('lua_err'):
        return None     # the lexer/parser rejected the Lua section: outside this model (identity lexer)
    if row['read_err']:
        return 'ERR ' + row['read_err']
    a = row['after']
    return 'OK %d %s %s %s' % (a['version'], a['label'] or 'N', ' '.join(a[s] for s in ORDER),
                               '|'.join(row['lualines']) if row['lualines'] else '.')


def model_requests(case, obs):
    k = case['kind']
    if k == 'cart':
        if 'skip' in obs:
            return []
        reqs = [_w_req(case, obs['chunks'])]
        if 'f1' in obs:
            reqs.append('r ' + obs['f1'])
        return reqs
    if k in ('file', 'short', 'shorttext'):
        return [] if 'skip' in obs else ['r ' + obs['file']]
    if k == 'malformed':
        return ['r ' + r['file'] for r in obs['rows']]
    if k == 'regex':
        return ['ms ' + s for s, _ in obs['ms']] + ['mv ' + s for s, _ in obs['mv']]
    return []


def compare(case, obs, answers):
    k = case['kind']
    if k == 'cart':
        if 'skip' in obs:
            return None
        if obs['raised'] and obs['raised'].startswith('write:'):
            exp = 'ERR ' + obs['raised'][6:]
            return None if answers[0] == exp else 'to_file raised %s, model %s' % (obs['raised'], answers[0][:60])
        if answers[0] != 'OK ' + obs['f1']:
            return 'to_file bytes differ from the model (model %s...)' % answers[0][:80]
        exp = _r_expect({'read_err': obs['read_err'], 'after': obs.get('after'), 'lualines': obs['lualines'], 'lua_err': None})
        if obs['read_err']:
            return None if answers[1] == exp else 'from_file raised %s, model %s' % (obs['read_err'], answers[1][:60])
        if answers[1] != exp:
            return 'from_file result differs from the model'
        return None
    if k == 'file':
        exp = _r_expect(obs)
        if exp is not None and answers[0] != exp:
            return 'from_file(%s) differs from the model (%s...)' % (case['path'], answers[0][:60])
        return None
    if k in ('short', 'shorttext'):
        if 'skip' in obs:
            return None
        exp = _r_expect(obs)
        if exp is not None and answers[0] != exp:
            return 'from_file of a file with short sections differs from the model (implementation %s..., model %s...)' % (
                exp[:40], answers[0][:40])
        return None
    if k == 'malformed':
        for r, a in zip(obs['rows'], answers):
            exp = _r_expect(r)
            if exp is not None and a != exp:
                return 'malformed file %s...: implementation %s..., model %s...' % (r['file'][:60], exp[:50], a[:50])
        return None
    if k == 'regex':
        rows = obs['ms'] + obs['mv']
        for (s, exp), a in zip(rows, answers):
            if a != exp:
                return 'regex matcher differs on %s: re %s, model %s' % (s, exp, a)
        return None
    return None


def _side(o):
    return '%d %s %s %s' % (o['version'], o['code'], o['label'] or 'N', ' '.join(o[s] for s in ORDER))


def monitor_requests(case, obs):
    if case['kind'] in ('short', 'shorttext') and 'skip' not in obs:
        reqs = []
        a = obs.get('after')
        if case['kind'] == 'short':
            sp = obs['spelt']
            reqs.append('s %d %s %s' % (0 if a else 1, _side(sp), _side(a or sp)))
        elif a is None:
            reqs.append('s-read-raised-%s' % obs['read_err'])        # not a request: answers DRIVER-ERROR
        if a is not None:
            # every region of the cart read is whole (the same predicate with nothing left out) and it survives a
            # write/read of its own
            g = obs['again']
            if isinstance(g, str):
                reqs.append('s-rewrite-%s' % g.replace(' ', '-'))
            else:
                reqs.append('s 0 %s %s' % (_side(a), _side(g)))
        return reqs
    if case['kind'] != 'cart' or 'skip' in obs:
        return []
    b = obs['before']
    raised = 1 if obs['raised'] else 0
    a = obs.get('after') or b
    f1 = obs.get('f1', '-')
    f2 = obs.get('f2', '-')

    def side(o):
        return '%d %s %s %s' % (o['version'], o['code'], o['label'] or 'N', ' '.join(o[s] for s in ORDER))
    return ['h %d %s %s %s %s' % (raised, side(b), side(a), f1, f2)]


def signature(case, obs):
    if case['kind'] in ('short', 'shorttext'):
        a = (obs or {}).get('after')
        if not a:
            return 'C03/short/raised/%s' % (obs or {}).get('read_err')
        bad = [s for s in ORDER if len(a[s]) != 2 * SIZES[s]]
        if a['label'] is not None and len(a['label']) != 2 * 8192:
            bad.append('label')
        return 'C03/short/' + ('size:' + '+'.join(bad) if bad else 'contents')
    if case['kind'] != 'cart':
        return 'C03/' + case['kind']
    if obs.get('raised'):
        return 'C03/raised/' + obs['raised']
    b, a = dict(obs['before']), obs.get('after', {})
    code = lib.unhx(b['code'])
    b['code'] = lib.hx(code if code.endswith(b'\n') else code + b'\n')      # a missing final newline is supplied
    mus = bytearray(lib.unhx(b['music']))
    for i in range(3, len(mus), 4):
        mus[i] &= 0x7f                                                        # the one excepted bit
    b['music'] = lib.hx(mus)
    diffs = [s for s in ['version', 'label', 'code'] + ORDER if a.get(s) != b.get(s)]
    if obs.get('f1') != obs.get('f2'):
        diffs.append('rewrite')
    return 'C03/differs/' + '+'.join(diffs)


def what(case, obs):
    if case['kind'] in ('short', 'shorttext'):
        return ('reading a .p8 file whose data sections have fewer rows than the full count does not give the cart the '
                'file denotes (%s)' % signature(case, obs))
    return '.p8 write/read round trip does not preserve the cart (%s)' % signature(case, obs)


def describe(case, obs):
    d = {'kind': case['kind']}
    if case['kind'] == 'cart':
        d.update(version=case['version'], label=case['label'] is not None, code=case['code'][:80],
                 code_len=len(lib.unhx(case['code'])),
                 regions={s: ('zero' if set(case[s]) <= set('0') else 'sha-%04x' % (hash(case[s]) & 0xffff)) for s in ORDER})
        if obs:
            d['raised'] = obs.get('raised')
            d['skipped'] = obs.get('skip')
    elif case['kind'] == 'file':
        d['path'] = case['path']
    elif case['kind'] in ('short', 'shorttext'):
        d.update(rows_kept=case.get('keep'), blank_lines=case.get('blank'), drop_empty=case.get('drop_empty'),
                 name=case.get('name'))
        if obs and 'file' in obs:
            d['file'] = lib.unhx(obs['file'])[:160].decode('latin-1') + '...'
            d['read_error'] = obs.get('read_err')
            if obs.get('after'):
                d['region_sizes_read'] = {s: len(obs['after'][s]) // 2 for s in ORDER}
    return d


def minimize(case, obs, answers):
    """shrink a failing cart: zero regions / drop label / shorten code while it still fails"""
    if case['kind'] != 'cart':
        return case
    mod = __import__('props.c03', fromlist=['x'])

    def fails(c):
        o = run_impl(c)
        if 'skip' in o:
            return False
        r = monitor_requests(c, o)
        exe = minimize.monitor_exe
        return bool(r) and exe and lib.run_driver(exe, r)[0] != 'true'
    if not getattr(minimize, 'monitor_exe', None):
        return case
    cur = dict(case)
    for s in ORDER:
        t = dict(cur)
        t[s] = lib.hx(bytes(SIZES[s]))
        if fails(t):
            cur = t
    if cur['label'] is not None:
        t = dict(cur, label=None)
        if fails(t):
            cur = t
    code = lib.unhx(cur['code'])
    lines = _split_keep(code)
    i = 0
    while i < len(lines):
        t = dict(cur, code=lib.hx(b''.join(lines[:i] + lines[i + 1:])))
        if fails(t):
            lines = lines[:i] + lines[i + 1:]
            cur = t
        else:
            i += 1
    return cur


def nontrivial_key(case, obs):
    if case['kind'] in ('short', 'shorttext') and 'skip' not in (obs or {}):
        return hash(tuple(sorted((k, str(v)) for k, v in case.items())))
    if case['kind'] == 'cart' and 'skip' not in (obs or {}):
        if any(set(case[s]) - set('0') for s in ORDER) or case['code'] != '-':
            return hash(tuple(sorted((k, str(v)) for k, v in case.items())))
    return None


def histogram_key(case, obs):
    if case['kind'] == 'cart':
        if obs and 'skip' in obs:
            return 'cart:source-rejected-by-lexer-or-parser'
        return 'cart:label=%s' % (case['label'] is not None)
    return case['kind']


def run_cases(cases, ctx):
    mod = __import__('props.c03', fromlist=['x'])
    minimize.monitor_exe = ctx.get('monitor_exe')
    res = lib.standard_run(mod, cases, ctx)
    return res


def search(ctx, budget):
    import random
    import time
    rng = random.Random(ctx['seed'] + 1)
    mod = __import__('props.c03', fromlist=['x'])
    minimize.monitor_exe = ctx.get('monitor_exe')
    t0 = time.time()
    viol, n = [], 0
    while time.time() - t0 < budget and not viol:
        batch = [_cart(rng, 'thorough') for _ in range(20)]
        r = lib.standard_run(mod, batch, {'monitor_exe': ctx.get('monitor_exe'), 'model_exe': None})
        n += r['evaluations']
        viol.extend(r['violations'])
    return {'violations': viol, 'evaluations': n}
