"""C13 - `p8tool build` takes each cart section from exactly the source the arguments name."""
import io
import itertools
import os
import random
import re
import shutil
import zlib

import lib
from props import fsx

ID = 'C13'
GEN_FILES = ['T_file_proto', 'T_build_do',
             # source pins of the hand-modelled modules (gen/kernels_pins.py)
             'T_pins_build', 'T_pins_file', 'T_pins_p8', 'T_pins_p8png', 'T_pins_game', 'T_pins_tool']
COQ_PROPERTY = 'theories/Properties/C13.vo'
COQ_EXTRA = ['theories/Proofs/BuildPins.vo', 'theories/Proofs/FilePins.vo', 'theories/Proofs/P8Pins.vo', 'theories/Proofs/P8PngPins.vo', 'theories/Proofs/GamePins.vo', 'theories/Proofs/ToolPins.vo']
MODEL = ('ExC13', 'c13_main.ml')
MONITOR = ('MonC13', 'c13_mon_main.ml')
CASE_TIMEOUT = 120
SECS = ['lua', 'gfx', 'gff', 'map', 'sfx', 'music']
RULE = ('case = one `p8tool build` command line run by pico8.tool.main in a sandbox directory (in one case out of two the same command line was run there before with other carts under the source names and a throw-away OUT, so every source path has been seen by the process with other contents): for each of the six '
        'sections one of {unspecified, --X <.p8 source>, --X <.p8.png source>, --empty-X, (lua) --lua <.lua file>} or an '
        'unusable form {--X with --empty-X, missing file, wrong extension, unreadable cart}; OUT in {absent, existing .p8 '
        'with label section, existing .p8 without, existing .p8.png with its own label picture, unreadable} x OUT name '
        '{.p8, .p8.png, bad extension}; every source and every previous OUT has its own random contents in every section; two of '
        'the .p8 sources (s2.p8 with a label, s5.p8 without) are carts with SHORT sections the way newer PICO-8 versions save '
        'them (a few rows, then nothing: the rows left out are the empty default), so a section taken from them must arrive '
        'in OUT as the whole region. '
        'Observed: exit status / exception, the message, the Game handed to file.to_file, every path opened for writing, '
        'OUT bytes before/after, OUT read back with file.from_file (+ raw PNG pixels for the label picture). Compared with '
        'the extracted model of do_build (outcome, written cart, label source) and judged by the extracted Spec-only '
        'monitor holds_C13. quick: 400 command lines stratified over (assignment, OUT state, OUT format, error kind); '
        'thorough: all 4^6 assignments x 3 OUT states for .p8 OUT, 1000 for .p8.png OUT, 1500 with unusable arguments. '
        'distinct+non-trivial = distinct (assignment, OUT state, OUT name) with at least one section named')
ASSUMPTIONS = [
    'Lua sections are compared as line sequences: a missing final newline is supplied and the empty program equals one '
    'empty line (the .p8 format is line based and the writer terminates the last line)',
    'sources are carts that read back (file.from_file) exactly as generated; .lua sources contain no require() (C14)',
    'sfx/music contents are drawn from the values the .p8 text format can represent (random bytes passed once through '
    'the .p8 writer/reader), so that a cross-format copy is not blamed for the formats\' differences (C03/C16)',
]
PARTIAL = ''
TRUSTED = ['in-process wrappers around pico8.game.file.to_file and builtins.open (harness/props/fsx.py, c13.py)',
           'pypng as reader of the label picture of a .p8.png',
           'Python dict equality on bytes (interning of section contents into identifiers)']
CLAIM = dict(
    text=("Theorems (Coq, closed under the global context): C13_select - for every command line (file names are arbitrary "
          "byte strings), every state of the files (which exist, which carts they hold, which fail to load) and every "
          "section content (abstract type, hence unbounded), what the model of build.do_build + file.to_file leaves in OUT "
          "equals the selection rule written from the property statement (named source's section / empty default / OUT's "
          "previous section or the default; label picture resp. label section of an existing OUT kept; failure for --X "
          "with --empty-X, missing file, wrong extension, bad OUT extension, unreadable cart); C13_fail_untouched - in "
          "every failing case the model performs no to_file call, OUT is not even opened; C13_ok_written - otherwise "
          "exactly one to_file(result, OUT) with the echo writer; C13_write_shape - for every Namespace (also with "
          "--lua-minify etc.) at most one write, to args.filename, label section and version from OUT's previous contents; "
          "C13_monitor_sound / C13_model_holds - the extracted instance predicate implies the statement and holds of the "
          "model's own runs; C13_O1_lua_format_never_writes (observation O1). Tie: the section tuple of the loop, the "
          "'empty_' prefixes, every .endswith constant, the `section ==` constants, FORMATTERS order, the argparse "
          "destinations of `build` and the order of do_build's returns / from_file / setattr / to_file calls are "
          "regenerated from the source and pinned; the extracted model is compared with pico8.tool.main(['build', ...]) in "
          "a sandbox (outcome, message, the Game passed to to_file, paths opened for writing, OUT read back); the "
          "Spec-only monitor holds_C13 judges the real before/after files."),
    note=("Trusted: Coq kernel+VM, extraction, OCaml glue, the harness (sandbox, wrappers, interning of contents by exact "
          "byte equality, pypng for label pixels), picotool's own readers for reading OUT back (the property's "
          "observe_at) - the byte-level formats are C03/C04/C16's subject. The .lua source branch (require embedding) is "
          "abstracted as a function of the file (C14). argparse itself is not modelled: the Namespace the real parser "
          "produced is the model's input, and the theorem is about the Namespace built from the regenerated destinations."),
    technique='Coq proof (parametric in contents) over regenerated constants + extracted-model correspondence + extracted monitor on real builds',
    design_ref='8 C13')

# ----------------------------------------------------------------------------- pool of carts
N_P8 = 6
N_PNG = 4
N_LUA = 2
_POOLS = {}
_ARGP = {}


def _norm_lua(code):
    code = bytes(code)
    return code if code.endswith(b'\n') else code + b'\n'


def _lua_prog(rng, tag, n):
    t = tag.encode()
    lines = [b'-- cart ' + t + b'\n']
    for i in range(n):
        k = rng.randrange(4)
        if k == 0:
            lines.append(b'v_%s_%d=%d\n' % (t, i, rng.randrange(10000)))
        elif k == 1:
            lines.append(b'function f_%s_%d(a,b) return a+b*%d end\n' % (t, i, rng.randrange(100)))
        elif k == 2:
            lines.append(b'print("%s %d")\n' % (t, rng.randrange(10000)))
        else:
            lines.append(b'if v_%s_0 then v_%s_0=%d end\n' % (t, t, rng.randrange(100)))
    if n % 2 == 0:
        # P8SCII bytes >= 0x80, some of them in sequences that happen to be well-formed UTF-8 (a .lua file is raw
        # P8SCII, a .p8 file is UTF-8 text of the glyphs: each source kind keeps its own bytes)
        lines.insert(rng.randrange(1, len(lines) + 1),
                     b's_%s="\xe2\x99\xa5 \xe3\x81\x82" -- ' % t +
                     (bytes(rng.randrange(0x80, 0x100) for _ in range(6)) if n % 4 == 2 else b'\xe3\x81\x8b\xe2\x97\x8f') +
                     b'\n')      # n % 4 == 0: the WHOLE text is well-formed UTF-8 of P8SCII glyphs
    if n % 3 == 0:
        # the code area writer of .p8.png treats text that mentions _update60 specially (a compatibility line is
        # appended to what it compresses and cut off again after decompressing): the section must still be the source's
        lines.insert(rng.randrange(1, len(lines) + 1), b'function _update60() t_%s=1 end\n' % t)
    return b''.join(lines)


def _mk_game(rng, tag, version, with_label, short=False):
    from pico8.game.game import Game
    from pico8.gfx.gfx import Gfx
    from pico8.lua.lua import Lua
    from props import shortp8
    g = Game.make_empty_game(version=version)
    for s in SECS[1:]:
        sec = getattr(g, s)
        if short == 'zeros':
            # random first rows, then zero BYTES to the end of the region (for sfx and music zeros are not what an
            # empty cart holds): the file is written whole
            k = rng.choice([1, 2, shortp8.ROWS[s] // 2]) * shortp8.ROW[s]
            sec._data[:] = rng.randbytes(k) + bytes(len(sec._data) - k)
        elif short:
            # random first rows, then what an empty cart holds: the .p8 file of this cart has short sections
            sec._data[:] = shortp8.region_with_default_tail(rng, s, rng.choice([0, 1, 2, shortp8.ROWS[s] // 2]))
        else:
            sec._data[:] = rng.randbytes(len(sec._data))
    g.lua = Lua.from_lines([_lua_prog(rng, tag, rng.randrange(14, 40))], version=version)
    lab = shortp8.region_with_default_tail(rng, 'label', 3) if short is True else rng.randbytes(8192)
    g.label = Gfx(data=lab, version=version) if with_label else None
    # restrict sfx/music to what the .p8 text can say: once through the sections' own line writer and reader
    from pico8.sfx.sfx import Sfx
    from pico8.music.music import Music
    g.sfx = Sfx.from_lines(list(g.sfx.to_lines()), version=version)
    g.music = Music.from_lines(list(g.music.to_lines()), version=version)
    return g


def _write_p8(path, g, short=False):
    """Assemble a .p8 file from the sections' own line encoders, independently of P8Formatter.to_file
    (the pool must not depend on the writer whose use by `build` is being checked).  short: as newer PICO-8 versions
    save it - the trailing rows of every data section that hold the empty default are left out, sections without a
    row altogether, no blank lines.  Returns the whole text (before any rows were left out)."""
    from pico8.lua.lua import p8scii_to_unicode
    out = [b'pico-8 cartridge // http://www.pico-8.com\n', b'version %d\n' % g.version, b'__lua__\n']
    code = _norm_lua(b''.join(g.lua.to_lines()))
    out.append(p8scii_to_unicode(code).encode('utf-8'))
    out.append(b'__gfx__\n')
    out.extend(g.gfx.to_lines())
    if g.label is not None:
        out.append(b'__label__\n')
        out.extend(g.label.to_lines())
    out.append(b'\n')
    for name in ('gff', 'map', 'sfx', 'music'):
        out.append(b'__%s__\n' % name.encode())
        out.extend(getattr(g, name).to_lines())
    out.append(b'\n')
    whole = b''.join(out)
    if short:
        from props import shortp8
        fsx.write_file(path, shortp8.strip_default_tail(whole)[0])
    else:
        fsx.write_file(path, whole)
    return whole


def _raw_sections(data):
    """an independent reader of the .p8 container: {section name: raw text between its header line and the next}"""
    out, cur = {}, None
    for ln in data.split(b'\n'):
        if len(ln) > 4 and ln.startswith(b'__') and ln.endswith(b'__') and ln[2:-2].isalnum():
            cur = ln[2:-2].decode()
            out[cur] = []
        elif cur is not None:
            out[cur].append(ln)
    return {k: b'\n'.join(v).strip(b'\n') for k, v in out.items()}


def _contents(g):
    d = {s: bytes(getattr(g, s)._data) for s in SECS[1:]}
    d['lua'] = _norm_lua(b''.join(g.lua.to_lines()))
    return d


def _png_label_pixels(path):
    import png
    with io.open(path, 'rb') as fh:
        w, h, rows, _ = png.Reader(file=fh).read()
        return bytes(v >> 2 for row in rows for v in row)


class Pool:
    """Source carts, previous OUTs and odd files with known contents, built deterministically from a seed."""

    def __init__(self, seed):
        from pico8.game import file as p8file
        from pico8.game.game import Game
        self.seed = seed
        self.dir = fsx.mk_sandbox('c13pool')
        self.intern = {}
        self.entries = {}
        self.raw_by_id = {}          # (section, content id) -> raw .p8 text of that section, for contents that came in a .p8
        rng = random.Random(seed * 7919 + 13)
        try:
            self._build(rng, p8file, Game)
        except BaseException:
            fsx.rm_sandbox(self.dir)
            raise
        self.n_known = len(self.intern)

    def _build(self, rng, p8file, Game):
        with fsx.quiet():
            self.empty = self._ids(_contents(Game.make_empty_game()))
            self.empty_version = Game.make_empty_game().version
            self.empty_label = self.id_of(bytes(Game.make_empty_game().label._data))
            versions = [8, 16, 29, 33, 41]
            for i in range(N_P8):
                # s2.p8 and s5.p8 are carts with short sections (label / no label)
                self._cart(rng, p8file, 's%d.p8' % i, versions[i % 5], with_label=(i % 2 == 0),
                           short=(True if i % 3 == 2 else 'zeros' if i % 3 == 1 else False))
            for i in range(N_PNG):
                self._cart(rng, p8file, 't%d.p8.png' % i, versions[(i + 2) % 5], with_label=False)
            for i in range(N_LUA):
                code = _lua_prog(rng, 'm%d' % i, 20)
                fsx.write_file(self.path('m%d.lua' % i), code)
                self.entries['m%d.lua' % i] = {'kind': 'lua', 'lua': self.id_of(_norm_lua(code))}
            self._cart(rng, p8file, 'prev_l.p8', 33, with_label=True)
            self._cart(rng, p8file, 'prev_n.p8', 16, with_label=False)
            # a .p8.png with its own label picture
            import png
            rows = [rng.randbytes(160 * 4) for _ in range(205)]
            with io.open(self.path('label.png'), 'wb') as fh:
                png.Writer(160, 205, greyscale=False, alpha=True, bitdepth=8).write(fh, [list(r) for r in rows])
            self._cart(rng, p8file, 'prev.p8.png', 29, with_label=False, label_fname=self.path('label.png'))
            # unusable files
            fsx.write_file(self.path('garbage.p8'), b'this is not a cart\n' + rng.randbytes(50))
            fsx.write_file(self.path('garbage.p8.png'), b'\x89PNG not really\n' + rng.randbytes(50))
            fsx.write_file(self.path('notes.txt'), b'some notes\n')
            for n in ('garbage.p8', 'garbage.p8.png'):
                try:
                    p8file.from_file(self.path(n))
                    err = 'NONE'
                except Exception as e:  # noqa
                    err = _err(e)
                self.entries[n] = {'kind': 'garbage', 'err': err}
            self.entries['notes.txt'] = {'kind': 'other'}

    def path(self, name):
        return os.path.join(self.dir, name)

    def id_of(self, content):
        content = bytes(content)
        if content not in self.intern:
            self.intern[content] = len(self.intern) + 1
        return self.intern[content]

    def _ids(self, contents):
        return {s: self.id_of(contents[s]) for s in SECS}

    def _cart(self, rng, p8file, name, version, with_label, label_fname=None, short=False):
        g = _mk_game(rng, name.split('.')[0], version, with_label, short=short)
        whole = None
        if name.endswith('.p8.png'):
            from pico8.game.formatter.p8png import P8PNGFormatter
            with io.open(self.path(name), 'wb') as fh:
                P8PNGFormatter.to_file(g, fh, filename=name, label_fname=label_fname)
        else:
            whole = _write_p8(self.path(name), g, short=(short is True))
        r = p8file.from_file(self.path(name))
        want, got = _contents(g), _contents(r)
        if (want != got or r.version != version) and short is True and r.version == version:
            # a short-section source that the library reads to other bytes than the file denotes: the cases that name it
            # will show it (OUT's section is compared with what the FILE holds, i.e. `want`), so go on
            pass
        elif want != got or r.version != version:
            bad = [s for s in SECS if want[s] != got[s]]
            raise RuntimeError('pool cart %s does not read back as written (sections %s): C03/C04 territory' % (name, bad))
        e = {'kind': 'png' if name.endswith('.p8.png') else 'p8', 'secs': self._ids(want), 'version': version,
             'label': None, 'img': None}
        if e['kind'] == 'p8':
            if (r.label is None) != (not with_label):
                raise RuntimeError('pool cart %s: label section lost or invented' % name)
            if with_label:
                e['label'] = self.id_of(bytes(r.label._data))
            raw = _raw_sections(whole)       # the text of the whole regions (what a writer of this content produces)
            for sname in SECS[1:]:
                self.raw_by_id[(sname, e['secs'][sname])] = raw.get(sname, b'')
            if with_label:
                self.raw_by_id[('label', e['label'])] = raw.get('label', b'')
        else:
            e['img'] = self.id_of(_png_label_pixels(self.path(name)))
        self.entries[name] = e

    def close(self):
        fsx.rm_sandbox(self.dir)


def _pool(seed):
    if seed not in _POOLS:
        _POOLS[seed] = Pool(seed)
        _POOLS[seed].owner = os.getpid()
    return _POOLS[seed]


def _close_pools():
    for p in _POOLS.values():
        if getattr(p, 'owner', None) == os.getpid():
            p.close()
    _POOLS.clear()


def _err(e):
    n = lib.exc_name(e)
    return 'OtherError' if n.startswith('Other:') else n


# ----------------------------------------------------------------------------- cases
OUT_STATES = ['absent', 'prev_l.p8', 'prev_n.p8', 'prev.p8.png']
ERR_KINDS = ['conflict', 'missing', 'wrongext', 'garbage', 'luaext', 'badout', 'garbage_out', 'conflict_missing']


def _choice_valid(rng, s, p_png):
    r = rng.random()
    if r < 0.25:
        return ['unspec']
    if r < 0.45:
        return ['empty']
    if s == 'lua' and r < 0.55:
        return ['src', 'm%d.lua' % rng.randrange(N_LUA)]
    if rng.random() < p_png:
        return ['src', 't%d.p8.png' % rng.randrange(N_PNG)]
    return ['src', 's%d.p8' % rng.randrange(N_P8)]


def _apply_error(rng, case, kind):
    s = rng.choice(SECS)
    if kind == 'conflict':
        case['assign'][s] = ['src+empty', rng.choice(['s0.p8', 't0.p8.png', 'nothere.p8'])]
    elif kind == 'conflict_missing':
        case['assign'][s] = ['src+empty', 'nothere.p8']
    elif kind == 'missing':
        case['assign'][s] = ['src', rng.choice(['nothere.p8', 'nothere.p8.png', 'nothere.txt', ''])]
    elif kind == 'wrongext':
        case['assign'][s] = ['src', 'notes.txt']
    elif kind == 'luaext':
        s = rng.choice(SECS[1:])
        case['assign'][s] = ['src', 'm0.lua']
    elif kind == 'garbage':
        case['assign'][s] = ['src', rng.choice(['garbage.p8', 'garbage.p8.png'])]
    elif kind == 'badout':
        case['out'] = rng.choice(['out.rom', 'out.txt', 'out.p8x', 'outp8', 'out.png', 'out.p8.pn'])
        case['out_state'] = rng.choice(['absent', 'prev_l.p8'])
    elif kind == 'garbage_out':
        case['out_state'] = 'garbage.p8' if case['out'].endswith('.p8') else 'garbage.p8.png'
    case['err_kind'] = kind


def _mk_case(rng, pool_seed, out, out_state, assign=None, p_png=0.3, flags=()):
    if assign is None:
        assign = {s: _choice_valid(rng, s, p_png) for s in SECS}
    return {'pool_seed': pool_seed, 'out': out, 'out_state': out_state, 'assign': assign, 'flags': list(flags)}


def _states_for(out):
    return ['absent', 'prev.p8.png'] if out.endswith('.p8.png') else ['absent', 'prev_l.p8', 'prev_n.p8']


def generate(tier, rng):
    pool_seed = rng.randrange(1 << 30)
    cases = []
    if tier == 'quick':
        n_valid_p8, n_valid_png, n_err, n_flag = 230, 60, 100, 10
        for i in range(n_valid_p8):
            out = 'out.p8'
            cases.append(_mk_case(rng, pool_seed, out, _states_for(out)[i % 3], p_png=0.2))
        for i in range(n_valid_png):
            out = 'out.p8.png'
            cases.append(_mk_case(rng, pool_seed, out, _states_for(out)[i % 2], p_png=0.3))
    else:
        n_err, n_flag = 1500, 40
        # all 4^6 assignments {unspecified, .p8 source, .p8.png source, empty} x 3 OUT states, .p8 OUT
        opts = ['unspec', 'p8', 'png', 'empty']
        for combo in itertools.product(opts, repeat=6):
            for st in _states_for('out.p8'):
                assign = {}
                for s, o in zip(SECS, combo):
                    if o == 'p8':
                        assign[s] = ['src', 's%d.p8' % rng.randrange(N_P8)]
                    elif o == 'png':
                        assign[s] = ['src', 't%d.p8.png' % rng.randrange(N_PNG)]
                    else:
                        assign[s] = [o]
                cases.append(_mk_case(rng, pool_seed, 'out.p8', st, assign))
        for i in range(1000):
            out = 'out.p8.png'
            cases.append(_mk_case(rng, pool_seed, out, _states_for(out)[i % 2], p_png=0.3))
        for i in range(300):        # lua from a .lua file, .p8 OUT
            c = _mk_case(rng, pool_seed, 'out.p8', _states_for('out.p8')[i % 3], p_png=0.2)
            c['assign']['lua'] = ['src', 'm%d.lua' % rng.randrange(N_LUA)]
            cases.append(c)
    for i in range(n_err):
        out = 'out.p8' if rng.random() < 0.8 else 'out.p8.png'
        c = _mk_case(rng, pool_seed, out, rng.choice(_states_for(out)), p_png=0.15)
        _apply_error(rng, c, ERR_KINDS[i % len(ERR_KINDS)])
        if rng.random() < 0.15:
            _apply_error(rng, c, rng.choice(ERR_KINDS[:6]))
        cases.append(c)
    for i in range(n_flag):         # observation O1 and the other writer: not judged by the monitor
        out = 'out.p8'
        c = _mk_case(rng, pool_seed, out, rng.choice(_states_for(out)), p_png=0.1,
                     flags=[['--lua-format'], ['--lua-minify'], ['--lua-format', '--lua-minify']][i % 3])
        cases.append(c)
    rng.shuffle(cases)
    return cases


def corpus_cases():
    ps = 20260926
    base = {s: ['unspec'] for s in SECS}

    def mk(out, st, **kw):
        a = dict(base)
        a.update({k: v for k, v in kw.items()})
        return {'pool_seed': ps, 'out': out, 'out_state': st, 'assign': a, 'flags': []}
    yield mk('out.p8', 'absent')
    yield mk('out.p8', 'prev_l.p8')
    yield mk('out.p8', 'prev_l.p8', gfx=['src', 's1.p8'], sfx=['src', 't0.p8.png'], map=['empty'])
    yield mk('out.p8.png', 'prev.p8.png', lua=['src', 's2.p8'], music=['src', 't1.p8.png'])
    yield mk('out.p8.png', 'absent', lua=['src', 'm0.lua'], gfx=['src', 's0.p8'])
    yield mk('out.p8', 'prev_n.p8', lua=['src', 'm1.lua'], gff=['src+empty', 's0.p8'])
    yield mk('out.p8', 'prev_l.p8', gfx=['src', 'nothere.p8'])
    yield mk('out.p8', 'prev_l.p8', gfx=['src', 'notes.txt'])
    yield mk('out.p8', 'prev_l.p8', gfx=['src', 'm0.lua'])
    yield mk('out.p8', 'prev_l.p8', gfx=['src', 'garbage.p8'])
    yield mk('out.rom', 'absent', gfx=['src', 's0.p8'])
    yield mk('out.p8', 'garbage.p8', gfx=['src', 's0.p8'])
    # build over its own input: OUT is also the source of a section
    yield mk('out.p8', 'prev_l.p8', gfx=['src', 'out.p8'], map=['src', 's3.p8'])
    # the empty program cannot be compressed: .p8.png OUT with an empty / absent lua section
    yield mk('out.p8.png', 'absent', gfx=['src', 's0.p8'])
    yield mk('out.p8.png', 'prev.p8.png', lua=['empty'])


def _argv(case):
    argv = ['build'] + list(case['flags'])
    for s in SECS:
        a = case['assign'][s]
        if a[0] in ('src', 'src+empty'):
            argv += ['--' + s, a[1]]
        if a[0] in ('empty', 'src+empty'):
            argv += ['--empty-' + s]
    argv.append(case['out'])
    return argv


# ----------------------------------------------------------------------------- running the implementation
class _Interner:
    """ids of the pool for known contents, fresh ids (>= 10^6) for anything else"""

    def __init__(self, pool):
        self.pool = pool
        self.extra = {}

    def __call__(self, content):
        content = bytes(content)
        i = self.pool.intern.get(content)
        if i is None:
            i = self.extra.setdefault(content, 1000000 + len(self.extra))
        return i


def _game_ids(g, idf):
    c = _contents(g)
    return [idf(c[s]) for s in SECS]


def _cart_str(secs_ids, label, version):
    return 'C.' + '/'.join(str(x) for x in secs_ids) + '/' + ('~' if label is None else str(label)) + '/' + str(version)


def _world_entry(pool, name, present_as):
    """world entry for file `name` in the sandbox, which is a copy of pool file `present_as` (None = absent)"""
    n = fsx.hx(name)
    if present_as is None:
        return '%s:0:E.OtherError:E.OtherError:~' % n
    e = pool.entries[present_as]
    if e['kind'] in ('p8', 'png'):
        secs = [e['secs'][s] for s in SECS]
        # the formatter is chosen by the NAME, so a cart is readable only under a name of its own kind
        return '%s:1:%s:E.OtherError:%s' % (n, _cart_str(secs, e['label'], e['version']),
                                            '~' if e['img'] is None else str(e['img']))
    if e['kind'] == 'lua':
        return '%s:1:E.OtherError:L.%d:~' % (n, e['lua'])
    if e['kind'] == 'garbage':
        return '%s:1:E.%s:E.OtherError:~' % (n, e['err'])
    return '%s:1:E.OtherError:E.OtherError:~' % n


MSG_RES = [
    (re.compile(r'Output filename must end with'), lambda m: 'badout'),
    (re.compile(r'Cannot specify --(\w+) and --empty-(\w+) args together'), lambda m: 'conflict:' + fsx.hx(m.group(1))),
    (re.compile(r'File "(.*)" given for --(\w+) arg does not exist'), lambda m: 'missing:' + fsx.hx(m.group(2))),
    (re.compile(r'Unsupported file type for --(\w+) arg'), lambda m: 'badtype:' + fsx.hx(m.group(1))),
]


def _argparser():
    from pico8 import tool
    if 'p' not in _ARGP:
        _ARGP['p'] = tool._get_argparser()
    return _ARGP['p']


def run_impl(case):
    from pico8 import tool
    from pico8.game import file as p8file
    pool = _pool(case['pool_seed'])
    idf = _Interner(pool)
    sb = fsx.mk_sandbox('c13')
    obs = {}
    try:
        # lay out the sandbox: named sources (copies of pool files under the same names), OUT's previous file
        present = {}
        out = case['out']
        if case['out_state'] != 'absent':
            shutil.copyfile(pool.path(case['out_state']), os.path.join(sb, out))
            present[out] = case['out_state']
        for s in SECS:
            a = case['assign'][s]
            if a[0] in ('src', 'src+empty') and a[1] and a[1] != out:
                if a[1] in pool.entries and a[1] not in present:
                    shutil.copyfile(pool.path(a[1]), os.path.join(sb, a[1]))
                    present[a[1]] = a[1]
        argv = _argv(case)
        names = [out] + [case['assign'][s][1] for s in SECS if case['assign'][s][0] in ('src', 'src+empty')]
        seen, files = set(), []
        for n in names:
            if n not in seen:
                seen.add(n)
                files.append(_world_entry(pool, n, present.get(n)))
        # the Namespace the real parser builds
        try:
            nsobj = vars(_argparser().parse_args(argv))
        except SystemExit:
            return {'argparse_exit': True, 'argv': argv}
        ns = []
        for k, v in nsobj.items():
            if v is None:
                ns.append('%s:n' % fsx.hx(k))
            elif isinstance(v, bool):
                ns.append('%s:b:%d' % (fsx.hx(k), 1 if v else 0))
            elif isinstance(v, str):
                ns.append('%s:s:%s' % (fsx.hx(k), fsx.hx(v)))
        outp = os.path.join(sb, out)
        before = fsx.read_file(outp)
        calls = []
        real_to_file = p8file.to_file

        def w_to_file(game, filename, *a, **kw):
            rec = {'filename': filename, 'ids': _game_ids(game, idf), 'version': game.version,
                   'label': None if game.label is None else idf(bytes(game.label._data)),
                   'writer': getattr(kw.get('lua_writer_cls'), '__name__', None if kw.get('lua_writer_cls') is None else 'tuple'),
                   'raised': None}
            calls.append(rec)
            try:
                return real_to_file(game, filename, *a, **kw)
            except BaseException as e:  # noqa
                rec['raised'] = _err(e)
                raise
        # non-fresh paths (round s11): in one case out of two the same command line is first run in this very directory
        # with OTHER carts stored under the source names and a throw-away OUT; then the real sources are put in place.
        # Whatever the process remembers about a path (a cache of parsed source carts keyed by file name) is then stale.
        srcs = [n for n in present if n != out]
        if srcs and zlib.crc32(' '.join(argv).encode()) % 2 == 0:
            for n in srcs:
                ext = '.p8.png' if n.endswith('.p8.png') else os.path.splitext(n)[1]
                alts = sorted(m for m in pool.entries if m != n and m.endswith(ext) and (ext != '.p8' or not m.endswith('.p8.png'))
                              and os.path.isfile(pool.path(m)))
                if alts:
                    shutil.copyfile(pool.path(alts[zlib.crc32(n.encode()) % len(alts)]), os.path.join(sb, n))
            prime_out = 'zzprime' + ('.p8.png' if out.endswith('.p8.png') else '.p8')
            try:
                with fsx.cwd(sb), fsx.quiet():
                    tool.main([prime_out if a == out else a for a in argv])
            except BaseException:  # noqa
                pass
            try:
                os.remove(os.path.join(sb, prime_out))
            except OSError:
                pass
            for n in srcs:
                shutil.copyfile(pool.path(present[n]), os.path.join(sb, n))
        rc, raised, raised_full = None, None, None
        with fsx.cwd(sb), fsx.quiet() as buf, fsx.TraceRecorder(root=sb) as tr:
            p8file.to_file = w_to_file
            try:
                rc = tool.main(argv)
            except Exception as e:  # noqa
                raised, raised_full = _err(e), '%s: %s' % (type(e).__name__, e)
            finally:
                p8file.to_file = real_to_file
        msg = buf.getvalue()
        after = fsx.read_file(outp)
        rel = lambda p: os.path.relpath(p, sb) if p.startswith(sb + os.sep) else p  # noqa
        wopens = [rel(e[1]) for e in tr.events if e[0] == 'W']
        ropens_out = [i for i, e in enumerate(tr.events) if e[0] == 'R' and e[1] == outp]
        first_w = min([i for i, e in enumerate(tr.events) if e[0] == 'W'], default=None)
        temp_open = min([i for i, e in enumerate(tr.events) if e[0] == 'T'], default=None)
        label_from_out = any(temp_open is not None and i > temp_open and (first_w is None or i < first_w) for i in ropens_out)
        others = sorted(f for f in os.listdir(sb) if f != out and f not in present)
        reason = None
        for rx, f in MSG_RES:
            m = rx.search(msg)
            if m:
                reason = f(m)
                break
        obs = {'argv': argv, 'ns': ','.join(ns) or '~', 'files': ','.join(files) or '~',
               'empty': _cart_str([pool.empty[s] for s in SECS], pool.empty_label, pool.empty_version),
               'rc': rc, 'raised': raised, 'raised_full': raised_full, 'reason': reason, 'msg': msg[:200],
               'calls': calls, 'wopens': wopens, 'label_from_out': label_from_out, 'new_files': others,
               'existed': before is not None, 'untouched': before == after, 'after_exists': after is not None,
               'after': None, 'after_err': None}
        if after is not None:
            try:
                with fsx.quiet():
                    g = p8file.from_file(outp)
                ids = _game_ids(g, idf)
                if out.endswith('.p8.png'):
                    lab = idf(_png_label_pixels(outp))
                else:
                    lab = None if g.label is None else idf(bytes(g.label._data))
                obs['after'] = {'ids': ids, 'label': lab, 'version': g.version}
                if not out.endswith('.p8.png'):
                    # independent of picotool's reader: the raw text of each section of OUT against the raw text of the
                    # .p8 file the content came from
                    raw = _raw_sections(after)
                    bad = []
                    for sname, cid in list(zip(SECS, ids))[1:] + [('label', lab)]:
                        want = pool.raw_by_id.get((sname, cid))
                        if want is not None and raw.get(sname, b'') != want:
                            bad.append(sname)
                    obs['raw_mismatch'] = bad
            except Exception as e:  # noqa
                obs['after_err'] = _err(e)
        # classification helpers for signatures: is the Lua handed to to_file compressible?
        if calls and calls[-1]['raised'] == 'TypeError' and out.endswith('.p8.png'):
            obs['uncompressible_lua'] = calls[-1]['ids'][0] == pool.empty['lua'] or None
    finally:
        fsx.rm_sandbox(sb)
    return obs


# ----------------------------------------------------------------------------- model and monitor
def model_requests(case, obs):
    if obs.get('argparse_exit') or obs.get('timeout'):
        return []
    return ['build %s %s %s' % (obs['ns'], obs['files'], obs['empty'])]


def compare(case, obs, answers):
    if obs.get('timeout'):
        return 'implementation timed out'
    if obs.get('argparse_exit'):
        return 'argparse refused the generated command line %r' % (obs['argv'],)
    a = answers[0].split(' ')
    calls = obs['calls']
    if len(calls) > 1:
        return 'file.to_file called %d times' % len(calls)
    if obs['new_files']:
        return 'build created other files: %r' % obs['new_files']
    if any(w != case['out'] for w in obs['wopens']):
        return 'build opened for writing: %r (OUT is %s)' % (obs['wopens'], case['out'])
    if a[0] == 'RET1':
        if calls or obs['rc'] != 1 or obs['raised'] or obs['reason'] != a[1]:
            return 'model: return 1 (%s); implementation: rc=%r raised=%r reason=%r to_file calls=%d' % (
                a[1], obs['rc'], obs['raised'], obs['reason'], len(calls))
        if obs['wopens']:
            return 'model: no write; implementation opened %r for writing' % obs['wopens']
        return None
    if a[0] == 'RAISED':
        if calls or obs['raised'] != a[1]:
            return 'model: raises %s before any write; implementation: rc=%r raised=%r to_file calls=%d' % (
                a[1], obs['rc'], obs['raised_full'], len(calls))
        if obs['wopens']:
            return 'model: no write; implementation opened %r for writing' % obs['wopens']
        return None
    if a[0] == 'WROTE':
        writer, lbl, cart, stored = a[1], a[2], a[3], a[4]
        if len(calls) != 1:
            return 'model: to_file called; implementation: rc=%r raised=%r, no to_file call' % (obs['rc'], obs['raised_full'])
        c = calls[0]
        wname = {'default': None, 'minify': 'LuaMinifyTokenWriter', 'format': 'LuaFormatterWriter', 'format-tuple': 'tuple'}[writer]
        got = _cart_str(c['ids'], c['label'], c['version'])
        if 'C.' + cart != got or c['writer'] != wname or c['filename'] != case['out']:
            return 'model writes cart %s with writer %s to %s; implementation passed %s writer %s to %s' % (
                cart, wname, case['out'], got, c['writer'], c['filename'])
        if c['raised'] is None:
            # the write went through: label source and stored contents
            if case['out'].endswith('.p8.png') and (lbl == '1') != obs['label_from_out']:
                return 'model: label_fname=OUT is %s; implementation read OUT inside to_file: %s' % (lbl, obs['label_from_out'])
            if obs['after'] is None:
                return 'OUT does not read back after a successful build: %r' % obs['after_err']
            k0 = 0 if writer == 'default' else 1      # another writer transforms the Lua section
            if obs['after']['ids'][k0:] != c['ids'][k0:]:
                return 'OUT read back %r differs from the cart handed to to_file %r' % (obs['after']['ids'], c['ids'])
            if stored != '~' and stored != 'ERR' and str(obs['after']['label']) != stored:
                return 'model: stored label %s; OUT read back has label %r' % (stored, obs['after']['label'])
            if stored == '~' and not case['out'].endswith('.p8.png') and obs['after']['label'] is not None:
                return 'model: no label section; OUT read back has one'
            if obs.get('raw_mismatch'):
                return 'raw text of OUT section(s) %r differs from the raw text in the .p8 file the content came from' % (obs['raw_mismatch'],)
            if obs['after']['version'] != c['version']:
                return 'OUT version %r differs from the cart handed to to_file (%r)' % (obs['after']['version'], c['version'])
        return None
    return 'model runner: ' + answers[0]


def _mon_fields(case, obs):
    srcs, empties = [], []
    for s in SECS:
        a = case['assign'][s]
        srcs.append(fsx.hx(a[1]) if a[0] in ('src', 'src+empty') else '~')
        empties.append('1' if a[0] in ('empty', 'src+empty') else '0')
    return '%s %s %s ~ %s %s' % (fsx.hx(case['out']), ','.join(srcs), ','.join(empties), obs['files'], obs['empty'])


def monitor_requests(case, obs):
    if obs.get('argparse_exit') or obs.get('timeout') or case['flags']:
        return []          # --lua-format / --lua-minify are outside the statement (the Lua section is transformed)
    failed = 1 if (obs['rc'] != 0 or obs['raised']) else 0
    if obs['after'] is None:
        after = '~'
    else:
        lab = obs['after']['label']
        after = '/'.join(str(x) for x in obs['after']['ids']) + '/' + ('~' if lab is None else str(lab))
    return ['holds %s %d %d %s' % (_mon_fields(case, obs), failed, 1 if obs['untouched'] else 0, after)]


def _expected(case, obs):
    """what the rule prescribes (from the extracted Spec): 'FAIL' | 'OK <secs> <label demand>' | None"""
    exe = _EXE.get('monitor')
    if not exe or 'files' not in obs:
        return None
    try:
        return lib.run_driver(exe, ['spec ' + _mon_fields(case, obs)])[0]
    except Exception:
        return None


def signature(case, obs):
    if obs.get('timeout'):
        return 'C13/timeout'
    calls = obs.get('calls') or []
    fmt = '.p8.png' if case['out'].endswith('.p8.png') else ('.p8' if case['out'].endswith('.p8') else 'other')
    if calls and calls[-1]['raised']:
        extra = ''
        if calls[-1]['raised'] == 'TypeError' and fmt == '.p8.png' and _lua_uncompressible(case, obs):
            extra = '/uncompressible-lua'
        return 'C13/write-crash/%s/%s%s' % (calls[-1]['raised'], fmt, extra)
    failed = obs['rc'] != 0 or obs['raised']
    exp = _expected(case, obs)
    if failed and not obs['untouched']:
        return 'C13/failed-but-touched/%s' % fmt
    if failed:
        return 'C13/unexpected-failure/%s/%s' % (obs['raised'] or obs['reason'], fmt)
    if exp == 'FAIL':
        return 'C13/unusable-arguments-accepted/%s/%s' % (case.get('err_kind', '?'), fmt)
    if obs['after'] is None:
        return 'C13/out-unreadable/%s' % fmt
    if exp and exp.startswith('OK '):
        want = exp.split(' ')[1].split('/')
        got = [str(x) for x in obs['after']['ids']]
        wrong = [s for s, a, b in zip(SECS, want, got) if a != b]
        if wrong:
            return 'C13/wrong-section/%s/%s/%s' % ('+'.join(wrong), fmt, 'absent' if case['out_state'] == 'absent' else 'exists')
        return 'C13/label-not-kept/%s' % fmt
    return 'C13/wrong-content/%s/%s' % (fmt, case['out_state'])


def _lua_uncompressible(case, obs):
    try:
        from pico8.game import compress
        pool = _pool(case['pool_seed'])
        lid = obs['calls'][-1]['ids'][0]
        for content, i in pool.intern.items():
            if i == lid:
                code = content if content != b'\n' else b''
                return len(compress.compress_code(code)) >= len(code)
    except Exception:
        return False
    return False


def what(case, obs):
    sig = signature(case, obs)
    return '%s: `p8tool %s` -> rc=%r raised=%r' % (sig, ' '.join(obs.get('argv', [])), obs.get('rc'), obs.get('raised_full'))


def describe(case, obs):
    return {'argv': _argv(case), 'out_state': case['out_state'],
            'rc': obs.get('rc'), 'raised': obs.get('raised_full'), 'reason': obs.get('reason'),
            'to_file': [(c['ids'], c['label'], c['writer'], c['raised']) for c in obs.get('calls', [])],
            'after': obs.get('after'), 'untouched': obs.get('untouched')}


def minimize(case, obs, answers):
    """drop section arguments one at a time while the same kind of violation remains"""
    import copy
    exe = _EXE.get('monitor')
    if not exe:
        return case
    sig = signature(case, obs)
    cur = copy.deepcopy(case)
    for s in SECS:
        if cur['assign'][s][0] == 'unspec':
            continue
        trial = copy.deepcopy(cur)
        trial['assign'][s] = ['unspec']
        o = _run_one(trial)
        reqs = monitor_requests(trial, o)
        if reqs and lib.run_driver(exe, reqs)[0] != 'true' and signature(trial, o) == sig:
            cur = trial
    return cur


def nontrivial_key(case, obs):
    if all(a[0] == 'unspec' for a in case['assign'].values()):
        return None
    return (tuple((s, tuple(case['assign'][s])) for s in SECS), case['out_state'], case['out'], tuple(case['flags']))


def histogram_key(case, obs):
    fmt = 'png' if case['out'].endswith('.p8.png') else ('p8' if case['out'].endswith('.p8') else 'badname')
    if obs.get('argparse_exit'):
        return 'argparse-exit'
    if case['flags']:
        k = 'flags:' + '+'.join(case['flags'])
    elif case.get('err_kind'):
        k = 'unusable:' + case['err_kind']
    else:
        k = 'valid'
    outcome = 'raised:' + obs['raised'] if obs.get('raised') else 'rc=%s' % obs.get('rc')
    return 'out=%s/%s %s -> %s' % (fmt, 'absent' if case['out_state'] == 'absent' else 'exists', k, outcome)


class _Shim:
    """lib.standard_run with the implementation runs done beforehand, in parallel"""

    def __init__(self, mod, obs_by_id):
        self._mod, self._obs = mod, obs_by_id

    def run_impl(self, case):
        return self._obs[id(case)]

    def __getattr__(self, n):
        return getattr(self._mod, n)


def _run_one(case):
    try:
        return lib.with_alarm(CASE_TIMEOUT, run_impl, case)
    except lib.Timeout:
        return {'timeout': True}


def _parallel_obs(cases):
    import multiprocessing as mp
    n = min(lib.NCPU, max(1, len(cases) // 8))
    if n <= 1:
        return [_run_one(c) for c in cases]
    for ps in sorted(set(c['pool_seed'] for c in cases)):
        _pool(ps)                       # build the pools before forking, so that every worker shares them
    ctx = mp.get_context('fork')
    with ctx.Pool(n) as p:
        return p.map(_run_one, cases, chunksize=max(1, len(cases) // (n * 8)))


_EXE = {}


def run_cases(cases, ctx):
    mod = __import__('props.c13', fromlist=['x'])
    _EXE['monitor'] = ctx.get('monitor_exe')
    try:
        try:
            for ps in sorted(set(c['pool_seed'] for c in cases)):
                _pool(ps)
        except Exception as e:  # noqa
            # the carts the cases are made of cannot be produced / do not read back: nothing can be compared
            return {'evaluations': 0, 'nontrivial': 0, 'rule': RULE, 'samples': [], 'violations': [], 'histogram': {},
                    'disagreements': [{'case': None, 'summary': 'building the pool of source carts',
                                       'difference': 'pool: %s: %s' % (type(e).__name__, e)}]}
        obs = _parallel_obs(cases)
        shim = _Shim(mod, {id(c): o for c, o in zip(cases, obs)})
        res = lib.standard_run(shim, cases, ctx)
        # describe and classify each violation by a fresh run of its (minimised) case
        for v in res['violations'][:20]:
            o2 = _run_one(v['case'])
            if o2.get('calls') is not None:
                v['summary'], v['signature'], v['what'] = describe(v['case'], o2), signature(v['case'], o2), what(v['case'], o2)
    finally:
        _close_pools()
    return res


def search(ctx, budget):
    import time
    rng = random.Random(ctx['seed'] + 1)
    t0 = time.time()
    viol, n = [], 0
    cases = generate('thorough', rng)
    i = 0
    while time.time() - t0 < budget and not viol and i < len(cases):
        batch = cases[i:i + 256]
        i += 256
        r = run_cases(batch, {'monitor_exe': ctx.get('monitor_exe'), 'model_exe': None})
        n += r['evaluations']
        viol.extend(r['violations'])
    return {'violations': viol, 'evaluations': n}
