"""C18 - raw cart-memory writes land at the addressed bytes and only there."""
import lib

ID = 'C18'
GEN_FILES = ['K_game',
             # source pins of the hand-modelled modules (gen/kernels_pins.py)
             'T_pins_game', 'T_pins_util']
COQ_PROPERTY = 'theories/Properties/C18.vo'
COQ_EXTRA = ['theories/Generated/K_game_selftest.vo',
             'theories/Proofs/GamePins.vo', 'theories/Proofs/UtilPins.vo']
MODEL = ('ExC18', 'c18_main.ml')
MONITOR = ('MonC18', 'c18_mon_main.ml')
BOUNDS = [0x0, 0x2000, 0x3000, 0x3100, 0x3200, 0x4300]
SIZES = [0x2000, 0x1000, 0x100, 0x100, 0x1100]
RULE = ('case = (initial contents of the five regions, sequence of 1-5 (address, data) writes); '
        'quick: every (start,end) with both ends within +-2 of the six region boundaries, + random pairs; '
        'each step is one evaluation; distinct+non-trivial = distinct (start,end) pairs whose write changes '
        'at least one byte or is rejected')
ASSUMPTIONS = ['addresses are non-negative integers; data is a bytes-like object (the documented argument types)']
PARTIAL = ''
CLAIM = dict(
    text=("Theorems C18_write / C18_reject / C18_history / C18_bytes / C18_history_bytes (Coq, closed under the global context) about a model of "
          "Game.write_cart_data whose guard, skip test, four slice-bound expressions and memory-map constants are "
          "regenerated from game.py on every run: every in-range write of any data at any address leaves the "
          "concatenated regions equal to the flat splice and keeps region sizes; out-of-range is rejected; sequences "
          "compose; C18_bytes reads the same byte by byte (addressed bytes = data, every other byte of the image unchanged; for histories: last writer wins). Tie: translator self-test lemmas + correspondence of the extracted model with the real function "
          "on all boundary-aligned (start,end) pairs, and the extracted instance predicate holds_C18 evaluated on the "
          "implementation's real before/after memory."),
    note=("Trusted: Coq kernel+VM, the expression translator (self-tested in Coq against Python eval), ExtrOcamlBasic "
          "extraction, OCaml glue, Python's slice semantics as modelled in Base/PySlice.v (loop and slice assignment "
          "are hand-modelled; correspondence-tested). Negative addresses are outside the property's domain."),
    technique='Coq proof over regenerated kernels + extracted-model correspondence + extracted monitor',
    design_ref='8 C18')


def _mem(rng, kind):
    regs = []
    for i, n in enumerate(SIZES):
        if kind == 'zero':
            regs.append(bytes(n))
        elif kind == 'ff':
            regs.append(b'\xff' * n)
        elif kind == 'ramp':
            regs.append(bytes((j + 37 * i) & 255 for j in range(n)))
        else:
            regs.append(rng.randbytes(n))
    return regs


def _data(rng, n):
    r = rng.random()
    if r < 0.12:
        return bytes(n)                                   # all zeros: a write of zeros is a write
    if r < 0.2 and n > 4:
        k = rng.randrange(1, n)
        return bytes(k) + rng.randbytes(n - k) if rng.random() < 0.5 else rng.randbytes(k) + bytes(n - k)
    if r < 0.25:
        return b'\xff' * n
    return rng.randbytes(n)


def generate(tier, rng):
    w = 2 if tier == 'quick' else 8
    pts = sorted(set(max(0, b + d) for b in BOUNDS for d in range(-w, w + 1)))
    pairs = [(s, e) for s in pts for e in pts if s <= e]
    if tier == 'quick':
        # all boundary pairs, but long spans only for a sample (keeps the run short)
        pass
    nrand = 500 if tier == 'quick' else 20000
    for _ in range(nrand):
        s = rng.randrange(0, 0x4310)
        e = min(0x4320, s + rng.choice([0, 1, 2, 3, 16, 255, 256, 257, 4096, rng.randrange(0, 0x4300)]))
        pairs.append((s, e))
    # far too long: a whole ROM image / picodata / 64 KiB handed over at once (a write passing 0x4300 is rejected whatever
    # its length and start)
    for s0, n in ((0, 0x8000), (0, 32800), (0, 0x10000), (0x100, 0x8000), (0x4300, 0x8000), (0, 0x4301), (1, 0x4300),
                  (0x42ff, 0x8000), (0x3200, 0x8000)):
        pairs.append((s0, s0 + n))
    rng.shuffle(pairs)
    # group into histories of 1..5 writes sharing one initial memory
    i = 0
    kinds = ['random', 'zero', 'ff', 'ramp']
    while i < len(pairs):
        k = rng.randrange(1, 6)
        grp = pairs[i:i + k]
        i += k
        mem = [lib.hx(r) for r in _mem(rng, rng.choice(kinds))]
        case = {'mem': mem, 'writes': [[s, lib.hx(_data(rng, e - s))] for s, e in grp]}
        if rng.random() < 0.2:
            case['build'] = 'buffers'
            if rng.random() < 0.7:
                mem[3] = mem[2]      # equal gff / music contents: the caller may hand in one buffer for both
        elif rng.random() < 0.15:
            # the cart was LOADED from a .p8 file saved the PICO-8 way (see lib.game_from_p8)
            from props import shortp8
            case['build'] = 'p8'
            mm = []
            for sec in ('gfx', 'map', 'gff', 'music', 'sfx'):
                if rng.random() < 0.4:
                    mm.append(shortp8.default_region(sec))
                else:
                    mm.append(shortp8.region_with_default_tail(rng, sec, rng.randrange(1, shortp8.ROWS[sec] + 1)))
            case['mem'] = [lib.hx(m) for m in mm]
        elif k >= 2 and rng.random() < 0.35:
            # between two writes the caller replaces section objects of the cart (game.sfx = another Sfx ..., as the
            # cart readers do): later writes must land in the sections the cart has THEN
            case['rebind'] = [[rng.randrange(1, k), rng.randrange(5)] for _ in range(rng.randrange(1, 3))]
        yield case


def corpus_cases():
    # minimised past failures (the pre-fix defect): writes ending exactly on a region end
    z = [lib.hx(bytes(n)) for n in SIZES]
    # carts assembled through the public constructors from caller-owned (and, where equal, shared) buffers
    yield {'mem': z, 'build': 'buffers', 'writes': [[0x30fe, 'a1a2a3a4']]}
    yield {'mem': z, 'build': 'buffers', 'writes': [[0x3000, '0102'], [0x31fe, '0304'], [0x1ffe, '05060708']]}
    yield {'mem': z, 'writes': [[0x1ffc, '01020304']]}
    yield {'mem': z, 'writes': [[0x3000, '07' * 0x100]]}
    yield {'mem': z, 'writes': [[0x42ff, '09']]}
    yield {'mem': z, 'writes': [[0x0, '05' * 0x4300]]}
    yield {'mem': z, 'writes': [[0x1ff8, '07' * 16], [0x2ffe, '0102'], [0x4300, '-']]}
    yield {'mem': z, 'writes': [[0x0, '5a' * 0x8000], [0x10, '0102'], [0x0, '3c' * 32800]]}
    # a section object replaced between two writes (seed s4b_C18: a memory map cached at the first write)
    yield {'mem': z, 'writes': [[0x3200, '0102'], [0x3204, '0304']], 'rebind': [[1, 4]]}
    ff = [lib.hx(b'\xff' * n) for n in SIZES]
    yield {'mem': ff, 'writes': [[0x100, '00' * 16], [0x1ffe, '556600'], [0x42ff, '00']]}      # zeros over non-zero contents
    yield {'mem': z, 'writes': [[0x0, '01'], [0x1000, '0203'], [0x2000, '04']], 'rebind': [[1, 0], [2, 1]]}


def run_impl(case):
    from pico8.game.game import Game
    if case.get('build') == 'buffers':
        g, secs, _ = lib.game_from_buffers(case['mem'])
    elif case.get('build') == 'p8':
        g, secs = lib.game_from_p8(case['mem'])
    else:
        g = Game.make_empty_game()
        secs = [g.gfx, g.map, g.gff, g.music, g.sfx]
        for s, h in zip(secs, case['mem']):
            s._data[:] = lib.unhx(h)
    steps = []
    names = ['gfx', 'map', 'gff', 'music', 'sfx']
    for i, (addr, dh) in enumerate(case['writes']):
        for at, k in case.get('rebind', []):
            if at == i:
                old = getattr(g, names[k])
                new = old.__class__.__new__(old.__class__)      # a different object with the same contents
                new.__dict__.update(old.__dict__)
                new._data = bytearray(old._data)
                setattr(g, names[k], new)
                if names[k] == 'gfx' and getattr(g.map, '_gfx', None) is old:
                    g.map._gfx = new
                secs = [getattr(g, n) for n in names]
        before = [lib.hx(s._data) for s in secs]
        try:
            g.write_cart_data(lib.unhx(dh), addr)
            raised = None
        except Exception as e:  # noqa
            raised = lib.exc_name(e)
        after = [lib.hx(s._data) for s in secs]
        steps.append({'before': before, 'addr': addr, 'data': dh, 'raised': raised, 'after': after})
    return {'steps': steps}


def model_requests(case, obs):
    return ['wcd %s %d %s' % (' '.join(st['before']), st['addr'], st['data']) for st in obs['steps']]


def compare(case, obs, answers):
    for st, a in zip(obs['steps'], answers):
        if st['raised'] is not None:
            exp = 'ERR ' + st['raised']
        else:
            exp = 'OK ' + '|'.join(st['after'])
        if a != exp:
            return 'write addr=%d len=%d: implementation %s..., model %s...' % (
                st['addr'], len(lib.unhx(st['data'])), exp[:60], a[:60])
    return None


def monitor_requests(case, obs):
    return ['hold %s %d %s %d %s' % (' '.join(st['before']), st['addr'], st['data'],
                                     1 if st['raised'] else 0, ' '.join(st['after']))
            for st in obs['steps']]


def _cls(addr, n):
    e = addr + n

    def rel(x):
        for b in BOUNDS:
            if abs(x - b) <= 8:
                return '%#x%+d' % (b, x - b)
        return 'mid'
    return rel(addr) + '..' + rel(e)


def signature(case, obs):
    for st in obs['steps']:
        n = len(lib.unhx(st['data']))
        return 'C18/write/%s' % _cls(st['addr'], n)
    return 'C18/write'


def what(case, obs):
    st = obs['steps'][0]
    return 'write_cart_data(len %d at %#x) does not leave memory as the flat write' % (len(lib.unhx(st['data'])), st['addr'])


def describe(case, obs):
    return {'writes': [[a, (d[:16] + '...') if len(d) > 16 else d, len(lib.unhx(d))] for a, d in case['writes']],
            'mem': ['zero' if set(m) <= set('0') else 'sha-%04x' % (hash(m) & 0xffff) for m in case['mem']],
            'raised': [st['raised'] for st in obs['steps']] if obs and 'steps' in obs else None}


def nontrivial_key(case, obs):
    return None


def histogram_key(case, obs):
    return 'history-len-%d' % len(case['writes'])


def run_cases(cases, ctx):
    res = lib.standard_run(__import__('props.c18', fromlist=['x']), cases, ctx)
    # count distinct non-trivial (start,end) pairs over all steps; evaluations = steps
    keys = set()
    steps = 0
    hist = {}
    for c in cases:
        for a, d in c['writes']:
            steps += 1
            n = len(lib.unhx(d))
            keys.add((a, a + n))
            k = 'rejected' if a + n > 0x4300 else ('empty' if n == 0 else
                 'spans-%d-regions' % sum(1 for lo, hi in zip(BOUNDS, BOUNDS[1:]) if a < hi and a + n > lo))
            hist[k] = hist.get(k, 0) + 1
    res['evaluations'] = steps
    res['nontrivial'] = len([k for k in keys if k[1] > k[0] or k[1] > 0x4300])
    res['histogram'] = hist
    return res


def search(ctx, budget):
    import random
    import time
    rng = random.Random(ctx['seed'] + 1)
    t0 = time.time()
    viol, n = [], 0
    mod = __import__('props.c18', fromlist=['x'])
    gen = generate('thorough', rng)
    while time.time() - t0 < budget and not viol:
        batch = []
        for c in gen:
            batch.append(c)
            if len(batch) >= 200:
                break
        if not batch:
            break
        r = lib.standard_run(mod, batch, {'monitor_exe': ctx.get('monitor_exe'), 'model_exe': None})
        n += r['evaluations']
        viol.extend(r['violations'])
    return {'violations': viol, 'evaluations': n}
