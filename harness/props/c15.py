"""C15 - P8SCII <-> Unicode text conversion is a bijection on all byte strings."""
import lib

ID = 'C15'
GEN_FILES = ['T_p8scii',
             # source pins of the hand-modelled modules (gen/kernels_pins.py)
             'T_pins_luamin', 'T_pins_p8']
COQ_PROPERTY = 'theories/Properties/C15.vo'
COQ_EXTRA = ['theories/Proofs/LuaMinPins.vo', 'theories/Proofs/P8Pins.vo']
MODEL = ('ExC15', 'c15_main.ml')
MONITOR = ('MonC15', 'c15_mon_main.ml')
RULE = ('valid stream: all 256 single bytes, all 65,536 byte pairs (grouped by first byte), random long strings; '
        'malformed stream: Unicode texts with characters outside the table / truncated two-code-point glyphs '
        '(model and implementation must agree on KeyError); every evaluation converts bytes->text->UTF-8->text->bytes '
        'in the implementation, compares each stage with the extracted model and evaluates holds_C15 on the '
        'implementation output; distinct+non-trivial = distinct input strings of length >= 1')
CLAIM = dict(
    text=("Theorems C15_roundtrip, C15_distinct_prefix_free, C15_utf8, C15_utf8_roundtrip (Coq, closed under the global "
          "context), for byte strings of every length: proved by induction from decidable table conditions "
          "(table_ok, prefix_free, scalars_ok) that are recomputed by vm_compute on the P8SCII tables regenerated from "
          "lua.py's runtime values on every run; UTF-8 encodability and decode(encode)=id are proved for the RFC 3629 "
          "codec in Base/Utf8.v. Tie: the two 6-line converters are hand-modelled and compared with the real ones on "
          "all 256 bytes, all 65,536 pairs, random long strings and malformed Unicode; holds_C15 (extracted) is "
          "evaluated on the implementation's outputs, including Python's own UTF-8 codec."),
    note=("Trusted: Coq kernel+VM, table dump in gen/kernels.py (import-based), ExtrOcamlBasic extraction, OCaml glue, "
          "the modelling of Python str as code-point lists and of dict lookup as association lists."),
    technique='Coq proof (induction + vm_compute side conditions on regenerated tables) + correspondence + extracted monitor',
    design_ref='8 C15')
ASSUMPTIONS = ['Python str is modelled as a list of code points; CPython\'s UTF-8 codec is modelled by Base/Utf8.v (RFC 3629) and compared on every case']


def ints(s):
    return ','.join(str(ord(c)) for c in s) if s else '-'


def generate(tier, rng):
    yield {'kind': 'singles', 'inputs': [bytes([b]).hex() for b in range(256)]}
    # "the Unicode text stored in .p8 files": the same conversion observed THROUGH the .p8 codec - one comment line per
    # byte string, written by the .p8 writer, the stored text taken from the file, the bytes from reading it back
    lines = []
    for b in range(256):
        if b == 10:
            continue
        lines += [bytes([b]), bytes([b, 120]), bytes([120, b]), bytes([b, b])]
    for i in range(0, len(lines), 255):
        yield {'kind': 'p8file', 'inputs': [x.hex() for x in lines[i:i + 255]]}
    for a in range(256):
        yield {'kind': 'pairs', 'inputs': [bytes([a, b]).hex() for b in range(256)]}
    n = 2000 if tier == 'quick' else 50000
    batch = []
    for i in range(n):
        ln = rng.choice([1, 2, 3, 5, 17, 64, 300, 1500]) if i % 10 else 6000
        pool = rng.choice(['all', 'high', 'glyph2', 'ascii'])
        if pool == 'all':
            s = rng.randbytes(ln)
        elif pool == 'high':
            s = bytes(rng.randrange(128, 256) for _ in range(ln))
        elif pool == 'glyph2':
            s = bytes(rng.choice([131, 139, 142, 145, 148, 130, 132, 10, 13, 0]) for _ in range(ln))
        else:
            s = bytes(rng.randrange(0, 128) for _ in range(ln))
        batch.append(s.hex())
        if len(batch) == 100:
            yield {'kind': 'random', 'inputs': batch}
            batch = []
    if batch:
        yield {'kind': 'random', 'inputs': batch}
    if tier != 'quick':
        sub = [0, 10, 13, 16, 32, 34, 65, 92, 127, 128, 130, 131, 132, 138, 139, 140, 141, 142, 143, 144, 145, 146,
               147, 148, 149, 150, 151, 152, 153, 154, 200, 203, 204, 220, 230, 240, 250, 253, 254, 255]
        for a in sub:
            for b in sub:
                yield {'kind': 'triples', 'inputs': [bytes([a, b, c]).hex() for c in sub]}
    # malformed Unicode for the reverse converter
    from pico8.lua import lua
    sp = [c.p8string for c in lua.P8SCII_CHARSET]
    texts = []
    for i in range(300 if tier == 'quick' else 5000):
        parts = [rng.choice(sp) for _ in range(rng.randrange(1, 8))]
        t = ''.join(parts)
        r = rng.random()
        if r < 0.3 and len(t) > 1:
            k = rng.randrange(len(t))
            t = t[:k] + t[k + 1:]                  # delete one code point (may cut a 2-cp glyph)
        elif r < 0.6:
            k = rng.randrange(len(t) + 1)
            t = t[:k] + chr(rng.choice([0xfe0f, 0x2b07, 0x100, 0x3042, 0x1f17e, 0x10ffff, 0x7fe])) + t[k:]
        texts.append(t)
    yield {'kind': 'malformed', 'texts': texts}


def corpus_cases():
    return []


def _through_p8_file(bodies):
    """rows shaped like those of the function-level cases: bs = the line `--` + body as the cart holds it, text = what
    the written .p8 file stores for that line, back = the bytes of that line after reading the file back"""
    import io
    from pico8.game.game import Game
    from pico8.game.formatter.p8 import P8Formatter
    from pico8.lua.lua import Lua
    src_lines = [b'--' + b for b in bodies]
    rows = [{'bs': lib.hx(l)} for l in src_lines]
    try:
        g = Game.make_empty_game(version=8)
        g.lua = Lua.from_lines([l + b'\n' for l in src_lines], version=8)
        f = io.BytesIO()
        P8Formatter.to_file(g, f)
        data = f.getvalue()
        a = data.index(b'__lua__\n') + 8
        z = data.index(b'\n__gfx__', a)
        stored = data[a:z].split(b'\n')
        back = b''.join(P8Formatter.from_file(io.BytesIO(data)).lua.to_lines()).split(b'\n')
    except Exception as e:  # noqa
        for r in rows:
            r['text'] = 'ERR ' + lib.exc_name(e)
        return rows
    if back and back[-1] == b'':
        back = back[:-1]
    for i, r in enumerate(rows):
        if i >= len(stored):
            r['text'] = 'ERR line-missing-in-file'
            continue
        try:
            t = stored[i].decode('utf-8')
        except Exception as e:  # noqa
            r['text'] = 'ERR stored-text-not-utf8'
            continue
        r['text'] = ints(t)
        r['enc'] = lib.hx(stored[i])
        r['back'] = 'OK ' + lib.hx(back[i]) if i < len(back) else 'ERR line-missing-after-reading'
    return rows


def run_impl(case):
    from pico8.lua import lua
    out = []
    if case['kind'] == 'malformed':
        for t in case['texts']:
            try:
                r = 'OK ' + lib.hx(lua.unicode_to_p8scii(t))
            except Exception as e:  # noqa
                r = 'ERR ' + lib.exc_name(e)
            out.append({'text': ints(t), 'back': r})
        return {'rows': out}
    if case['kind'] == 'p8file':
        return {'rows': _through_p8_file([bytes.fromhex(h) for h in case['inputs']])}
    for h in case['inputs']:
        bs = bytes.fromhex(h)
        row = {'bs': lib.hx(bs)}
        try:
            t = lua.p8scii_to_unicode(bs)
            row['text'] = ints(t)
            try:
                row['enc'] = lib.hx(bytes(t, 'utf-8'))
            except Exception as e:  # noqa
                row['enc'] = 'ERR ' + lib.exc_name(e)
            try:
                row['back'] = 'OK ' + lib.hx(lua.unicode_to_p8scii(t))
            except Exception as e:  # noqa
                row['back'] = 'ERR ' + lib.exc_name(e)
        except Exception as e:  # noqa
            row['text'] = 'ERR ' + lib.exc_name(e)
        out.append(row)
    return {'rows': out}


def model_requests(case, obs):
    reqs = []
    for row in obs['rows']:
        if case['kind'] == 'malformed':
            reqs.append('u2p ' + row['text'])
        else:
            reqs.append('p2u ' + row['bs'])
            if not row['text'].startswith('ERR'):
                reqs.append('enc ' + row['text'])
                reqs.append('u2p ' + row['text'])
                if not row['enc'].startswith('ERR'):
                    reqs.append('dec ' + row['enc'])
    return reqs


def compare(case, obs, answers):
    i = 0
    for row in obs['rows']:
        if case['kind'] == 'malformed':
            if answers[i] != row['back']:
                return 'unicode_to_p8scii(%s): implementation %s, model %s' % (row['text'], row['back'], answers[i])
            i += 1
            continue
        if answers[i] != row['text']:
            return 'p8scii_to_unicode(%s): implementation %s, model %s' % (row['bs'], row['text'], answers[i])
        i += 1
        if row['text'].startswith('ERR'):
            continue
        if answers[i] != row['enc']:
            return 'utf-8 encode of %s: implementation %s, model %s' % (row['text'], row['enc'], answers[i])
        i += 1
        if answers[i] != row['back']:
            return 'unicode_to_p8scii(%s): implementation %s, model %s' % (row['text'], row['back'], answers[i])
        i += 1
        if not row['enc'].startswith('ERR'):
            if answers[i] != 'OK ' + row['text']:
                return 'utf-8 decode of %s: Python gives %s, model %s' % (row['enc'], row['text'], answers[i])
            i += 1
    return None


def monitor_requests(case, obs):
    if case['kind'] == 'malformed':
        return []
    reqs = []
    for row in obs['rows']:
        if row['text'].startswith('ERR') or row['enc'].startswith('ERR'):
            reqs.append('hold %s - - 1 -' % row['bs'])
            continue
        raised = row['back'].startswith('ERR')
        reqs.append('hold %s %s %s %d %s' % (row['bs'], row['text'], row['enc'], 1 if raised else 0,
                                            '-' if raised else row['back'][3:]))
    if case['kind'] == 'singles':
        reqs.append('pf ' + '|'.join(row['text'] if not row['text'].startswith('ERR') else '-' for row in obs['rows']))
    return reqs


def minimize(case, obs, answers):
    if case['kind'] == 'malformed':
        return case
    for row, a in zip(obs['rows'], answers):
        if a != 'true':
            return {'kind': 'single-failing-input', 'inputs': [row['bs'] if row['bs'] != '-' else '']}
    return case


def signature(case, obs):
    for row in obs['rows']:
        bs = lib.unhx(row.get('bs', '-'))
        if row.get('back') != 'OK ' + row.get('bs', ''):
            return 'C15/roundtrip/bytes-%s' % bs[:4].hex()
    return 'C15/table'


def what(case, obs):
    return 'P8SCII<->Unicode conversion is not a prefix-free bijection (%s)' % signature(case, obs)


def describe(case, obs):
    if case['kind'] == 'malformed':
        return {'kind': 'malformed', 'n': len(case['texts']), 'first': [ints(t) for t in case['texts'][:3]]}
    return {'kind': case['kind'], 'n': len(case['inputs']), 'first': case['inputs'][:3],
            'first_result': obs['rows'][0] if obs and obs.get('rows') else None}


def nontrivial_key(case, obs):
    return None


def histogram_key(case, obs):
    return case['kind']


def run_cases(cases, ctx):
    mod = __import__('props.c15', fromlist=['x'])
    res = lib.standard_run(mod, cases, ctx)
    seen = set()
    n = 0
    hist = {}
    for c in cases:
        items = c.get('inputs') or [ints(t) for t in c['texts']]
        n += len(items)
        hist[c['kind']] = hist.get(c['kind'], 0) + len(items)
        for h in items:
            if h:
                seen.add(h)
    res['evaluations'] = n
    res['nontrivial'] = len(seen)
    res['histogram'] = hist
    res['exhaustive'] = False
    return res


def search(ctx, budget):
    import random
    rng = random.Random(ctx['seed'] + 1)
    mod = __import__('props.c15', fromlist=['x'])
    cases = [c for c in generate('quick', rng) if c['kind'] in ('singles', 'pairs')]
    r = lib.standard_run(mod, cases, {'monitor_exe': ctx.get('monitor_exe'), 'model_exe': None})
    return {'violations': r['violations'], 'evaluations': 256 + 65536}
