"""C01 - luamin keeps the program: same tokens modulo renaming, nothing glued."""
import random
import time

import lib
from props import luagen
from props import mincommon as mc

ID = 'C01'
GEN_FILES = ['T_lexer', 'T_luanames', 'T_minifier', 'T_minifier_p8', 'T_minwiring_lua', 'T_minwiring_tool', 'T_minwiring_build', 'T_pins_lexer',
             # source pins of the hand-modelled modules (gen/kernels_pins.py)
             'T_pins_luamin', 'T_pins_luacontainer']
COQ_PROPERTY = 'theories/Properties/C01.vo'
COQ_EXTRA = ['theories/Proofs/LexerPins.vo',
             'theories/Proofs/LuaMinPins.vo', 'theories/Proofs/LuaContainerPins.vo']
MODEL = ('ExC01', 'c01_main.ml')
MONITOR = ('MonC01', 'c01_mon_main.ml')
CASE_TIMEOUT = 120
RULE = ('kinds: fuses = one first byte against all 256 second bytes (+ number-shaped prevs) through '
        'LuaMinifyTokenWriter._fuses vs the model; toks = the adjacency enumerator: every ordered pair of token '
        'representatives (every symbol of the regenerated table, names incl. glyph / keyword-prefixed, keywords, every '
        'numeric and string form, label, ?) x separators, lexed without the parser and written by the writer; prog = '
        'generated program x layout x configuration through Lua.from_lines + Lua.to_lines(writer_cls='
        'LuaMinifyTokenWriter, writer_args=...); cli-luamin / cli-build = the same through tool.main and the written '
        'cart. Every case: yielded chunks (or written __lua__ text) vs the extracted model (lexer model + writer '
        'model), and the extracted holds_C01 (reference tokenizer on the source and on the implementation\'s real '
        'output: views modulo renaming, line groups, token count) plus the stats counts of both texts. '
        'distinct+non-trivial = distinct (source, configuration) whose source is inside the reference dialect and has '
        'at least two significant tokens')
ASSUMPTIONS = ['sources outside the reference dialect (spec_lex = None: lone CR, --[==[ comments, \\z, 1e+5, ...) carry no claim',
               'the renaming is judged as a consistent injection on identifier tokens (reserved names: C02)']
PARTIAL = ''
CLAIM = dict(
    text=("Theorems (Coq, closed under the global context; Proofs/LuaLexFacts.v, MinifyRelex.v, MinifyRelations.v) about a "
          "model of LuaMinifyTokenWriter.to_lines/_minified_chunks/_fuses (bodies pinned, _FUSING_CHARS regenerated), of the "
          "name factory and of Token.code/TokString.code (regenerated reverse-escape table), against the reference lexer "
          "Spec/LuaLex.v, for EVERY token sequence of the dialect (no parse hypothesis), every configuration and keep file: "
          "C01_luamin_preserves - the written text lexes to the input's significant tokens (keywords/symbols by text, numbers "
          "by value, strings by denoted bytes), identifiers renamed exactly as the name factory answers (hence a consistent "
          "injection, C02), same line groups, same token count; C01_holds - holds_C01 is true of the model's output; "
          "C01_glue_free_symbols - a sweep over the symbol set x 256 bytes on the regenerated table, lifted to every right "
          "context; C01_string_reencode - TokString.code of any byte string is read back to the same bytes; "
          "C01_minify_total; C01_end_to_end / C01_holds_all - composed with the lexer worker's lex_agrees_code (C07): for every "
          "byte string, lexer model then writer model, holds_C01 is true of the output - no hypothesis about the lexer left "
          "(single chunk); C01_lines / C01_lines_total / C01_end_to_end_chunks / C01_luamin_preserves_chunks / "
          "C01_stats_count_chunks / C01_identifiers_C02_chunks - the same for the source as per-line chunks (how the .p8 "
          "reader and Lua.from_lines feed the lexer; by C07_chunking), C01_end_to_end_chunk_ok for any chunk list the lexer "
          "reads as the joined text (build's prepended lines incl. a separate newline line), C01_cart_text for the __lua__ "
          "text of the written cart. Full statement proved after the fix: commit for S1 (token gluing). Tie: pinned "
          "sources, correspondence of lexer model + writer model with the real writer on the adjacency enumerator (all "
          "ordered pairs of token representatives incl. every symbol of the regenerated table), generated programs x "
          "layouts x configurations, `p8tool luamin` and `build --lua-minify`; the extracted holds_C01 (reference tokenizer "
          "only) evaluated on the implementation's real output, plus the stats counts."),
    note=("Trusted: Coq kernel+VM, table dumps and source pins (gen/kernels_min.py, kernels_lexer.py, kernels_c02.py), "
          "ExtrOcamlBasic extraction, OCaml glue, the reference grammar Spec/LuaLex.v as the meaning of 'PICO-8/Lua lexical "
          "rules' (inputs it leaves undefined carry no claim), C07 for the link between picotool's lexer and the grammar "
          "(observed here on every case through the monitor, which does not use picotool's lexer). The parser is not "
          "modelled: the theorem covers all token sequences, so also all programs."),
    technique='Coq proof (per-kind right-context lemmas, symbol sweep, induction over the writer) + correspondence + extracted monitor',
    design_ref='8 C01')

_CTX = {}
_SELF = 'props.c01'
CLAUSE = {1: 'output-does-not-lex', 2: 'tokens-differ', 3: 'renaming', 4: 'line-groups', 5: 'token-count',
          6: 'stats-count'}


def fuses_cases():
    extra = [b'1', b'12', b'.5', b'5.', b'..', b'.', b'a1', b'x.', b'0x1', b'"1"', b'1e3', b'::l::', b'--c', b'']
    for a in range(256):
        yield {'kind': 'fuses', 'prevs': [lib.hx(bytes([a]))] + ([lib.hx(e) for e in extra] if a == 0 else [])}


def generate(tier, rng):
    quick = tier == 'quick'
    for c in fuses_cases():
        yield c
    seps = [b' '] if quick else [b' ', b'  ', b'\t', b' --[[c]] ']
    for c in mc.pair_cases(rng, seps, cfgs=('default', 'keep-all')):
        yield c
    if not quick:
        for c in mc.pair_cases(rng, [b'\n', b' -- c\n'], cfgs=('default',)):
            yield c
    nprog = 300 if quick else 5000
    for i in range(nprog):
        src = luagen.program_source(rng, nstat=rng.choice([1, 2, 3, 5, 8, 12]) if i % 40 else rng.choice([40, 80]))
        for cfg in (mc.CONFIGS if i % 3 == 0 else [mc.pick_cfg(rng)]):
            yield {'kind': 'prog', 'src': lib.hx(src), 'cfg': cfg}
    for i in range(30 if quick else 300):
        src = luagen.program_source(rng, nstat=rng.choice([1, 3, 6]))
        if any(b >= 0x80 for b in src) and i % 2:
            continue
        yield {'kind': 'cli-luamin' if i % 2 == 0 else 'cli-build', 'src': lib.hx(src), 'cfg': mc.pick_cfg(rng)}


def corpus_cases():
    # S1 (fixed): pairs the writer used to glue
    for s in [b'a = b - -c\n', b'x = 1 ..y\n', b't[ [[k]] ]=1\n', b'f(x .. ...)\n', b'a = b .. .5\n', b'a = - - -b\n',
              b't[ [=[k]=] ]=1\n', b'x = 0x1 ..y\n', b'x = 3. ..y\n', b'if (a) b=1 c=2\nd=3\n', b'?x,2\ny=2\n',
              b'x=1 -- c\n-- d\n\n\ny=2', b'::a:: ::b:: goto a\n', b'x="a\\0001"..\'q"\'\n', b'x=[[\nl]] y=[==[]]]==]\n',
              b'a=b\r\nc=d --x\r\n', b'x = a // b\ny = 2\n', b'return"s"\n', b'x=a[1]y=2\n', b'x={1}y=2\n']:
        for cfg in mc.CONFIGS:
            yield {'kind': 'prog', 'src': lib.hx(s), 'cfg': cfg}
    for s in [b'a - -b', b'1 ..y', b'[ [[k]]', b'.. ...', b'.. .5', b'< <', b'> >=', b'^ ^', b': :', b'. 5', b'~ =', b'[ =',
              b'/ /c', b'<< >', b'>> >', b'>> <', b': ::l::', b'1 .', b'3. .', b'= =', b'\\ =', b'.. =']:
        yield {'kind': 'toks', 'src': lib.hx(b'x = ' + s + b' y\n'), 'cfg': 'default'}
    yield {'kind': 'cli-luamin', 'src': lib.hx(b'-- t\n-- b\nfoo = bar - -1 ?foo\n'), 'cfg': 'default'}
    yield {'kind': 'cli-build', 'src': lib.hx(b'-- t\n-- b\nfoo = bar - -1 ?foo\n'), 'cfg': 'keep-all'}


def run_impl(case):
    if case['kind'] == 'fuses':
        from pico8.lua import lua
        rows = []
        try:
            for ph in case['prevs']:
                p = lib.unhx(ph)
                rows.append(''.join('1' if lua.LuaMinifyTokenWriter._fuses(p, bytes([b])) else '0' for b in range(256)) +
                            ('1' if lua.LuaMinifyTokenWriter._fuses(p, b'') else '0'))
        except Exception as e:  # noqa
            return {'raised': lib.exc_name(e)}
        return {'rows': rows}
    return mc.run_impl(case)


def model_requests(case, obs):
    if case['kind'] == 'fuses':
        return ['fuses %s %s' % (ph, lib.hx(bytes([b]))) for ph in case['prevs'] for b in range(256)] + \
               ['fuses %s -' % ph for ph in case['prevs']]
    return [mc.model_request(case)]


def compare(case, obs, answers):
    if case['kind'] == 'fuses':
        if 'raised' in obs:
            return 'LuaMinifyTokenWriter._fuses raised %s' % obs['raised']
        n = len(case['prevs'])
        for i, ph in enumerate(case['prevs']):
            got = ''.join(answers[i * 256:(i + 1) * 256]) + answers[n * 256 + i]
            if got != obs['rows'][i]:
                b = next(j for j in range(257) if got[j] != obs['rows'][i][j])
                return '_fuses(%r, %r): implementation %s, model %s' % (lib.unhx(ph), bytes([b]) if b < 256 else b'', obs['rows'][i][b], got[b])
        return None
    return mc.compare(case, obs, answers[0])


def monitor_requests(case, obs):
    if case['kind'] == 'fuses' or 'out' not in obs:
        return []
    return ['c01 %s %s %d %d' % (case['src'], lib.hx(obs['out']), mc.cnt(obs['cin']), mc.cnt(obs['cout']))]


def _answer(case, obs):
    if 'mon' in obs:
        return obs['mon']
    exe = _CTX.get('monitor_exe')
    if not exe or 'out' not in obs:
        return 'true'
    obs['mon'] = lib.run_driver(exe, monitor_requests(case, obs))[0]
    return obs['mon']


def _short(b, n=12):
    return b[:n].decode('latin-1').replace('\n', '\\n').replace(' ', '_')


def signature(case, obs):
    f = _answer(case, obs).split(' ')
    if f[0] != 'false':
        return 'C01/none'
    cl = int(f[1])
    sig = 'C01/' + CLAUSE.get(cl, str(cl))
    if cl == 2 and len(f) >= 5:
        def tk(s):
            if s == '-':
                return 'nothing'
            k, raw = s.split(':', 1)
            return '%s:%s' % (k, _short(lib.unhx(raw)))
        sig += '/%s->%s' % (tk(f[3]), tk(f[4]))
    return sig + ('/' + case['kind'] if case['kind'].startswith('cli') else '')


def what(case, obs):
    f = _answer(case, obs).split(' ')
    cl = int(f[1]) if len(f) > 1 else 0
    txt = {1: 'the minified text is not a token sequence of the dialect', 2: 'the minified text lexes to different tokens',
           3: 'identifiers are not renamed by a consistent injection', 4: 'a line-scoped construct ends elsewhere (line groups differ)',
           5: 'the token count changed', 6: 'stats reports a different token count'}.get(cl, 'holds_C01 is false')
    return '%s: %r -> %r (%s)' % (txt, lib.unhx(case['src'])[:80], obs.get('out', b'')[:80], case.get('cfg'))


def describe(case, obs):
    if case['kind'] == 'fuses':
        return {'kind': 'fuses', 'prevs': [repr(lib.unhx(p)) for p in case['prevs'][:3]]}
    d = {'kind': case['kind'], 'cfg': case.get('cfg'), 'src': repr(lib.unhx(case['src'])[:100])}
    if obs:
        if 'out' in obs:
            d['out'] = repr(obs['out'][:100])
            d['counts'] = [obs.get('cin'), obs.get('cout')]
        if 'raised' in obs:
            d['raised'] = obs['raised']
        if 'mon' in obs:
            d['monitor'] = obs['mon'][:120]
    return d


def minimize(case, obs, answers):
    """remove source lines, then bytes at token granularity is left to the reader: keep the clause"""
    obs['mon'] = answers[0]
    exe = _CTX.get('monitor_exe')
    _CTX['minimized'] = _CTX.get('minimized', 0) + 1
    if not exe or case['kind'] == 'fuses' or _CTX['minimized'] > 6:
        return case
    want = answers[0].split(' ')[:2]

    def fails(c):
        o = run_impl(c)
        if 'out' not in o:
            return None
        a = lib.run_driver(exe, monitor_requests(c, o))[0]
        if a.split(' ')[:2] == want:
            o['mon'] = a
            return o
        return None
    src = lib.unhx(case['src'])
    lines = mc.split_lines(src)
    best = None
    budget = 150
    step = max(1, len(lines) // 2)
    while step >= 1 and budget > 0 and len(lines) > 1:
        i, changed = 0, False
        while i < len(lines) and budget > 0:
            trial = lines[:i] + lines[i + step:]
            budget -= 1
            c2 = dict(case, src=lib.hx(b''.join(trial)))
            o2 = fails(c2) if trial else None
            if o2 is not None:
                lines, best, changed = trial, (c2, o2), True
            else:
                i += step
        if not changed:
            step //= 2
    if best:
        obs.clear()
        obs.update(best[1])
        return best[0]
    return case


def nontrivial_key(case, obs):
    if case['kind'] == 'fuses':
        return ('fuses', case['prevs'][0])
    if 'out' not in obs or not obs.get('in_dialect', True):
        return None
    return (case['kind'], case['src'], case.get('cfg'))


def histogram_key(case, obs):
    if case['kind'] == 'fuses':
        return 'fuses'
    if 'raised' in obs:
        return '%s/raised-%s' % (case['kind'], obs['raised'])
    n = len(lib.unhx(case['src']))
    return '%s/%s/%s' % (case['kind'], case.get('cfg'), 'src<100B' if n < 100 else 'src<1kB' if n < 1000 else 'src>=1kB')


def run_cases(cases, ctx):
    _CTX.update(ctx)
    _CTX['minimized'] = 0
    try:
        res = lib.standard_run(__import__(_SELF, fromlist=['x']), cases, ctx)
        # how many sources are inside the reference dialect (the monitor makes a claim only there)
        exe = ctx.get('monitor_exe')
        if exe:
            srcs = sorted(set(c['src'] for c in cases if c['kind'] != 'fuses'))
            ans = lib.run_driver_parallel(exe, ['lex ' + s for s in srcs])
            inside = sum(1 for a in ans if a != 'N')
            res['histogram']['sources-inside-reference-dialect'] = inside
            res['histogram']['sources-outside-reference-dialect'] = len(srcs) - inside
            ok = {s for s, a in zip(srcs, ans) if a != 'N' and int(a.split(' ')[1]) >= 2}
            res['nontrivial'] = len({(c['kind'], c['src'], c.get('cfg')) for c in cases if c['kind'] != 'fuses' and c['src'] in ok}) + \
                len([c for c in cases if c['kind'] == 'fuses'])
    finally:
        mc.cleanup()
    res['evaluations'] = sum(257 * len(c['prevs']) if c['kind'] == 'fuses' else 1 for c in cases)
    return res


def search(ctx, budget):
    _CTX.update(ctx)
    rng = random.Random(ctx['seed'] + 1)
    t0 = time.time()
    viol, n = [], 0
    mod = __import__(_SELF, fromlist=['x'])
    pairs = mc.pair_cases(rng, [b' ', b'\t', b' --[[c]] '], cfgs=('default',))

    def progs():
        while True:
            yield {'kind': 'prog', 'src': lib.hx(luagen.program_source(rng)), 'cfg': mc.pick_cfg(rng)}
    pg = progs()
    try:
        while time.time() - t0 < budget and not viol:
            batch = []
            for c in pairs:
                batch.append(c)
                if len(batch) >= 300:
                    break
            for _ in range(100):
                batch.append(next(pg))
            r = lib.standard_run(mod, batch, {'monitor_exe': ctx.get('monitor_exe'), 'model_exe': None})
            n += len(batch)
            viol.extend(r['violations'])
    finally:
        mc.cleanup()
    return {'violations': viol, 'evaluations': n}
