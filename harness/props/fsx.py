"""File-system helpers shared by the C11 and C13 modules (worker files2; harness/props/fsobs.py belongs to C12).

* sandboxes: fresh directories under $VERIF_TMP, else <verif>/../tmp when that exists (the worker's scratch
  directory), else a directory created with tempfile.mkdtemp in the system temp dir; always removed by the check.
* quiet(): capture picotool's console output.
* TraceRecorder: in-process wrappers (no hook in the repo) around builtins.open, tempfile.TemporaryFile,
  os.remove / os.unlink / os.rename / os.replace / os.truncate / shutil.copyfile / shutil.move that record the
  trace of file operations (data abstracted to lengths) and can inject a fault at the k-th write to the
  temporary file.
"""
import builtins
import contextlib
import io
import os
import shutil
import tempfile

import lib


def tmp_base():
    b = os.environ.get('VERIF_TMP')
    if b:
        os.makedirs(b, exist_ok=True)
        return b
    cand = os.path.join(os.path.dirname(lib.VERIF), 'tmp')
    if os.path.isdir(os.path.dirname(lib.VERIF)) and os.access(os.path.dirname(lib.VERIF), os.W_OK) \
            and os.path.dirname(lib.VERIF).startswith('/work/'):
        os.makedirs(cand, exist_ok=True)
        return cand
    return tempfile.gettempdir()


def mk_sandbox(tag):
    return os.path.realpath(tempfile.mkdtemp(prefix='verif_%s_' % tag, dir=tmp_base()))


def rm_sandbox(path):
    if path and os.path.isdir(path) and os.path.basename(path).startswith('verif_'):
        shutil.rmtree(path, ignore_errors=True)


def write_file(path, data):
    d = os.path.dirname(path)
    if d:
        os.makedirs(d, exist_ok=True)
    with io.open(path, 'wb') as fh:
        fh.write(data)


def read_file(path):
    try:
        with io.open(path, 'rb') as fh:
            return fh.read()
    except FileNotFoundError:
        return None


@contextlib.contextmanager
def quiet():
    """Capture picotool's console output (util._write_stream / util._error_stream)."""
    from pico8 import util
    ow, oe, ov = util._write_stream, util._error_stream, util._verbosity
    buf = io.StringIO()
    util._write_stream = buf
    util._error_stream = buf
    try:
        yield buf
    finally:
        util._write_stream, util._error_stream, util._verbosity = ow, oe, ov


@contextlib.contextmanager
def cwd(path):
    old = os.getcwd()
    os.chdir(path)
    try:
        yield
    finally:
        os.chdir(old)


class InjectedFault(OSError):
    """The fault injected into the temporary stream's write()."""


class _TempProxy:
    """Stands for the object tempfile.TemporaryFile returns: delegates, records, injects."""

    def __init__(self, rec, real, h):
        self._rec, self._real, self._h = rec, real, h

    def write(self, data):
        rec = self._rec
        k = rec.temp_writes
        if rec.fail_at is not None and k == rec.fail_at:
            rec.fault_fired = True
            raise InjectedFault('injected fault at temp write #%d' % k)
        rec.temp_writes += 1
        n = self._real.write(data)
        rec.events.append(('w', self._h, len(data)))
        return n

    def read(self, *a):
        d = self._real.read(*a)
        self._rec.events.append(('r', self._h, len(d)))
        return d

    def seek(self, *a):
        self._rec.events.append(('s', self._h, a[0] if a else 0))
        return self._real.seek(*a)

    def close(self):
        if not self._real.closed:
            self._rec.events.append(('c', self._h))
            self._rec._release(self._h)
        return self._real.close()

    def __enter__(self):
        return self

    def __exit__(self, *exc):
        self.close()
        return False

    def __getattr__(self, name):
        return getattr(self._real, name)


class _FileProxy:
    """Stands for a file opened for writing through builtins.open."""

    def __init__(self, rec, real, h):
        self._rec, self._real, self._h = rec, real, h

    def write(self, data):
        n = self._real.write(data)
        self._rec.events.append(('w', self._h, len(data)))
        return n

    def close(self):
        if not self._real.closed:
            self._rec.events.append(('c', self._h))
            self._rec._release(self._h)
        return self._real.close()

    def __enter__(self):
        return self

    def __exit__(self, *exc):
        self.close()
        return False

    def __iter__(self):
        return iter(self._real)

    def __getattr__(self, name):
        return getattr(self._real, name)


class TraceRecorder:
    """Records, in order:
       ('T', h)            tempfile.TemporaryFile() -> handle h
       ('R', path)         open(path) for reading only
       ('W', path, h)      open(path) in any mode that can write (w a x +)  -> handle h (creates / truncates for w)
       ('w', h, n)         a successful write of n bytes to handle h
       ('r', h, n)         read() of n bytes from the temporary file
       ('s', h, pos)       seek on the temporary file
       ('c', h)            close of handle h
       ('X', path)         os.remove / os.unlink / os.truncate
       ('M', src, dst)     os.rename / os.replace / shutil.move / shutil.copyfile (dst is overwritten)
    Only paths inside `root` are recorded for reads (picotool also reads its own label image, Python modules...).
    fail_at = k: the (k+1)-th write call on a temporary file raises InjectedFault instead of writing."""

    def __init__(self, root=None, fail_at=None):
        self.events = []
        self.root = root
        self.fail_at = fail_at
        self.temp_writes = 0
        self.fault_fired = False
        self._open = set()

    def _h(self):
        """handle ids are allocated like file descriptors: the smallest free positive integer, released on close"""
        h = 1
        while h in self._open:
            h += 1
        self._open.add(h)
        return h

    def _release(self, h):
        self._open.discard(h)

    def _norm(self, p):
        try:
            return os.path.realpath(os.fsdecode(p))
        except Exception:
            return str(p)

    def _inside(self, p):
        return self.root is None or p == self.root or p.startswith(self.root + os.sep)

    def __enter__(self):
        rec = self
        self._saved = {
            'open': builtins.open, 'ioopen': io.open, 'temp': tempfile.TemporaryFile,
            'remove': os.remove, 'unlink': os.unlink, 'rename': os.rename, 'replace': os.replace,
            'truncate': os.truncate, 'copyfile': shutil.copyfile, 'move': shutil.move,
        }
        sv = self._saved

        def w_open(file, mode='r', *a, **kw):
            if isinstance(file, (str, bytes, os.PathLike)):
                p = rec._norm(file)
                writing = any(c in mode for c in 'wax+')
                if writing:
                    fh = sv['open'](file, mode, *a, **kw)
                    h = rec._h()
                    rec.events.append(('W', p, h))
                    return _FileProxy(rec, fh, h)
                if rec._inside(p):
                    rec.events.append(('R', p))
            return sv['open'](file, mode, *a, **kw)

        def w_temp(*a, **kw):
            # what tempfile does internally to obtain the anonymous file (mkstemp + unlink of its own
            # fresh name in the system temp directory, when O_TMPFILE is unavailable) is not part of the trace
            n0 = len(rec.events)
            real = sv['temp'](*a, **kw)
            del rec.events[n0:]
            h = rec._h()
            rec.events.append(('T', h))
            return _TempProxy(rec, real, h)

        def w_remove(p, *a, **kw):
            rec.events.append(('X', rec._norm(p)))
            return sv['remove'](p, *a, **kw)

        def w_unlink(p, *a, **kw):
            rec.events.append(('X', rec._norm(p)))
            return sv['unlink'](p, *a, **kw)

        def w_truncate(p, *a, **kw):
            if isinstance(p, (str, bytes, os.PathLike)):
                rec.events.append(('X', rec._norm(p)))
            return sv['truncate'](p, *a, **kw)

        def w_rename(s, d, *a, **kw):
            rec.events.append(('M', rec._norm(s), rec._norm(d)))
            return sv['rename'](s, d, *a, **kw)

        def w_replace(s, d, *a, **kw):
            rec.events.append(('M', rec._norm(s), rec._norm(d)))
            return sv['replace'](s, d, *a, **kw)

        def w_copyfile(s, d, *a, **kw):
            rec.events.append(('M', rec._norm(s), rec._norm(d)))
            return sv['copyfile'](s, d, *a, **kw)

        def w_move(s, d, *a, **kw):
            rec.events.append(('M', rec._norm(s), rec._norm(d)))
            return sv['move'](s, d, *a, **kw)

        builtins.open = w_open
        tempfile.TemporaryFile = w_temp
        os.remove, os.unlink, os.truncate = w_remove, w_unlink, w_truncate
        os.rename, os.replace = w_rename, w_replace
        shutil.copyfile, shutil.move = w_copyfile, w_move
        return self

    def __exit__(self, *exc):
        sv = self._saved
        builtins.open = sv['open']
        tempfile.TemporaryFile = sv['temp']
        os.remove, os.unlink, os.truncate = sv['remove'], sv['unlink'], sv['truncate']
        os.rename, os.replace = sv['rename'], sv['replace']
        shutil.copyfile, shutil.move = sv['copyfile'], sv['move']
        return False


def hx(s):
    b = s if isinstance(s, (bytes, bytearray)) else s.encode('utf-8')
    return bytes(b).hex() if b else '-'
