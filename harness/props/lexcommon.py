"""Shared by the lexer-stack property modules: observing picotool's lexer, encoding token lists
for the extracted runners, token representatives of the adjacency enumerator."""
import fractions

import lib

KIND_CODE = {'TokSpace': 0, 'TokNewline': 1, 'TokComment': 2, 'TokString': 3, 'TokNumber': 4, 'TokName': 5,
             'TokLabel': 6, 'TokKeyword': 7, 'TokSymbol': 8}
KIND_NAME = {v: k for k, v in KIND_CODE.items()}


def enc_chunks(chunks):
    return '.' if not chunks else '|'.join(lib.hx(c) for c in chunks)


def lex_impl(chunks, with_code=True):
    """Run picotool's lexer (the first half of Lua.from_lines) on the chunks.
    -> {'err': name} or {'toks': [dict], 'count': get_token_count()}"""
    from pico8.lua import lua, lexer
    l = lua.Lua(lib.lua_version(chunks))
    try:
        l._lexer.process_lines(list(chunks))
    except Exception as e:  # noqa
        return {'err': lib.exc_name(e)}
    toks = []
    for t in l.tokens:
        row = {'cls': type(t).__name__, 'data': bytes(t._data), 'line': t._lineno, 'col': t._charno,
               'quote': getattr(t, '_quote', None), 'ml': getattr(t, '_multiline_quote', None), 'value': None,
               'sval': None}
        if isinstance(t, lexer.TokString):
            try:
                row['sval'] = bytes(t.value)
            except Exception as e:  # noqa
                row['sval'] = 'ERR ' + lib.exc_name(e)
        if with_code:
            try:
                row['code'] = bytes(t.code)
            except Exception as e:  # noqa
                row['code'] = 'ERR ' + lib.exc_name(e)
        if isinstance(t, lexer.TokNumber):
            try:
                v = t.value
                row['value'] = fractions.Fraction(v) if v == v and abs(v) != float('inf') else 'inf'
            except Exception as e:  # noqa
                row['value'] = 'ERR ' + lib.exc_name(e)
        toks.append(row)
    try:
        cnt = l.get_token_count()
    except Exception as e:  # noqa
        cnt = 'ERR ' + lib.exc_name(e)
    # after the observation: what `p8tool listlua --pure-lua` does to the token objects of a loaded cart (PureLuaWriter
    # rewrites `?` and `//` tokens in place).  Token objects belong to the load that made them: a later lex in this
    # process must not see them (a lexer that hands out remembered token objects would)
    try:
        list(lua.PureLuaWriter(tokens=l._lexer.tokens, root=None, args=None).to_lines())
    except Exception:  # noqa
        pass
    return {'toks': toks, 'count': cnt}


def enc_itoks(toks):
    """token list in the monitor runners' format: kindcode:data:line:col:quote:ml:value:strvalue"""
    if not toks:
        return '.'
    out = []
    for t in toks:
        v = t['value']
        vs = '%s/%s' % (hex(v.numerator), hex(v.denominator)) if isinstance(v, fractions.Fraction) else '_'
        sv = t.get('sval')
        out.append('%d:%s:%d:%d:%s:%s:%s:%s' % (
            KIND_CODE.get(t['cls'], 99), lib.hx(t['data']), t['line'], t['col'],
            lib.hx(t['quote'] or b''), 'N' if t['ml'] is None else 'S' + lib.hx(t['ml']), vs,
            lib.hx(sv) if isinstance(sv, bytes) else '-'))
    return ';'.join(out)


def parse_model_toks(s):
    """the model runner's rendering -> list of dicts comparable with lex_impl rows"""
    if s == '.':
        return []
    out = []
    for ts in s.split(';'):
        cls, data, line, col, quote, ml, code, value, ext, sval = ts.split(':')
        if value == '_':
            v = None
        elif value.startswith('E'):
            v = 'ERR ' + value[1:]
        else:
            n, d = value.split('/')
            v = fractions.Fraction(int(n, 0), int(d, 0))
        out.append({'cls': cls, 'data': lib.unhx(data), 'line': int(line), 'col': int(col),
                    'quote': lib.unhx(quote) or None, 'ml': None if ml == 'N' else lib.unhx(ml[1:]),
                    'code': lib.unhx(code), 'value': v, 'ext': lib.unhx(ext),
                    'sval': lib.unhx(sval) if cls == 'TokString' else None})
    return out


def value_agrees(impl_v, model_v):
    """impl: Fraction(float) | 'inf' | 'ERR x' | None; model: exact Fraction | 'ERR x' | None.
    The implementation's float must be the correctly rounded double of the model's exact value."""
    if impl_v is None or model_v is None or isinstance(impl_v, str) and impl_v.startswith('ERR') \
            or isinstance(model_v, str):
        return impl_v == model_v
    try:
        f = float(model_v)
    except OverflowError:
        f = float('inf')
    if impl_v == 'inf':
        return f == float('inf')
    return fractions.Fraction(f) == impl_v


def compare_lex(impl, model_line, check_extent_of=None):
    """-> None or a description of the first difference between implementation and model"""
    if model_line.startswith('DRIVER-ERROR'):
        return model_line
    if 'err' in impl:
        return None if model_line == 'ERR ' + impl['err'] else 'implementation raised %s, model: %s' % (impl['err'], model_line[:80])
    if not model_line.startswith('OK '):
        return 'implementation lexed %d tokens, model: %s' % (len(impl['toks']), model_line[:80])
    _, cnt, rest = model_line.split(' ', 2)
    mt = parse_model_toks(rest)
    if len(mt) != len(impl['toks']):
        return 'token count: implementation %d, model %d' % (len(impl['toks']), len(mt))
    for k, (a, b) in enumerate(zip(impl['toks'], mt)):
        for f in ('cls', 'data', 'line', 'col', 'quote', 'ml', 'code', 'sval'):
            if f in a and a[f] != b[f]:
                return 'token %d field %s: implementation %r, model %r' % (k, f, a[f], b[f])
        if not value_agrees(a['value'], b['value']):
            return 'token %d value: implementation %r, model %r (data %r)' % (k, a['value'], b['value'], a['data'])
    if str(impl['count']) != cnt:
        return 'get_token_count: implementation %s, model %s' % (impl['count'], cnt)
    if check_extent_of is not None and b''.join(t['ext'] for t in mt) != check_extent_of:
        return 'model extents do not concatenate to the source'
    return None


# ---------------------------------------------------------------- adjacency enumerator
def unescape_symbol(pat):
    out = bytearray()
    i = 0
    while i < len(pat):
        if pat[i] == 92 and i + 1 < len(pat):
            out.append(pat[i + 1])
            i += 2
        else:
            out.append(pat[i])
            i += 1
    return bytes(out)


def representatives():
    """token representatives: every symbol of the running table, names (incl. glyph and keyword-prefixed),
    keywords, every numeric form, string forms, a label, comment forms, '?', line breaks"""
    from pico8.lua import lexer
    syms = [unescape_symbol(pat.pattern) for pat, cls in lexer._TOKEN_MATCHERS if cls is lexer.TokSymbol]
    others = [b'x', b'foo_1', b'endx', b'end_', b'e', b'_', b'\x80', b'a\x99', b'xb', b'p',
              b'end', b'and', b'not', b'function', b'or', b'if',
              b'1', b'12.5', b'1.', b'.5', b'1e5', b'1e-3', b'1.5E3', b'0x1f', b'0x1F.8', b'0x.8', b'0b101', b'0b1.1',
              b'0XA', b'0B11', b'0xe',
              b'"a"', b"'b'", b'"\\n\\065"', b'[[k]]', b'[=[k]=]', b'""',
              b'::l::', b'--c', b'//c', b'--[[c]]', b'--[==[c', b'?', b'\n', b'\r\n', b'\r', b' ', b'\t']
    return syms + others
