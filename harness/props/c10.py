"""C10 - luafmt output is canonical: indentation follows nesting, idempotent."""
import itertools
import os
import random
import sys
import time

import lib

sys.path.insert(0, os.path.dirname(os.path.abspath(__file__)))
import pgen  # noqa: E402  (worker `parser` owns pgen.py; read-only use)

ID = 'C10'
GEN_FILES = ['T_fmtspaces', 'T_pins_parser', 'T_pins_luawriter', 'T_parser', 'T_lexer', 'T_pins_lexer', 'T_luanames', 'T_minifier',
             'T_minifier_p8', 'T_minwiring_lua', 'T_minwiring_tool', 'T_minwiring_build',
             # source pins of the hand-modelled modules (gen/kernels_pins.py)
             'T_pins_tool']
COQ_PROPERTY = 'theories/Properties/C10.vo'
COQ_EXTRA = ['theories/Proofs/ParserPins.vo', 'theories/Proofs/AstWriterPins.vo', 'theories/Proofs/LexerPins.vo',
             'theories/Proofs/ToolPins.vo']
MODEL = ('ExC10', 'c10_main.ml')
MONITOR = ('MonC10', 'c10_mon_main.ml')
ALPHABET = b' \t\n\r-/a'
RULE = ('(a) isolated pipeline: the real LuaFormatterWriter._get_code_for_spaces (and LuaMinifyWriter\'s) called on a '
        'single trivia token holding the run, against the extracted model fmt_run / min_run, for ALL runs of length <= 5 '
        '(thorough: <= 6) over {space, tab, \\n, \\r, -, /, a} x {at start, middle, at end, whole file} x three (width, depth) '
        'pairs, plus random longer comment-bearing runs; (b) whole programs: grammar-generated programs laid out one statement '
        'per line (plus a stream with line breaks inside brackets) with blank-line runs, white-space-only lines, comment lines '
        'of all kinds, trailing comments; each program x 4 (thorough 8) random re-indentations (leading/trailing spaces and '
        'tabs on every line) x width 0-8: real `luafmt` on every layout and on its own output; every real '
        '_get_code_for_spaces call made during those runs is compared with the model (instrumented subclass); the extracted '
        'holds_C10 is evaluated on (width, layout 1, layout k, out 1, out k, luafmt(out 1)); (c) 12 (thorough 120) programs go through '
        'the command line: a cart is written, `p8tool luafmt --indentwidth w cart.p8` run in-process, the code of cart_fmt.p8 must equal '
        'the direct formatter output and satisfy holds_C10; (d) a sample of 150 (600) pipeline calls is re-evaluated inside Coq by '
        'vm_compute on the model itself (cross-check of extraction and glue).  One evaluation = one pipeline '
        'call compared, or one holds_C10 evaluation; distinct+non-trivial = distinct runs that contain a line break or a '
        'comment + distinct (program, layout pair) observations inside the domain of holds_C10')
PARTIAL = ('proved at program level (parser trees inside the writer domain of C09_aligned, tidy token codes): C10_shape (no trailing '
           'white space, no double blank line in the whole luafmt output), C10_indent_counter_partial (a code token that begins a '
           'line is preceded by exactly indentwidth x n spaces, n >= 0 the writer nesting counter at its white-space run), C10_first_line '
           '(what begins the first line of the output sits at column 0), C10_no_blank_lines_at_end (the output is empty, one line feed, or '
           'ends in a byte that is neither blank nor line feed followed by at most one line feed), '
           'C10_indent_link (n = the reference depth token_depth of Spec/TokenDepth.v at the token the run ends at, for every run that '
           'holds a newline token - the only runs after which a token can begin a line: C10_line_start_needs_newline) and C10_indent '
           '(a token that begins a line is preceded by exactly indentwidth x token_depth spaces) - the last two for trees without a '
           'trailing table field separator (the counter is known to differ there; C10_indent_trailing_sep_refuted) and token lists whose '
           'space / comment tokens do not end a line (trivia_tidy, true of the lexer, observed on every run); a one-line if with an else '
           'part is no exclusion any more (the counter differs from the reference depth only inside its line); token_depth is a function '
           'of the INPUT token list (the rules of Spec/FmtShape.v restated '
           'on lexer tokens, agreement lemmas tok_depth_at_agrees / tok_depth_after_agrees) - that re-reading the OUTPUT text gives the '
           'same tokens and hence the same depth is observed by the monitor, not proved; C10_output_form (inside the domain, without a '
           'trailing table field separator, token lists in which a run without a newline token holds no line end - gaps_tidy: luafmt '
           'writes exactly ref_fmt (gap_fmt w) ts, the token-level reference formatter of Spec/ReindentSpec.v: every significant token '
           'with its own code, the run in front of it rewritten by the pipeline with at_start / at_end and the reference depth of the '
           'token) and C10_reindent_invariant (two token lists inside that domain with the same significant tokens whose runs at '
           'corresponding places agree after canon_ws and the removal of blanks at line edges - reindent_equiv - are formatted to the '
           'same text): re-indentation invariance at TOKEN level; C10_idempotent_tokens (a token list inside that domain that is spelled '
           'as the reference formatting of some token list - formatted_as: same significant tokens, every run spelled as the pipeline '
           'rewrites the run at the same place - is written back byte for byte): idempotence at TOKEN level; C10_idempotent: idempotence on TEXTS for the models (source of the reference dialect, lexer model, '
           'parser model, writer model: the lexer model reads luafmt output into a formatted_as token list, gaps_tidy again; the parse of '
           'the second pass and its domain - writable, no trailing separator - stay hypotheses: the parser on re-spaced tokens is not '
           'proved); C10_reindent_bytes: re-indentation invariance from source BYTES with the monitor\'s own relation as the hypothesis '
           '(Spec.FmtShape.same_modulo_line_edges src1 src2 = Some true; both sources in the reference dialect, lexed, parsed to the end, '
           'writable, no trailing separator, gaps_tidy - the parse of the second layout stays a hypothesis); it composes '
           'C10_edges_to_ref_equiv (same_modulo_line_edges -> ref_reindent_equiv, no restriction on the sources: the two reference '
           'readers Spec/FmtShape.v and Spec/LuaLex.v agree on where white space, line ends, comments and strings are - '
           'C10_readers_agree_on_trivia - the code bytes between are the same and are read as the same tokens, edge_norm against '
           'strip_line_edges o canon_ws run by run) with C10_reindent_bytes_partial (the relation stated on the REFERENCE tokens, '
           'ref_reindent_equiv: same code tokens of Spec/LuaLex.v, runs equal after canon_ws and the removal of line-edge blanks); C10_lexer_trivia_tidy: trivia_tidy holds of all lexer output (C10_indent_text: C10_indent from bytes '
           'without it); gaps_tidy does NOT hold of all lexer output (C10_gaps_tidy_not_for_every_source: a two-line block comment in '
           'the middle of a line) and stays a hypothesis, as does codes_tidy (multi-line strings); proved and '
           'unbounded: every run-level statement about the white-space pipeline, the whole-output clauses relative to an abstract '
           'chunk list (C10_*_partial). For VALID programs the parser / domain hypotheses are discharged from a derivation in the '
           'reference grammar (vsrc: derives, line_scoped, excl = the side condition of C08_complete, g_no_paren_suffix = finding '
           'C09-paren-suffix-assert, g_no_trailing_sep): C10_output_form_valid, C10_indent_valid, C10_reindent_invariant_valid (both '
           'layouts), C10_idempotent_valid (idempotence in full: luafmt succeeds, its text is lexed and parsed again and the second pass '
           'writes the same text; no hypothesis about the second pass; behind it the lemma ValidDomainIdem2.output_valid (the text luafmt writes for a valid program '
           'with tidy gaps is again a valid program within the same conditions, with tidy gaps: the derivation of the input with its '
           'leaves re-indexed along formatted_as - Proofs/ValidDomainIdem1.v sim_all, ValidDomainIdem2.v)); C10_idempotent_valid_partial '
           '(the second pass for ANY derivation of the re-lexed text) is kept. Left as hypotheses of the _valid theorems: vsrc '
           '(incl. excl, g_no_paren_suffix, g_no_trailing_sep) and gaps_tidy / codes_tidy of the token list')
ASSUMPTIONS = ['indentwidth is an integer (0-8 in the monitor domain); programs are those on which luafmt succeeds (C09 covers success)',
               'interior lines of multi-line block comments and long strings are token content, not layout: re-indentations leave them alone',
               'blank lines before the first line of the file are not "separating lines" (the output may start with up to two)']
CLAIM = dict(
    text=("The theorems of Properties/C10.v (Coq, closed under the global context) about fmt_run, the model of the 15-step re.sub "
          "pipeline of LuaFormatterWriter._get_code_for_spaces, for white-space/comment runs of EVERY length, every indent width and "
          "depth, at the start / middle / end of the file: C10_run_canonical_form (exact line-by-line form of the output), "
          "C10_run_depends_on_norm (runs equal modulo blanks at line edges are formatted identically: re-indentation invariance "
          "of a run; C10_run_depends_on_norm_end: at the end of the file also modulo the blanks that end the last line), C10_run_indent (the token after the run sits at exactly indentwidth x depth spaces), "
          "C10_run_no_trailing_blank, C10_run_blank_lines (never three line feeds in a row), C10_run_end_of_file, "
          "C10_run_keeps_comment_text (only white space moves), C10_run_idempotent (formatting a formatted run changes "
          "nothing); and four theorems about the whole output as a list of writer chunks (C10_indent_partial, C10_first_line_partial, "
          "C10_shape_partial, C10_reindent_partial) that reduce the whole-program clauses to facts about the writer walk, two about "
          "the model of the walk itself (Model/AstWriter.v): the nesting counter is balanced and never negative "
          "(C10_walk_indent_balanced, C10_writer_indent_nonneg), and two whole-program theorems for trees built by the parser model "
          "inside the writer domain of C09_aligned with tidy token codes: C10_shape (the whole luafmt output has no line ending in a "
          "blank and never three line feeds in a row) and C10_indent_counter_partial (every code token that begins a line is preceded "
          "by exactly indentwidth x n spaces, n >= 0 the nesting counter at its white-space run), obtained by discharging the "
          "hypotheses separated / codes_ok / no_end of the chunk theorems from the alignment proof (Proofs/AstWriterLines.v), likewise "
          "C10_first_line (a prefix of the output that is blanks only, without a line feed, is empty) and C10_no_blank_lines_at_end (the "
          "whole output is empty, a single line feed, or ends in a non-blank byte followed by at most one line feed); and, for trees "
          "without a trailing table field separator, C10_indent_link (every non-empty "
          "white-space run handed to _get_code_for_spaces ends at a significant token i and, if it holds a newline token, is passed "
          "_indent = token_depth ts i, the "
          "number of blocks and brackets open at token i of the input by the reference rules of Spec/FmtShape.v restated on lexer tokens "
          "in Spec/TokenDepth.v; one-line ifs with an else part included: what follows the condition of a one-line if holds no newline "
          "token - the parser's fence), C10_line_start_needs_newline (a run of tokens that do not end a line whose formatted text ends "
          "in line feed + blanks holds a newline token) and C10_indent (token lists whose space / comment tokens do not end a line, "
          "trivia_tidy: a code token i that begins a line of the output is preceded by exactly indentwidth x "
          "token_depth ts i spaces); C10_output_form (luafmt's output is ref_fmt (gap_fmt w) ts of Spec/ReindentSpec.v - a function of "
          "the significant tokens, the runs between them, their position flags and the reference depth), C10_ref_fmt_reindent and "
          "C10_reindent_invariant (token lists with the same significant tokens and runs equal modulo line-edge blanks, both inside the "
          "domain, are formatted to the same text; non-vacuity: two layouts of a nested program with a one-line if with else, comments, "
          "blank-line runs, tabs); C10_formatted_fixed and C10_idempotent_tokens (a token list inside the domain that is spelled as the "
          "reference formatting of some token list is written back byte for byte: formatting formatted code changes nothing, given "
          "that the output re-lexes to such tokens); C10_idempotent (from source bytes, for the models: a byte string of the reference "
          "dialect, lexed by the lexer model, parsed to the end inside the domain, no trailing separator, gaps_tidy: the text luafmt "
          "writes is read by the lexer model into a token list that is formatted_as the input's and gaps_tidy again, and whenever the "
          "parser model reads it to the end inside the domain luafmt writes the same text again; Proofs/FmtRelexIdem.v on top of the "
          "re-lexing theorem of C09_same_code); C10_lexer_trivia_tidy, C10_indent_text, C10_lexer_reindent_equiv and "
          "C10_reindent_bytes_partial (re-indentation invariance from source bytes for two sources whose reference token lists have the "
          "same code tokens and runs equal modulo line-edge blanks; Proofs/FmtRelexReindent.v); C10_edges_to_ref_equiv (two sources of "
          "the reference dialect related by the monitor's byte-level test Spec.FmtShape.same_modulo_line_edges = Some true have such "
          "reference token lists; Proofs/FmtShapeBridge*.v: both reference readers refine one skeleton reader, "
          "C10_readers_agree_on_trivia) and C10_reindent_bytes (their composition: the re-indentation clause from source bytes with "
          "same_modulo_line_edges as the hypothesis relating the two sources, both parses inside the writer domain); "
          "C10_output_form_valid, C10_indent_valid, "
          "C10_reindent_invariant_valid, C10_idempotent_valid, C10_idempotent_valid_partial (the same for every source of the dialect whose lexer tokens have a "
          "derivation in the reference grammar within excl / g_no_paren_suffix / g_no_trailing_sep: parse, domain and no_trailing_sep follow - "
          "Proofs/ValidDomain1..6.v, ValidDomainC10.v; for idempotence the second pass is covered too: the re-lexed text of luafmt has the derivation of the input "
          "with its leaves re-indexed, within the same conditions - ValidDomainIdem2.output_valid, Proofs/ValidDomainIdem1.v, ValidDomainIdem2.v); proved by re-running the walk induction with the counter and the token-stream depth state threaded "
          "(Proofs/TokenDepthProofs.v, WriterCursorD.v, AstWriterDepth.v, FmtLineEnd.v). Regex sources, guards, replacement expressions, order, and the whole function text "
          "are regenerated from lua.py on every run and pinned. Tie: the extracted model equals the real method on ALL runs of length "
          "<= 5 (thorough 6) over {space,tab,\\n,\\r,-,/,a} x 4 positions x 3 (width,depth), on random long runs, and on every "
          "_get_code_for_spaces call made inside real luafmt runs on generated programs; the extracted holds_C10 (reference reader "
          "Spec/FmtShape.v: lines, code tokens, block/bracket depth) is evaluated on real luafmt output for program x re-indentations x "
          "widths 0-8: outputs equal, fmt(fmt)=fmt, indentation = width x depth on every code line, no trailing white space, no "
          "double blank line, no blank line at the end."),
    note=("PARTIAL: indentation = width x syntactic depth is proved (C10_indent) with the depth computed on the INPUT tokens, outside "
          "one exclusion (a trailing table field separator - there the "
          "statement is false: `x={1 / ,}` is written with the comma at column 0, C10_indent_trailing_sep_refuted, same on the real "
          "luafmt); re-indentation invariance is proved at TOKEN level (C10_reindent_invariant: same significant tokens, runs equal "
          "modulo line-edge blanks; both layouts parsed to the end inside the writer domain) and from source BYTES with the monitor's "
          "byte-level relation same_modulo_line_edges as the hypothesis (C10_reindent_bytes; that the second layout parses inside the "
          "domain stays a hypothesis); that the depth read back from the OUTPUT text is the same, and "
          "that luafmt's output re-lexes to a token list spelled as the formatting (the hypothesis formatted_as of the token-level "
          "idempotence theorem C10_idempotent_tokens) are OBSERVED by the extracted monitor on real output (outputs equal, fmt(fmt)=fmt), "
          "not proved: they need the lexer on re-indented / written text. Three genuine "
          "defects found by this check were fixed in picotool (fix: commits, findings/known_C10.json): white-space-only line / "
          "non-idempotence after an empty line inside a block; `//` comment lines kept their input indentation; a file without final "
          "newline got one only if blanks followed its last token. Trusted: Coq "
          "kernel+VM, the hand-written regex scanners (pinned to the regenerated sources; compared exhaustively with Python re on "
          "short runs), ExtrOcamlBasic extraction, OCaml glue, the reference reader Spec/FmtShape.v, the program/layout generator."),
    technique='Coq proof about hand-written regex scanners pinned to regenerated sources + extracted-model correspondence + extracted monitor',
    design_ref='8 C10')

WIDTHS = list(range(9))


# ------------------------------------------------------------------------------------ program layouts
class Gen10(pgen.Gen):
    """pgen's generator without parenthesised prefixes followed by a suffix ((f or g)(x), (a).b):
    the writer raises AssertionError on those (C09's finding), so they are outside C10's domain."""
    def prefixexp(self, d, want=None, allow_paren=True):
        if want is None and allow_paren and self.chance(0.15) and d < self.maxdepth:
            self.p.features.add('paren-exp')
            return self.paren(d + 1)
        return pgen.Gen.prefixexp(self, d, want, allow_paren=False)


def _first_tok(t):
    k = t[0]
    if k in ('T', 'W'):
        return t[1]
    if k == 'P':
        return t[1]
    if k == 'N':
        xs = [_first_tok(x) for x in t[3]]
    elif k == 'L':
        xs = [_first_tok(x) for x in t[1]]
    elif k == 'H':
        return _first_tok(t[1])
    else:
        return None
    xs = [x for x in xs if x is not None]
    return min(xs) if xs else None


def _stat_starts(t, acc):
    k = t[0]
    if k == 'N':
        if t[1] == pgen.TAG['Chunk']:
            for it in t[3][0][1]:
                if it[0] == 'N':
                    f = _first_tok(it)
                    if f is not None:
                        acc.add(f)
        for x in t[3]:
            _stat_starts(x, acc)
    elif k == 'L':
        for x in t[1]:
            _stat_starts(x, acc)
    elif k == 'P':
        _stat_starts(t[3], acc)
    elif k == 'H':
        _stat_starts(t[1], acc)


COMMENT_LINES = [b'-- c', b'--', b'// c', b'//x', b'--[[c]]', b'-- x  y', b'--\tt', b'//--', b'--//', b'--[[ a b ]] -- z',
                 b'-- if (a) b=1', b'---', b'////']
ML_COMMENTS = [b'--[[a\nb]]', b'--[[\n  x\n]]', b'--[[ a\n   -- b\n\n  c ]]']
TRAIL_COMMENTS = [b'-- c', b'// c', b'--[[c]]', b'--', b'//']
CLOSERS = (b'end', b'else', b'elseif', b'until')


def _wordish(c):
    return c in b'._' or 48 <= c <= 57 or 65 <= c <= 90 or 97 <= c <= 122 or c >= 128


def _may_glue(a, b):
    """no separator only where the junction cannot be misread by any Lua lexer: not between two
    word-like bytes (`0end` is a malformed numeral in Lua although picotool splits it; Lua 5.1 rejects `0then` too)"""
    if _wordish(a[1][-1]) and _wordish(b[1][0]):
        return False
    return pgen.can_glue(a, b)


def skeleton(p, rng, extended):
    """The program with its line breaks: list of physical-line *contents* (bytes without edge white
    space; b'' = blank line; may contain interior newlines for multi-line tokens), independent of
    indentation.  Inner-line spacing is part of the content."""
    toks = p.toks
    n = len(toks)
    starts = set()
    _stat_starts(p.tree, starts)
    lines = []
    cur = []
    bracket = 0

    def flush():
        lines.append(b''.join(cur))
        del cur[:]
    for g in range(n):
        c = p.gap.get(g)
        text = toks[g][1]
        brk = False
        if g == 0:
            brk = False
        elif c == 'nonl':
            brk = False
        elif c == 'nl' or g in starts or text in CLOSERS:
            brk = True
        elif extended and bracket > 0 and rng.random() < 0.3 and toks[g - 1][1] in (b'{', b'(', b',', b';', b'[') \
                or (extended and bracket > 0 and text in (b'}', b')') and rng.random() < 0.3):
            brk = True
        if g == 0:
            # lines before the first token
            for _ in range(rng.choice([0, 0, 0, 1, 2, 3])):
                lines.append(rng.choice([b'', b''] + COMMENT_LINES))
        elif brk:
            if rng.random() < 0.12:
                cur.append(rng.choice([b' ', b'  ', b'']) + rng.choice(TRAIL_COMMENTS))
            flush()
            for _ in range(rng.choice([0, 0, 0, 0, 0, 1, 1, 2, 3, 4])):
                r = rng.random()
                if r < 0.55:
                    lines.append(b'')
                elif r < 0.95 or not extended:
                    lines.append(rng.choice(COMMENT_LINES))
                else:
                    lines.append(rng.choice(ML_COMMENTS))
        else:
            glue = _may_glue(toks[g - 1], toks[g])
            r = rng.random()
            if r < 0.12 and glue:
                sep = b''
            elif r < 0.85:
                sep = b' '
            elif r < 0.93:
                sep = b'  '
            elif r < 0.97:
                sep = b'\t'
            else:
                sep = b' --[[c]] '
            cur.append(sep)
        cur.append(text)
        if text in (b'{', b'(', b'['):
            bracket += 1
        elif text in (b'}', b')', b']'):
            bracket -= 1
    if rng.random() < 0.12:
        cur.append(b' ' + rng.choice(TRAIL_COMMENTS))
    flush()
    for _ in range(rng.choice([0, 0, 0, 1, 2, 3])):
        lines.append(rng.choice([b'', b'', b''] + COMMENT_LINES))
    return lines


def _edge(rng, style):
    if style == 'none':
        return b''
    if style == 'spaces':
        return b' ' * rng.choice([0, 0, 1, 2, 3, 4, 7])
    return rng.choice([b'', b'', b' ', b'  ', b'\t', b'    ', b' \t ', b'\t\t', b'      ', b'   '])


def render(lines, rng, style, eol=b'\n'):
    out = []
    for ln in lines:
        out.append(_edge(rng, style) + ln + _edge(rng, style) + eol)
    return b''.join(out)


def make_program(rng, tier, extended):
    md, sz = rng.choice([2, 3, 3, 4]), rng.choice([2, 4, 6, 9])
    try:
        p = Gen10(rng, maxdepth=md, size=sz).program()
    except (TypeError, AttributeError):
        # pgen.py (worker parser) changed its internals: use its public entry point; programs on which luafmt
        # raises (parenthesised call prefixes) are then counted as outside
        p = pgen.generate_program(rng, maxdepth=md, size=sz)
    lines = skeleton(p, rng, extended)
    return p, lines


def prog_case(rng, tier, extended, nlay):
    p, lines = make_program(rng, tier, extended)
    eol = b'\r\n' if rng.random() < 0.06 else b'\n'
    styles = ['none', 'mixed', 'spaces', 'mixed', 'mixed', 'spaces', 'mixed', 'mixed', 'mixed']
    srcs = [render(lines, rng, styles[i % len(styles)], eol) for i in range(nlay)]
    return {'kind': 'prog', 'w': rng.choice(WIDTHS), 'srcs': [s.hex() for s in srcs],
            'features': sorted(p.features) + (['extended-layout'] if extended else []) + (['crlf'] if eol != b'\n' else [])}


def nofinal_case(rng, tier):
    p, lines = make_program(rng, tier, False)
    while lines and lines[-1] == b'':
        lines.pop()
    body = render(lines[:-1], rng, 'none')
    last = lines[-1] if lines else b'x=1'
    srcs = [body + last, body + last + rng.choice([b' ', b'  ', b'\t', b' \t ']),
            render(lines[:-1], rng, 'mixed') + _edge(rng, 'mixed') + last + b'   ']
    return {'kind': 'prog', 'w': rng.choice(WIDTHS), 'srcs': [s.hex() for s in srcs],
            'features': sorted(p.features) + ['no-final-newline']}


# ------------------------------------------------------------------------------------ cases
def _rand_run(rng):
    parts = []
    for _ in range(rng.randrange(1, 9)):
        r = rng.random()
        if r < 0.3:
            parts.append(b' ' * rng.randrange(1, 6))
        elif r < 0.55:
            parts.append(rng.choice([b'\n', b'\n', b'\n\n', b'\r\n', b'\r', b'\n\r', b'\n\n\n', b'\n \n']))
        elif r < 0.65:
            parts.append(b'\t')
        elif r < 0.9:
            parts.append(rng.choice(COMMENT_LINES + ML_COMMENTS + [b'-- a\r', b'--[[x]]']))
        else:
            parts.append(bytes(rng.choice(ALPHABET) for _ in range(rng.randrange(1, 5))))
    return b''.join(parts)


def generate(tier, rng):
    maxlen = 5 if tier == 'quick' else 6
    for n in range(maxlen + 1):
        if n <= 3:
            yield {'kind': 'runs', 'len': n, 'prefix': ''}
        else:
            for a in ALPHABET:
                for b in ALPHABET:
                    yield {'kind': 'runs', 'len': n, 'prefix': bytes([a, b]).hex()}
    nr = 3000 if tier == 'quick' else 60000
    for i in range(0, nr, 500):
        yield {'kind': 'runs-random', 'runs': [_rand_run(rng).hex() for _ in range(500)]}
    nprog, nlay = (300, 4) if tier == 'quick' else (3000, 8)
    for i in range(nprog):
        yield prog_case(rng, tier, extended=(i % 4 == 3), nlay=nlay)
    # files without a final newline (the AST writers raise IndexError on them before the S16 fix of worker parser:
    # then these cases are outside, C09): layout 0 ends right after its last byte, layout 1 adds blanks there
    for i in range(15 if tier == 'quick' else 150):
        yield nofinal_case(rng, tier)
    # the command line path: `p8tool luafmt --indentwidth w cart.p8` (argument parsing, cart read, .p8 write)
    for i in range(12 if tier == 'quick' else 120):
        c = prog_case(rng, tier, extended=(i % 3 == 2), nlay=1)
        yield {'kind': 'cli', 'w': c['w'], 'srcs': c['srcs'], 'features': c['features'] + ['cli']}


def corpus_cases():
    def P(w, *srcs, note=''):
        return {'kind': 'prog', 'w': w, 'srcs': [s.hex() for s in srcs], 'features': ['corpus', note]}
    return [
        # S17: blank line before a token inside a block (was: white-space-only line, not idempotent)
        P(2, b'do\n\nx=1\nend\n', b'do\n   \nx=1\nend\n', b'  do \n\t\n  x=1  \nend\n', note='S17'),
        P(4, b'do\n\n\n\nx=1\nend\n', b'do\n \n  \n   \n     x=1\n end\n', note='S17'),
        # S18: // comment lines kept their indentation
        P(2, b'do\n// c\nx=1\n-- d\nend\n', b'do\n      // c\n x=1\n    -- d\n  end\n', note='S18'),
        P(3, b'// top\nx=1\n', b'   // top\n  x=1  \n', note='S18'),
        P(2, b'x=1\n\n\n\ny=2\n\n\n', b'x=1  \n \n\t\n  \n   y=2\n\n \n', note='blank runs'),
        P(2, b'f(\n1,\n2\n)\nt={\na=1,\n{\n2\n}\n}\n', b'f(\n  1,\n      2\n  )\n t={\n   a=1,\n {\n2\n    }\n  }\n', note='brackets'),
        P(8, b'function f(a)\nif a then\nreturn 1\nelseif b then\nreturn 2\nelse\nreturn 3\nend\nend\n',
          b'function f(a)\n        if a then\n  return 1\n elseif b then\nreturn 2\n   else\n return 3\n\tend\n  end\n', note='if chain'),
        P(0, b'repeat\nx=1\nuntil x\n', b'  repeat\n    x=1\n  until x\n', note='width 0'),
        P(2, b'x=[[a  \n\n\n  b]]\ny=1\n', b'  x=[[a  \n\n\n  b]]  \n   y=1\n', note='long string content'),
        P(2, b'if (a) x=1 else y=2\nz=3\n', b'   if (a) x=1 else y=2  \n z=3\n', note='short if'),
        # a one-line if whose else has no statements after it (the parser drops the empty else, the writer re-emits its
        # tokens): the lines that follow keep their depth
        P(2, b'do\nif (a) x=1 else\ny=2\nwhile b do\nz=3\nend\nend\nw=4\n',
          b'do\n   if (a) x=1 else  \n y=2\n      while b do\nz=3\n  end\n end\n    w=4\n', note='short if, empty else'),
        P(4, b'function f()\nif (a) x=1 else ;\nif (b) y=2 else -- c\nreturn {\n1,\n2\n}\nend\n',
          b'function f()\n if (a) x=1 else ;\n      if (b) y=2 else -- c\n return {\n 1,\n   2\n  }\n   end\n', note='short if, empty else'),
        P(1, b'if (a) x=1 else\ny=2\n', b'  if (a) x=1 else\n    y=2\n', note='short if, empty else'),
        # third fix: a file without a final newline; blanks after the last token / comment
        P(2, b'x=1\n-- c', b'x=1\n-- c  ', b'  x=1 \n\t-- c \t', note='no final newline'),
        P(4, b'do\nx=1\nend --[[c]]', b'do\n  x=1\nend --[[c]]   ', note='no final newline'),
        P(2, b'x=1', b'x=1  ', note='no final newline (needs the S16 fix; else outside)'),
    ]


# ------------------------------------------------------------------------------------ implementation
_W = {}


def _writers():
    if not _W:
        from pico8.lua import lua
        _W['f'] = lua.LuaFormatterWriter(tokens=[], root=None, args={'indentwidth': 2})
        _W['m'] = lua.LuaMinifyWriter(tokens=[], root=None, args={})
    return _W['f'], _W['m']


POSITIONS = ((0, 0), (1, 0), (0, 1), (1, 1))
WD = ((2, 0), (2, 1), (3, 2))


def impl_fmt_run(at_start, at_end, width, depth, run):
    from pico8.lua import lexer
    wf, _ = _writers()
    toks = []
    if not at_start:
        toks.append(lexer.TokName(b'x'))
    toks.append(lexer.TokComment(run))
    if not at_end:
        toks.append(lexer.TokName(b'y'))
    wf._tokens = toks
    wf._pos = 0 if at_start else 1
    wf._indent = depth
    wf._indent_mult = width
    return wf._get_code_for_spaces(None)


def impl_min_run(at_start, at_end, run):
    from pico8.lua import lexer
    _, wm = _writers()
    toks = []
    if not at_start:
        toks.append(lexer.TokName(b'x'))
    toks.append(lexer.TokSpace(run))
    if not at_end:
        toks.append(lexer.TokName(b'y'))
    wm._tokens = toks
    wm._pos = 0 if at_start else 1
    return wm._get_code_for_spaces(None)


def _runs_of(case):
    if case['kind'] == 'runs-random':
        return [bytes.fromhex(h) for h in case['runs']]
    pre = bytes.fromhex(case['prefix'])
    n = case['len'] - len(pre)
    return [pre + bytes(t) for t in itertools.product(ALPHABET, repeat=n)]


_REC = {}


def _recording_writer():
    """LuaFormatterWriter subclass that records every _get_code_for_spaces call as
    (start_pos == 0, pos == len(tokens), indent_mult, indent, joined run, result)."""
    if 'cls' not in _REC:
        from pico8.lua import lua

        class Rec(lua.LuaFormatterWriter):
            calls = None
            link = None      # [(index of the token that follows a non-empty run, _indent passed with the run)]
            order = None     # [(start, end)] of the calls with a non-empty run, in call order

            def _get_code_for_spaces(self, node):
                start = self._pos
                res = super()._get_code_for_spaces(node)
                run = b''.join(t.code for t in self._tokens[start:self._pos])
                Rec.calls.add((start == 0, self._pos == len(self._tokens), self._indent_mult, self._indent,
                               bytes(run), bytes(res)))
                if Rec.link is not None and self._pos > start and self._pos < len(self._tokens):
                    Rec.link.append((self._pos, self._indent))
                if Rec.order is not None and self._pos > start:
                    Rec.order.append((start, self._pos))
                return res
        _REC['cls'] = Rec
    return _REC['cls']


def _chunk_hypotheses(tokens, order):
    """the hypotheses of C10_indent_partial / C10_shape_partial observed on a real run: -> None | what fails
    separated: two non-empty white-space runs are never consumed without a code token between them;
    no_end: a run that reaches the end of the token list is the last one; codes_ok: a code token's text is not
    empty, does not begin with a line feed, does not end in a blank or a line feed; trivia_tidy (C10_indent): a space or
    comment token does not end a line - no CR / LF byte of its code is followed by blanks only up to the end of the code;
    gaps_tidy (C10_output_form / C10_reindent_invariant): a run of space / comment tokens without a newline token holds no
    CR / LF byte at all"""
    import re
    from pico8.lua import lexer
    prev_end = None
    for k, (a, b) in enumerate(order):
        if prev_end is not None and a <= prev_end:
            return 'separated: runs [..%d) and [%d..%d) are adjacent' % (prev_end, a, b)
        if b == len(tokens) and k != len(order) - 1:
            return 'no_end: a run reaching the end is followed by another'
        prev_end = b
    gap, gap_nl = b'', False
    for t in list(tokens) + [None]:
        if t is not None and isinstance(t, (lexer.TokSpace, lexer.TokNewline, lexer.TokComment)):
            gap += bytes(t.code)
            gap_nl = gap_nl or isinstance(t, lexer.TokNewline)
        else:
            if not gap_nl and (b'\n' in gap or b'\r' in gap):
                return 'outside gaps_tidy'      # a layout outside the domain of C10_reindent_invariant, not a defect
            gap, gap_nl = b'', False
    for t in tokens:
        if isinstance(t, (lexer.TokSpace, lexer.TokNewline, lexer.TokComment)):
            if not isinstance(t, lexer.TokNewline) and re.search(br'[\r\n][ \t]*\Z', bytes(t.code)):
                return 'trivia_tidy: token code %r' % bytes(t.code)[-20:]
            continue
        c = bytes(t.code)
        if not c or c[0] == 10 or c[-1] in (32, 10):
            return 'codes_ok: token code %r' % c[:20]
    return None


def _short_if_token_ranges(root):
    """token index ranges [start_pos, end_pos) of the PICO-8 short-if statements of the implementation's tree"""
    from pico8.lua import parser
    out = []

    def rec(v):
        if isinstance(v, parser.Node):
            if getattr(v, 'short_if', False):
                out.append((v.start_pos, v.end_pos))
            for f in v._fields:
                rec(getattr(v, f))
        elif isinstance(v, (list, tuple)):
            for x in v:
                rec(x)
    rec(root)
    return out


_HIST = [0]


def luafmt(src, w, record=None, link=None):
    """-> ('OK', bytes) | ('ERR', name).  link: list that receives (byte offset in src of a code token that
    follows a non-empty white-space run, the writer's _indent at that run)"""
    from pico8.lua import lua
    cls = lua.LuaFormatterWriter
    if record is not None:
        cls = _recording_writer()
        cls.calls = record
        cls.link = [] if link is not None else None
        cls.order = [] if link is not None else None
    try:
        l = lua.Lua.from_lines([src], version=8)
        out = b''.join(l.to_lines(writer_cls=cls, writer_args={'indentwidth': w}))
        if record is None:
            # every third plain call: the same text through a Lua object that is not fresh - it has been echoed, asked
            # for its character count and formatted at another width before.  The result must not depend on that history.
            _HIST[0] += 1
            if _HIST[0] % 3 == 0:
                l2 = lua.Lua.from_lines([src], version=8)
                b''.join(l2.to_lines())
                l2.get_char_count()
                b''.join(l2.to_lines(writer_cls=lua.LuaFormatterWriter, writer_args={'indentwidth': (w + 3) % 9}))
                out2 = b''.join(l2.to_lines(writer_cls=lua.LuaFormatterWriter, writer_args={'indentwidth': w}))
                if out2 != out:
                    return 'ERR', 'depends-on-the-history-of-the-Lua-object'
        if link is not None and record is not None:
            starts = [0]
            for k, ch in enumerate(src):
                if ch == 10:
                    starts.append(k + 1)
            link.append(('hyp', _chunk_hypotheses(l.tokens, cls.order)))
            short = _short_if_token_ranges(l.root)
            for idx, ind in cls.link:
                t = l.tokens[idx]
                if t._lineno is not None and t._lineno < len(starts):
                    link.append((starts[t._lineno] + t._charno, ind, any(a <= idx < b for a, b in short)))
        return 'OK', out
    except RecursionError:
        return 'ERR', 'RecursionError'
    except Exception as e:  # noqa
        return 'ERR', lib.exc_name(e)


def run_cli(case):
    """-> observation shaped like a 'prog' one: layout = the code as p8tool reads it from the cart, out 1 = code of
    the cart written by `p8tool luafmt --indentwidth w`, out 2 = Lua.to_lines(LuaFormatterWriter) on the same code"""
    from pico8 import tool
    from pico8.game import file as gfile
    from pico8.game import game as ggame
    from pico8.lua import lua
    w = case['w']
    src = bytes.fromhex(case['srcs'][0])
    d = os.path.join(lib.VERIF, 'work', 'c10_cli')
    os.makedirs(d, exist_ok=True)
    path = os.path.join(d, 'cart_%d.p8' % os.getpid())
    outp = path[:-3] + '_fmt.p8'
    for f in (path, outp):
        if os.path.exists(f):
            os.remove(f)
    obs = {'outs': [('ERR', 'setup')], 'again': None, 'calls': set(), 'seen': None}
    try:
        g = ggame.Game.make_empty_game(filename=path)
        g.lua = lua.Lua.from_lines([src], version=g.lua.version)
        gfile.to_file(g, filename=path)
        seen = b''.join(gfile.from_file(path).lua.to_lines())
    except Exception as e:  # noqa  (cart not writable / readable: not C10's business)
        obs['outs'] = [('ERR', 'cart-setup-' + lib.exc_name(e))]
        return obs
    obs['seen'] = seen
    direct = luafmt(seen, w)
    if direct[0] != 'OK':
        obs['outs'] = [direct]
        return obs
    try:
        rc = tool.main(['-q', 'luafmt', '--indentwidth', str(w), path])
        if rc != 0 or not os.path.exists(outp):
            cli = ('ERR', 'p8tool-exit-%s' % rc)
        else:
            cli = ('OK', b''.join(gfile.from_file(outp).lua.to_lines()))
    except SystemExit as e:
        cli = ('ERR', 'SystemExit-%s' % e.code)
    except Exception as e:  # noqa
        cli = ('ERR', lib.exc_name(e))
    finally:
        for f in (path, outp):
            if os.path.exists(f):
                os.remove(f)
    obs['outs'] = [cli, direct]
    if cli[0] == 'OK':
        obs['again'] = luafmt(cli[1], w)
    else:
        obs['outs'] = [direct, cli]     # the direct call worked, the command line did not: reported as a difference
        obs['again'] = luafmt(direct[1], w)
    return obs


def run_impl(case):
    if case['kind'] == 'cli':
        return run_cli(case)
    if case['kind'] in ('runs', 'runs-random'):
        rows = []
        for run in _runs_of(case):
            for (a, e) in POSITIONS:
                for (w, d) in WD:
                    rows.append(('fmt %d %d %d %d %s' % (a, e, w, d, lib.hx(run)), lib.hx(impl_fmt_run(a, e, w, d, run))))
                rows.append(('min %d %s' % (1 if (a or e) else 0, lib.hx(run)), lib.hx(impl_min_run(a, e, run))))
        return {'rows': rows}
    w = case['w']
    srcs = [bytes.fromhex(h) for h in case['srcs']]
    calls = set()
    link = []
    outs = [luafmt(s, w, record=calls, link=(link if k == 0 else None)) for k, s in enumerate(srcs)]
    obs = {'outs': outs, 'again': None, 'calls': calls, 'link': link}
    if outs[0][0] == 'OK':
        obs['again'] = luafmt(outs[0][1], w, record=calls)
    return obs


def _enc(res):
    """a formatter result as monitor bytes: an exception is a text no formatter output can equal"""
    if res[0] == 'OK':
        return lib.hx(res[1])
    return lib.hx(b'\x00luafmt raised ' + res[1].encode())


def model_requests(case, obs):
    if case['kind'] in ('runs', 'runs-random'):
        return [r for r, _ in obs['rows']]
    return ['fmt %d %d %d %d %s' % (1 if a else 0, 1 if e else 0, w, d, lib.hx(run))
            for (a, e, w, d, run, res) in sorted(obs['calls'])]


def compare(case, obs, answers):
    if case['kind'] in ('runs', 'runs-random'):
        for (r, exp), a in zip(obs['rows'], answers):
            if a != exp:
                return '%s: implementation %s, model %s' % (r, exp, a)
        return None
    for (a, e, w, d, run, res), ans in zip(sorted(obs['calls']), answers):
        if ans != lib.hx(res):
            return ('_get_code_for_spaces inside luafmt: start=%s end=%s width=%s indent=%s run=%r: implementation %r, model %r'
                    % (a, e, w, d, run, res, lib.unhx(ans) if not ans.startswith('DRIVER') else ans))
    return None


def monitor_requests(case, obs):
    """'code' requests; answers are verdict numbers (see Instances/HoldsC10.v)"""
    if case['kind'] not in ('prog', 'cli') or obs['outs'][0][0] != 'OK':
        return []
    w = case['w']
    srcs = case['srcs']
    if case['kind'] == 'cli':
        srcs = [obs['seen'].hex()] * len(obs['outs'])
    o1 = _enc(obs['outs'][0])
    again = _enc(obs['again'])
    reqs = []
    for k in range(len(srcs)):
        reqs.append('code %d %s %s %s %s %s' % (w, srcs[0] or '-', srcs[k] or '-', o1, _enc(obs['outs'][k]), again))
    return reqs


BITS = [(1, 'indent'), (2, 'trailing-ws'), (4, 'blank-run'), (8, 'blank-at-end'), (16, 'reindent'), (32, 'idempotent')]


def clause_names(code):
    return [n for b, n in BITS if code & b]


def signature_of(code, case, obs, k):
    """deterministic classifier of a violation"""
    names = clause_names(code)
    extra = ''
    if names == ['reindent'] and obs['outs'][k][0] == 'OK' and obs['outs'][0][0] == 'OK':
        a, b = obs['outs'][0][1], obs['outs'][k][1]
        src0 = bytes.fromhex(case['srcs'][0])
        if not src0.endswith((b'\n', b'\r')) and (b == a + b'\n' or a == b + b'\n'):
            # the file has no final newline: luafmt writes one exactly when blanks follow the last token
            return 'C10/reindent/final-newline-iff-trailing-blanks'
    if 'reindent' in names and obs['outs'][k][0] != 'OK':
        extra = '/raises-' + obs['outs'][k][1]
    elif 'idempotent' in names and obs['again'][0] != 'OK':
        extra = '/raises-' + obs['again'][1]
    return 'C10/' + '+'.join(names) + extra


def what_of(code, case, obs, k):
    return 'luafmt output violates: %s (width %d)' % (', '.join(clause_names(code)), case['w'])


def describe(case, obs):
    if case['kind'] == 'runs':
        return {'kind': 'runs', 'len': case['len'], 'prefix': case['prefix'], 'n': len(obs['rows'])}
    if case['kind'] == 'runs-random':
        return {'kind': 'runs-random', 'n': len(obs['rows']), 'first': case['runs'][:2]}
    d = {'kind': case['kind'], 'w': case['w'], 'features': case.get('features'),
         'src0': bytes.fromhex(case['srcs'][0]).decode('latin-1')[:400],
         'out0': (obs['outs'][0][1].decode('latin-1')[:400] if obs['outs'][0][0] == 'OK' else 'ERR ' + obs['outs'][0][1])}
    return d


# ------------------------------------------------------------------------------------ minimisation
def _violates(ctx, w, a, b, want_sig):
    """-> (code, sig) of the observation built from layouts a, b (bytes) or None"""
    case = {'kind': 'prog', 'w': w, 'srcs': [a.hex(), b.hex()]}
    obs = run_impl(case)
    if obs['outs'][0][0] != 'OK':
        return None
    reqs = monitor_requests(case, obs)
    ans = lib.run_driver(ctx['monitor_exe'], reqs)
    for k, x in enumerate(ans):
        try:
            code = int(x)
        except ValueError:
            continue
        if code > 0 and signature_of(code, case, obs, k) == want_sig:
            return code
    return None


def minimize_prog(ctx, case, k, sig, budget_s=20):
    """line-based ddmin on the pair (layout 0, layout k): remove the same physical lines from both"""
    t0 = time.time()
    w = case['w']
    a = bytes.fromhex(case['srcs'][0]).split(b'\n')
    b = bytes.fromhex(case['srcs'][k]).split(b'\n')
    if len(a) != len(b):
        return case
    idx = list(range(len(a)))

    def build(ix):
        return b'\n'.join(a[i] for i in ix), b'\n'.join(b[i] for i in ix)
    n = 2
    while len(idx) >= 2 and time.time() - t0 < budget_s:
        chunk = max(1, len(idx) // n)
        reduced = False
        for s in range(0, len(idx), chunk):
            cand = idx[:s] + idx[s + chunk:]
            if not cand:
                continue
            x, y = build(cand)
            try:
                ok = _violates(ctx, w, x, y, sig)
            except Exception:  # noqa
                ok = None
            if ok:
                idx = cand
                n = max(n - 1, 2)
                reduced = True
                break
        if not reduced:
            if chunk == 1:
                break
            n = min(len(idx), n * 2)
    x, y = build(idx)
    return {'kind': 'prog', 'w': w, 'srcs': [x.hex(), y.hex()], 'features': ['minimised']}


# ------------------------------------------------------------------------------------ the case loop
def run_cases(cases, ctx):
    t_impl = time.time()
    obs = []
    for c in cases:
        try:
            o = lib.with_alarm(120, run_impl, c)
        except lib.Timeout:
            o = {'timeout': True, 'rows': [], 'outs': [('ERR', 'Timeout')], 'again': None, 'calls': set()}
        obs.append(o)
    t_impl = time.time() - t_impl
    disagreements, violations = [], []
    hist = {}
    evaluations = 0
    nontrivial = set()

    def bump(k, n=1):
        hist[k] = hist.get(k, 0) + n

    # ---- correspondence
    if ctx.get('model_exe'):
        reqs, spans = [], []
        for c, o in zip(cases, obs):
            r = model_requests(c, o)
            spans.append((len(reqs), len(reqs) + len(r)))
            reqs.extend(r)
        ans = lib.run_driver_parallel(ctx['model_exe'], reqs)
        for c, o, (a, b) in zip(cases, obs, spans):
            d = compare(c, o, ans[a:b])
            evaluations += b - a
            if d is not None:
                disagreements.append({'case': c, 'summary': describe(c, o), 'difference': d})
    # ---- a shard of the correspondence evaluated inside Coq (vm_compute on the model itself: cross-checks
    #      the extraction and the OCaml glue)
    if ctx.get('model_exe') and ctx.get('tier') in ('quick', 'thorough'):
        d = coq_shard(cases, obs, 150 if ctx['tier'] == 'quick' else 600, ctx['seed'])
        if d is not None:
            disagreements.append({'case': None, 'summary': {'kind': 'in-coq-shard'}, 'difference': d})
        else:
            bump('in-coq-shard:ok')
    for c, o in zip(cases, obs):
        if c['kind'] in ('runs', 'runs-random'):
            bump('pipeline-calls:' + c['kind'], len(o['rows']))
            for r, _ in o['rows']:
                f = r.split(' ')
                if f[0] == 'fmt' and f[1] == '0' and f[2] == '0' and f[3] == '2' and f[4] == '1':
                    run = lib.unhx(f[5])
                    if b'\n' in run or b'\r' in run or b'--' in run or b'//' in run:
                        nontrivial.add(run)
        else:
            bump('pipeline-calls:inside-luafmt', len(o['calls']))
            for (a, e, w, d, run, res) in o['calls']:
                if b'\n' in run or b'\r' in run or b'--' in run or b'//' in run:
                    nontrivial.add(run)
    # ---- monitor
    if ctx.get('monitor_exe'):
        reqs, spans = [], []
        for c, o in zip(cases, obs):
            r = monitor_requests(c, o)
            spans.append((len(reqs), len(reqs) + len(r)))
            reqs.extend(r)
        ans = lib.run_driver_parallel(ctx['monitor_exe'], reqs)
        for c, o, (a, b) in zip(cases, obs, spans):
            if c['kind'] not in ('prog', 'cli'):
                continue
            if o['outs'][0][0] != 'OK':
                bump('prog:outside (luafmt raised %s: C09)' % o['outs'][0][1])
                continue
            for f in c.get('features') or []:
                if f:
                    bump('feature:' + f)
            bump('prog:width-%d' % c['w'])
            worst = None
            for k, x in enumerate(ans[a:b]):
                evaluations += 1
                try:
                    code = int(x)
                except ValueError:
                    code = None
                if code is None:
                    violations.append({'case': c, 'summary': describe(c, o), 'signature': 'C10/monitor-error', 'what': x,
                                       'observed': [x]})
                    continue
                if code < 0:
                    bump('observation:no-claim(%d)' % code)
                    continue
                bump('observation:in-domain')
                nontrivial.add((c['kind'], c['srcs'][0], c['srcs'][min(k, len(c['srcs']) - 1)]))
                if code > 0 and worst is None:
                    worst = (code, k)
            if worst is not None:
                code, k = worst
                violations.append({'case': c, 'summary': describe(c, o), 'signature': signature_of(code, c, o, k),
                                   'what': what_of(code, c, o, k), '_k': k,
                                   'observed': ['verdict %d: %s' % (code, ', '.join(clause_names(code)))]})
    # ---- the writer's _indent against the reference depth at every token that follows a run
    if ctx.get('monitor_exe'):
        reqs, owners = [], []
        for c, o in zip(cases, obs):
            if c['kind'] == 'prog' and o['outs'][0][0] == 'OK' and o.get('link'):
                hyp = [p[1] for p in o['link'] if p[0] == 'hyp']
                o['link'] = [p for p in o['link'] if p[0] != 'hyp']
                for h in hyp:
                    if h == 'outside gaps_tidy':
                        bump('chunk-hypotheses:run without newline token holds a line end (outside the domain of C10_reindent_invariant)')
                        continue
                    bump('chunk-hypotheses(separated,no_end,codes_ok,trivia_tidy,gaps_tidy):' + ('hold' if h is None else 'FAIL ' + h))
                    if h is not None and not any(d.get('summary', {}).get('kind') == 'hyp' for d in disagreements):
                        disagreements.append({'case': c, 'summary': {'kind': 'hyp'},
                                              'difference': 'a hypothesis of C10_indent_partial fails on a real luafmt run: ' + h})
                if not o['link']:
                    continue
                reqs.append('link %s %s' % (c['srcs'][0], ','.join('%d:%d' % (p[0], p[1]) for p in sorted(set(o['link'])))))
                owners.append((c, o))
        ans = lib.run_driver_parallel(ctx['monitor_exe'], reqs) if reqs else []
        for (c, o), a in zip(owners, ans):
            n = len(set(o['link']))
            if a == 'NONE' or a.startswith('DRIVER'):
                bump('link:no-claim')
                continue
            bad = [] if a == '-' else [int(x) for x in a.split(',')]
            bump('link:tokens-compared', n)
            bump('link:indent-equals-reference-depth', n - len(bad))
            src = bytes.fromhex(c['srcs'][0])
            in_short = {p[0] for p in o['link'] if p[2]}
            for off in bad:
                why = 'inside-a-short-if' if off in in_short else _classify_link_mismatch(src, off)
                bump('link:mismatch:' + why)
                if why.startswith('UNEXPLAINED') and not any(d.get('summary', {}).get('kind') == 'link' for d in disagreements):
                    # the writer's depth bookkeeping deviates from the syntactic depth at a token, outside the two known
                    # unobservable places: treated like a correspondence break (the search then looks for a layout that shows it)
                    disagreements.append({'case': c, 'summary': {'kind': 'link', 'src': src.decode('latin-1')[:300]},
                                          'difference': 'writer _indent differs from the reference depth at byte offset %d (%s)' % (off, why)})
    # ---- cross-check of the trusted reference reader (Spec/FmtShape.lex) against picotool's lexer on layout 0:
    #      comments and strings must be the same byte ranges, every picotool code token must start a reference token
    if ctx.get('monitor_exe') and ctx.get('tier') in ('quick', 'thorough'):
        owners = [(c, o) for c, o in zip(cases, obs) if c['kind'] == 'prog' and o['outs'][0][0] == 'OK'][:: 1 if ctx['tier'] == 'quick' else 4]
        ans = lib.run_driver_parallel(ctx['monitor_exe'], ['lex %s' % (c['srcs'][0] or '-') for c, o in owners]) if owners else []
        for (c, o), a in zip(owners, ans):
            why = _reader_crosscheck(bytes.fromhex(c['srcs'][0]), a)
            bump('reader-vs-picotool-lexer:' + (why or 'agree'))
            if why and not any(d.get('summary', {}).get('kind') == 'reader' for d in disagreements):
                disagreements.append({'case': c, 'summary': {'kind': 'reader', 'src': c['srcs'][0]},
                                      'difference': 'reference reader and picotool lexer disagree: ' + why})
    # minimise the smallest witness of each signature (at most 4 signatures, 12 s each)
    if violations and ctx.get('monitor_exe') and ctx.get('tier') != 'replay':
        best = {}
        for v in violations:
            sz = len(v['case']['srcs'][0])
            if v['signature'] not in best or sz < best[v['signature']][0]:
                best[v['signature']] = (sz, v)
        for sig, (_, v) in sorted(best.items())[:4]:
            if v['case']['kind'] != 'prog':
                continue
            try:
                mc = minimize_prog(ctx, v['case'], v['_k'], sig, budget_s=12)
                v['case'] = mc
                v['summary'] = describe(mc, run_impl(mc))
            except Exception:  # noqa
                pass
    for v in violations:
        v.pop('_k', None)
    samples = [describe(c, o) for c, o in list(zip(cases, obs))[:: max(1, len(cases) // 5)]][:6]
    return {'evaluations': evaluations, 'nontrivial': len(nontrivial), 'rule': RULE, 'samples': samples,
            'disagreements': disagreements, 'violations': violations, 'histogram': hist,
            'impl_seconds': round(t_impl, 2),
            'exhaustive': any(c['kind'] == 'runs' for c in cases)}


def _classify_link_mismatch(src, off):
    """why the writer's _indent differs from the reference depth at the token at `off` (never a line start in
    the layouts generated here, so not observable in the output)"""
    import re
    rest = src[off:off + 40]
    rest = src[off:off + 200]
    if re.match(rb'[,;]\s*(--\[\[.*?\]\]\s*|--[^\n]*\n\s*|//[^\n]*\n\s*)*\}', rest, re.S):
        # _walk_TableConstructor decrements _indent before the trailing field separator
        return 'trailing-field-separator'
    return 'UNEXPLAINED at %r' % (rest.split() or [b'<end of text>'])[0][:8].decode('latin-1')


def _reader_crosscheck(src, answer):
    """-> None | description.  answer = the monitor's `lex` reply for src"""
    from pico8.lua import lexer
    import props.pstack as pstack
    if answer == 'NONE' or answer.startswith('DRIVER'):
        return 'reference reader gives no reading'
    ref = []
    off = 0
    if answer != '-':
        for item in answer.split(','):
            k, h = item.split('.')
            n = 0 if h == '-' else len(h) // 2
            ref.append((int(k), off, n))
            off += n
    if off != len(src):
        return 'reference tokens do not tile the text'
    toks = pstack.lex(src)
    starts = [0]
    for i, ch in enumerate(src):
        if ch == 10:
            starts.append(i + 1)
    ref_ranges = {(o, n): k for k, o, n in ref}
    ref_starts = {o for k, o, n in ref if k >= 4}
    for t in toks:
        if t._lineno is None:
            continue
        o = starts[t._lineno] + t._charno
        if isinstance(t, lexer.TokComment):
            n = len(t._data)
            if bytes(t._data).endswith(b'\r'):
                n -= 1      # picotool's `--.*` takes the CR of a CRLF line end into the comment; Lua ends the comment before it
            if ref_ranges.get((o, n)) not in (2, 3):
                return 'comment %r at %d' % (bytes(t._data)[:12], o)
        elif isinstance(t, lexer.TokString):
            if o not in ref_starts or [k for (oo, n), k in ref_ranges.items() if oo == o][0] != 4:
                return 'string at %d' % o
        elif isinstance(t, (lexer.TokSpace, lexer.TokNewline)):
            continue
        elif o not in ref_starts:
            return 'code token %r at %d' % (bytes(t._data)[:12], o)
    return None


def coq_shard(cases, obs, n, seed):
    """write ocaml/build/C10_cases.v: `fmt_run cfg run = <what the implementation returned>` for a sample of
    the pipeline calls (half from real luafmt runs, half from the isolated calls), proved by vm_compute.
    -> None | description of the failure"""
    import subprocess
    rng = random.Random(seed + 11)
    real, iso = [], []
    for c, o in zip(cases, obs):
        if c['kind'] == 'prog':
            for (a, e, w, d, run, res) in sorted(o['calls']):
                if len(run) <= 200:
                    real.append((a, e, w, d, bytes(run), bytes(res)))
        elif c['kind'] == 'runs-random' or (c['kind'] == 'runs' and c['len'] >= 4):
            for r, x in o['rows']:
                f = r.split(' ')
                if f[0] == 'fmt':
                    iso.append((f[1] == '1', f[2] == '1', int(f[3]), int(f[4]), lib.unhx(f[5]), lib.unhx(x)))
    rows = (rng.sample(real, min(len(real), n // 2)) if real else []) + (rng.sample(iso, min(len(iso), n - n // 2)) if iso else [])
    if not rows:
        return None

    def zl(b):
        return '[' + '; '.join(str(x) for x in b) + ']'
    body = ';\n  '.join('(%s, %s, %d, %d, %s, %s)' % ('true' if a else 'false', 'true' if e else 'false', w, d, zl(run), zl(res))
                         for (a, e, w, d, run, res) in rows)
    text = ('(* written by harness/props/c10.py; not committed *)\n'
            'From PV Require Import Base.Prelude Model.FmtSpaces.\n'
            'Definition c10_cases : list (bool * bool * Z * Z * list Z * list Z) :=\n  [%s].\n'
            'Lemma c10_cases_agree : forallb (fun \'(a, e, w, d, r, x) => zlist_eqb (fmt_run (mk_fcfg a e w d) r) x) c10_cases = true.\n'
            'Proof. vm_compute. reflexivity. Qed.\n' % body)
    path = os.path.join(lib.BUILD, 'C10_cases.v')
    with open(path, 'w') as fh:
        fh.write(text)
    try:
        p = subprocess.run(['timeout', '600', 'coqc', '-Q', 'theories', 'PV', '-w', 'none', path], cwd=lib.ROCQ,
                           capture_output=True, text=True, timeout=660)
    except subprocess.TimeoutExpired:
        return 'in-Coq shard timed out'
    if p.returncode != 0:
        return 'in-Coq evaluation (vm_compute) of fmt_run disagrees with the implementation on a sample of %d calls: %s' % (
            len(rows), (p.stdout + p.stderr)[-400:])
    return None


def search(ctx, budget):
    """a proof obligation / pin / correspondence broke and no failing input is in hand: look for a
    real violation with fresh programs and layouts until the budget is spent"""
    rng = random.Random(ctx['seed'] + 7)
    t0 = time.time()
    found, n = [], 0
    c2 = {'monitor_exe': ctx.get('monitor_exe'), 'model_exe': None}
    while time.time() - t0 < budget and not found:
        cases = [prog_case(rng, 'thorough', extended=(i % 3 == 2), nlay=5) for i in range(60)]
        r = run_cases(cases, c2)
        n += r['evaluations']
        found.extend(r['violations'])
    return {'violations': found, 'evaluations': n}
