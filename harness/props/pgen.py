"""Grammar-based generator of PICO-8 Lua programs with an independent layout generator.

A program is generated as (a) the list of its significant tokens (kind, spelling), (b) the tree
it denotes, in the rich form of Spec/LuaGrammar.v (every token of the program appears in the tree
exactly once: `T` stored tokens, `W` keywords / brackets / separators, `P` parentheses; expressions
are flat chains of operators and operands in source order), (c) layout constraints per gap between
two significant tokens ('nonl': no newline allowed - inside the line of a short-if or `?`;
'nl': a newline is required - after such a line).  The layout generator then fills the gaps with
spaces, tabs, newlines, CRLF, `--` / `//` line comments and block comments.

Trees are nested tuples:  ('N', tag, short, [fields])  ('T', i)  ('L', [items])  ('Z',)
('B', bool)  ('Y', bytes)  ('W', i)  ('P', i, j, x)  ('H', x)   with i = index of a significant token.
"""
KEYWORDS = {b'and', b'break', b'do', b'else', b'elseif', b'end', b'false', b'for', b'function', b'goto', b'if',
            b'in', b'local', b'nil', b'not', b'or', b'repeat', b'return', b'then', b'true', b'until', b'while'}

TAGS = ['Chunk', 'StatAssignment', 'StatFunctionCall', 'StatDo', 'StatWhile', 'StatRepeat', 'StatIf', 'StatForStep',
        'StatForIn', 'StatFunction', 'StatLocalFunction', 'StatLocalAssignment', 'StatGoto', 'StatLabel', 'StatBreak',
        'StatReturn', 'FunctionName', 'FunctionArgs', 'VarList', 'VarName', 'VarIndex', 'VarAttribute', 'NameList',
        'ExpList', 'ExpValue', 'VarargDots', 'ExpBinOp', 'ExpUnOp', 'FunctionCall', 'FunctionCallMethod', 'Function',
        'FunctionBody', 'TableConstructor', 'FieldExpKey', 'FieldNamedKey', 'FieldExp']
TAG = {n: i for i, n in enumerate(TAGS)}
CHAIN = 100      # pseudo class: flat operator/operand chain of an expression

NAMES = [b'a', b'b', b'c', b'x', b'y', b'z', b'i', b'j', b'k', b't', b'f', b'g', b'foo', b'bar', b'_x1', b'self',
         b'endx', b'iff', b'dot', b'nilly', b'or_', b'x2', b'camelCase', b'p\x80q', b'\x8b', b'notx', b'e1', b'xe',
         b'_', b'print', b'pairs']
NUMBERS = [b'0', b'1', b'2', b'42', b'3.14', b'0x1f', b'0x1.8', b'0b101', b'1e3', b'.5', b'7.', b'0xff', b'10', b'1e-2',
           b'0X1F', b'0b1.1']
STRINGS = [b'"hi"', b"'x'", b'"a\\"b"', b'[[long]]', b'[==[x]]y]==]', b'"esc\\n"', b'""', b"''", b'"--"', b'"//x"',
           b'"]]"', b"'\\''", b'"tab\\t"']
ML_STRINGS = [b'[[two\nlines]]', b'[=[\nx]=]']
BINOPS = [b'&', b'|', b'^^', b'<<', b'>>', b'>>>', b'<<>', b'>><', b'\\', b'<', b'>', b'<=', b'>=', b'~=', b'!=', b'==',
          b'..', b'+', b'-', b'*', b'/', b'%', b'^', b'and', b'or']
UNOPS = [b'-', b'#', b'~', b'@', b'%', b'$', b'not']
ASSIGNOPS = [b'+=', b'-=', b'*=', b'/=', b'%=', b'..=']


def N(tag, fields, short=False):
    return ('N', TAG[tag] if isinstance(tag, str) else tag, short, fields)


class Program:
    def __init__(self):
        self.toks = []          # [(kind, spelling)]
        self.gap = {}           # gap index g (before token g; len(toks) = after the last) -> 'nonl' | 'nl'
        self.tree = None
        self.features = set()


class Gen:
    def __init__(self, rng, maxdepth=4, size=6, allow=()):
        self.rng = rng
        self.maxdepth = maxdepth
        self.size = size
        self.p = Program()
        self.oneline = 0        # > 0 while generating the line of a short-if
        self.blk = 0            # block nesting depth
        self._si_blk = -9       # block depth at which the innermost enclosing short-if stands
        self._is_last = False   # generating the last statement of the current block
        self.allow = set(allow)  # optional features: 'nested_shortif', 'break_mid', 'qmark'

    # ---- tokens
    def emit(self, kind, text):
        self.p.toks.append((kind, bytes(text)))
        i = len(self.p.toks) - 1
        if self.oneline and i > self._line_start:
            self.p.gap[i] = 'nonl'
        return i

    def kw(self, text):
        return ('W', self.emit('K' if text in KEYWORDS else 'Y', text))

    def name_tok(self):
        return ('T', self.emit('A', self.rng.choice(NAMES)))

    def chance(self, p):
        return self.rng.random() < p

    # ---- expressions
    def operand(self, d):
        r = self.rng.random()
        if d >= self.maxdepth:
            r *= 0.55
        if r < 0.10:
            k = self.rng.choice([b'nil', b'true', b'false'])
            v = {b'nil': ('Z',), b'true': ('B', True), b'false': ('B', False)}[k]
            return N('ExpValue', [self.kw(k), v])
        if r < 0.25:
            return N('ExpValue', [('T', self.emit('U', self.rng.choice(NUMBERS)))])
        if r < 0.35:
            return N('ExpValue', [('T', self.emit('T', self.string_lit()))])
        if r < 0.38 and self.vararg:
            self.p.features.add('vararg-exp')
            return N('VarargDots', [self.kw(b'...')])
        if r < 0.55:
            return N('ExpValue', [self.var_simple()])
        if r < 0.75:
            return N('ExpValue', [self.prefixexp(d + 1)])
        if r < 0.87:
            return N('ExpValue', [self.table(d + 1)])
        self.p.features.add('function-literal')
        return N('ExpValue', [N('Function', [self.kw(b'function'), self.funcbody(d + 1)])])

    def string_lit(self):
        if not self.oneline and self.chance(0.1):
            self.p.features.add('multiline-string')
            return self.rng.choice(ML_STRINGS)
        return self.rng.choice(STRINGS)

    def exp(self, d):
        """-> an operand tree or a CHAIN node"""
        items = []
        n_ops = 0
        nterms = 1
        if d < self.maxdepth:
            nterms = self.rng.choice([1, 1, 1, 2, 2, 3, 4])
        for k in range(nterms):
            if k:
                items.append(('T', self.emit_op(self.rng.choice(BINOPS))))
                n_ops += 1
            while self.chance(0.15):
                items.append(('T', self.emit_op(self.rng.choice(UNOPS))))
                n_ops += 1
            items.append(self.operand(d))
        if n_ops == 0:
            return items[0]
        self.p.features.add('chain')
        return N(CHAIN, items)

    def emit_op(self, text):
        return self.emit('K' if text in KEYWORDS else 'Y', text)

    def var_simple(self):
        return N('VarName', [self.name_tok()])

    def paren(self, d):
        o = self.emit('Y', b'(')
        e = self.exp(d)
        c = self.emit('Y', b')')
        return ('P', o, c, e)

    def args(self, d):
        r = self.rng.random()
        if r < 0.75 or d >= self.maxdepth:
            o = self.kw(b'(')
            el = self.explist(d, self.rng.choice([0, 1, 1, 2, 3])) if d < self.maxdepth else self.explist(d, self.rng.choice([0, 1]))
            return N('FunctionArgs', [o, el, self.kw(b')')])
        if r < 0.88:
            self.p.features.add('string-call')
            return ('T', self.emit('T', self.string_lit()))
        self.p.features.add('table-call')
        return self.table(d + 1)

    def suffix(self, first, d, want=None):
        """one suffix applied to `first`; want in (None, 'var', 'call')"""
        r = self.rng.random()
        if want == 'var':
            r *= 0.5
        elif want == 'call':
            r = 0.5 + r * 0.5
        if r < 0.2:
            o = self.kw(b'[')
            e = self.exp(d + 1)
            return N('VarIndex', [first, o, e, self.kw(b']')])
        if r < 0.5:
            return N('VarAttribute', [first, self.kw(b'.'), self.name_tok()])
        if r < 0.85:
            return N('FunctionCall', [first, self.args(d)])
        self.p.features.add('method-call')
        c = self.kw(b':')
        nm = self.name_tok()
        return N('FunctionCallMethod', [first, c, nm, self.args(d)])

    def prefixexp(self, d, want=None, allow_paren=True):
        """Name or ( exp ), then 0-3 suffixes; want = 'var' / 'call' forces the kind of the last suffix.
        A parenthesised expression followed by a suffix (`(a+b).c`, `(f or g)(x)`) is generated only when
        'paren_suffix' is allowed (the AST writers cannot write most of these)."""
        suffix_ok = 'paren_suffix' in self.allow
        if allow_paren and self.chance(0.15) and d < self.maxdepth and (suffix_ok or want is None):
            self.p.features.add('paren')
            cur = self.paren(d + 1)
            bare = True
        else:
            cur = self.var_simple()
            bare = False
        n = self.rng.choice([0, 0, 1, 1, 2, 3])
        if want is not None:
            n = max(n, 1)
        if bare and not suffix_ok:
            n = 0
        if want == 'var' and not bare and self.chance(0.4):
            return cur
        for k in range(n):
            last = (k == n - 1)
            if bare:
                self.p.features.add('paren-suffix')
            cur = self.suffix(cur, d, want if last else None)
            if cur[0] == 'N' and cur[1] != TAG['FunctionCall'] and cur[1] != TAG['FunctionCallMethod'] and bare:
                self.p.features.add('paren-prefix-var')
            bare = False
        if want is None and n == 0 and cur[0] == 'P':
            self.p.features.add('paren-exp')
        return cur

    def table(self, d):
        self.p.features.add('table')
        o = self.kw(b'{')
        items = []
        n = self.rng.choice([0, 1, 2, 3, 4]) if d < self.maxdepth else self.rng.choice([0, 1])
        for k in range(n):
            if k:
                items.append(self.kw(self.rng.choice([b',', b',', b';'])))
            r = self.rng.random()
            if r < 0.25:
                b = self.kw(b'[')
                ke = self.exp(d + 1)
                c = self.kw(b']')
                q = self.kw(b'=')
                items.append(N('FieldExpKey', [b, ke, c, q, self.exp(d + 1)]))
            elif r < 0.5:
                nm = self.name_tok()
                q = self.kw(b'=')
                items.append(N('FieldNamedKey', [nm, q, self.exp(d + 1)]))
            else:
                items.append(N('FieldExp', [self.exp(d + 1)]))
        if n and self.chance(0.3):
            self.p.features.add('trailing-sep')
            items.append(self.kw(self.rng.choice([b',', b';'])))
        return N('TableConstructor', [o, ('L', items), self.kw(b'}')])

    def explist(self, d, n):
        if n == 0:
            return ('Z',)
        items = []
        for k in range(n):
            if k:
                items.append(self.kw(b','))
            items.append(self.exp(d + 1))
        return N('ExpList', [('L', items)])

    def namelist(self, n):
        items = []
        for k in range(n):
            if k:
                items.append(self.kw(b','))
            items.append(self.name_tok())
        return N('NameList', [('L', items)])

    def funcbody(self, d):
        o = self.kw(b'(')
        n = self.rng.choice([0, 1, 2, 3])
        dots = self.chance(0.25)
        fields = [o]
        if n:
            fields.append(self.namelist(n))
            if dots:
                fields.append(self.kw(b','))
                fields.append(N('VarargDots', [self.kw(b'...')]))
            else:
                fields.append(('Z',))
        else:
            fields.append(('Z',))
            if dots:
                fields.append(N('VarargDots', [self.kw(b'...')]))
            else:
                fields.append(('Z',))
        fields.append(self.kw(b')'))
        saved = self.vararg
        self.vararg = dots
        fields.append(self.block(d + 1, in_loop=False))
        self.vararg = saved
        fields.append(self.kw(b'end'))
        if dots:
            self.p.features.add('vararg-function')
        return N('FunctionBody', fields)

    # ---- statements
    def block(self, d, in_loop, top=False):
        """-> Chunk node"""
        items = []
        if d >= self.maxdepth:
            n = self.rng.choice([0, 1, 1, 2])
        elif top:
            n = self.rng.randrange(1, self.size + 3)
        else:
            n = self.rng.choice([0, 1, 1, 2, 2, 3])
        if self.oneline:
            n = min(n, 2)
        prev_open = False      # the previous statement could absorb a following '(' / string / table
        self.blk += 1
        for k in range(n):
            while self.chance(0.08):
                self.p.features.add('semicolon')
                items.append(self.kw(b';'))
                prev_open = False
            if top and 'qmark' in self.allow and self.chance(0.12):
                items.append(self.qmark())
            if in_loop and 'break_mid' in self.allow and not self.oneline and self.chance(0.08):
                self.p.features.add('break-not-last')
                items.append(N('StatBreak', [self.kw(b'break')]))
            mark = len(self.p.toks)
            self._is_last = (k == n - 1)
            st = self.stat(d, in_loop)
            self._is_last = False
            if self.oneline and st[1] == TAG['StatIf'] and st[2]:
                # a one-line if nested in the line of another one: it owns the rest of the line
                items.append(st)
                self.blk -= 1
                return N('Chunk', [('L', items)])
            # Lua's call ambiguity: a statement starting with '(' must be separated by ';'
            if self.p.toks[mark][1] == b'(':
                semi = ('W', mark)
                self.p.toks.insert(mark, ('Y', b';'))
                st = shift_tree(st, mark)
                self._shift_gaps(mark)
                items.append(semi)
                self.p.features.add('semicolon')
            items.append(st)
            if self.chance(0.15):
                self.p.features.add('semicolon')
                items.append(self.kw(b';'))
        self.blk -= 1
        last = self.rng.random()
        if not top or self.chance(0.3):
            if last < 0.15:
                self.p.features.add('return')
                r = self.kw(b'return')
                el = self.explist(d, self.rng.choice([0, 1, 1, 2]))
                items.append(N('StatReturn', [r, el]))
                if self.chance(0.2):
                    items.append(self.kw(b';'))
            elif last < 0.25 and in_loop:
                self.p.features.add('break')
                items.append(N('StatBreak', [self.kw(b'break')]))
                if self.chance(0.2):
                    items.append(self.kw(b';'))
        return N('Chunk', [('L', items)])

    def _shift_gaps(self, mark):
        """a ';' was inserted as token `mark`: gaps after it move; the gap before it keeps its constraint"""
        g2 = {}
        for g, v in self.p.gap.items():
            g2[g + 1 if g > mark else g] = v
        self.p.gap = g2
        if self.oneline:
            self.p.gap[mark + 1] = 'nonl'
            if mark > self._line_start:
                self.p.gap[mark] = 'nonl'

    def stat(self, d, in_loop):
        r = self.rng.random()
        deep = d >= self.maxdepth
        if deep:
            r *= 0.42
        if r < 0.18:
            return self.st_assign(d)
        if r < 0.24:
            return self.st_compound(d)
        if r < 0.36:
            return N('StatFunctionCall', [self.prefixexp(d, want='call')])
        if r < 0.42:
            return self.st_local(d)
        if r < 0.47:
            self.p.features.add('do')
            o = self.kw(b'do')
            b = self.block(d + 1, in_loop)
            return N('StatDo', [o, b, self.kw(b'end')])
        if r < 0.52:
            self.p.features.add('while')
            w = self.kw(b'while')
            e = self.exp(d + 1)
            o = self.kw(b'do')
            b = self.block(d + 1, True)
            return N('StatWhile', [w, e, o, b, self.kw(b'end')])
        if r < 0.56:
            self.p.features.add('repeat')
            o = self.kw(b'repeat')
            b = self.block(d + 1, True)
            u = self.kw(b'until')
            return N('StatRepeat', [o, b, u, self.exp(d + 1)])
        if r < 0.66:
            return self.st_if(d, in_loop)
        if r < 0.76:
            return self.st_shortif(d, in_loop)
        if r < 0.81:
            self.p.features.add('for-step')
            f = self.kw(b'for')
            nm = self.name_tok()
            q = self.kw(b'=')
            e1 = self.exp(d + 1)
            c1 = self.kw(b',')
            e2 = self.exp(d + 1)
            fields = [f, nm, q, e1, c1, e2]
            if self.chance(0.4):
                fields.append(self.kw(b','))
                fields.append(self.exp(d + 1))
            else:
                fields.append(('Z',))
            fields.append(self.kw(b'do'))
            fields.append(self.block(d + 1, True))
            fields.append(self.kw(b'end'))
            return N('StatForStep', fields)
        if r < 0.86:
            self.p.features.add('for-in')
            f = self.kw(b'for')
            nl = self.namelist(self.rng.choice([1, 2, 3]))
            i = self.kw(b'in')
            el = self.explist(d, self.rng.choice([1, 1, 2]))
            o = self.kw(b'do')
            b = self.block(d + 1, True)
            return N('StatForIn', [f, nl, i, el, o, b, self.kw(b'end')])
        if r < 0.91:
            self.p.features.add('function-stat')
            f = self.kw(b'function')
            path = [self.name_tok()]
            for _ in range(self.rng.choice([0, 0, 1, 2])):
                path.append(self.kw(b'.'))
                path.append(self.name_tok())
            if self.chance(0.3):
                c = self.kw(b':')
                fn = N('FunctionName', [('L', path), c, self.name_tok()])
            else:
                fn = N('FunctionName', [('L', path), ('Z',)])
            return N('StatFunction', [f, fn, self.funcbody(d + 1)])
        if r < 0.95:
            self.p.features.add('local-function')
            l = self.kw(b'local')
            f = self.kw(b'function')
            nm = self.name_tok()
            return N('StatLocalFunction', [l, f, nm, self.funcbody(d + 1)])
        if r < 0.975:
            self.p.features.add('goto')
            g = self.kw(b'goto')
            i = self.emit('A', self.rng.choice(NAMES))
            return N('StatGoto', [g, ('H', ('T', i)), ('Y', self.p.toks[i][1])])
        self.p.features.add('label')
        nm = self.rng.choice([b'top', b'l1', b'_x', b'done'])
        i = self.emit('L', b'::' + nm + b'::')
        return N('StatLabel', [('H', ('T', i)), ('Y', nm)])

    def var(self, d):
        return self.prefixexp(d, want='var')

    def st_assign(self, d):
        self.p.features.add('assignment')
        n = self.rng.choice([1, 1, 1, 2, 3])
        vs = []
        for k in range(n):
            if k:
                vs.append(self.kw(b','))
            vs.append(self.var(d))
        op = ('T', self.emit('Y', b'='))
        return N('StatAssignment', [N('VarList', [('L', vs)]), op, self.explist(d, self.rng.choice([1, 1, 2, 3]))])

    def st_compound(self, d):
        self.p.features.add('compound-assignment')
        v = self.var(d)
        op = ('T', self.emit('Y', self.rng.choice(ASSIGNOPS)))
        return N('StatAssignment', [N('VarList', [('L', [v])]), op, self.explist(d, 1)])

    def st_local(self, d):
        self.p.features.add('local')
        l = self.kw(b'local')
        nl = self.namelist(self.rng.choice([1, 1, 2, 3]))
        if self.chance(0.7):
            q = self.kw(b'=')
            return N('StatLocalAssignment', [l, nl, q, self.explist(d, self.rng.choice([1, 1, 2]))])
        return N('StatLocalAssignment', [l, nl, ('Z',)])

    def st_if(self, d, in_loop):
        self.p.features.add('if')
        i = self.kw(b'if')
        e = self.exp(d + 1)
        t = self.kw(b'then')
        b = self.block(d + 1, in_loop)
        pairs = [('L', [e, t, b])]
        for _ in range(self.rng.choice([0, 0, 1, 2])):
            self.p.features.add('elseif')
            pairs.append(self.kw(b'elseif'))
            e = self.exp(d + 1)
            t = self.kw(b'then')
            pairs.append(('L', [e, t, self.block(d + 1, in_loop)]))
        if self.chance(0.4):
            self.p.features.add('else')
            pairs.append(self.kw(b'else'))
            pairs.append(('L', [('Z',), self.block(d + 1, in_loop)]))
        return N('StatIf', [i, ('L', pairs), self.kw(b'end')])

    def st_shortif(self, d, in_loop):
        if self.oneline and ('nested_shortif' not in self.allow or not self._is_last or self.blk != self._si_blk + 1):
            return self.st_assign(d)
        self.p.features.add('short-if')
        if self.oneline:
            self.p.features.add('nested-short-if')
        outer = self.oneline
        if not outer:
            self._line_start = len(self.p.toks)
        self.oneline += 1
        saved_si = self._si_blk
        self._si_blk = -9        # no one-line if inside the condition (e.g. in the body of a function literal there)
        i = self.kw(b'if')
        cond = self.paren(d + 1)
        self._si_blk = self.blk  # a nested one-line if may only end the body / else body itself
        # body: 1-2 statements on the line; the block generator honours self.oneline
        # picotool reads `if (c) do` as `if (c) then` (a deliberate loophole), so a short-if body that starts
        # with a do-block is only generated on request
        b = self.nonempty_block(d + 1, in_loop, no_do_first='shortif_do_body' not in self.allow)
        if self.p.toks[cond[2] + 1] == ('K', b'do'):
            self.p.features.add('short-if-do-body')
        pairs = [('L', [cond, b])]
        last_item = b[3][0][1][-1]
        if not (last_item[0] == 'N' and last_item[1] == TAG['StatIf'] and last_item[2]) and self.chance(0.3):
            self.p.features.add('short-if-else')
            pairs.append(self.kw(b'else'))
            pairs.append(('L', [('Z',), self.nonempty_block(d + 1, in_loop)]))
        self.oneline -= 1
        self._si_blk = saved_si
        if not self.oneline:
            self.p.gap[len(self.p.toks)] = 'nl'
        return N('StatIf', [i, ('L', pairs)], short=True)

    def nonempty_block(self, d, in_loop, no_do_first=False):
        while True:
            mark = len(self.p.toks)
            gaps = dict(self.p.gap)
            feats = set(self.p.features)
            b = self.block(d, in_loop)
            if any(x[0] == 'N' for x in b[3][0][1]) and not (no_do_first and self.p.toks[mark] == ('K', b'do')):
                return b
            del self.p.toks[mark:]
            self.p.gap = gaps
            self.p.features = feats

    def qmark(self):
        """`?"text"` on its own line: the parser reads it as a call of the name `?` with a string argument"""
        self.p.features.add('qmark-print')
        g0 = len(self.p.toks)
        if g0:
            self.p.gap[g0] = 'nl'
        q = self.emit('A', b'?')
        self.p.gap[len(self.p.toks)] = 'nonl'
        s = self.emit('T', self.rng.choice([b'"hi"', b"'x'", b'"a b"']))
        self.p.gap[len(self.p.toks)] = 'nl'
        return N('StatFunctionCall', [N('FunctionCall', [N('VarName', [('T', q)]), ('T', s)])])

    def program(self):
        self.vararg = True
        self._line_start = 0
        chunk = self.block(0, in_loop=False, top=True)
        items = chunk[3][0][1]
        if 'qmark' in self.allow:
            # insert a `?` print between two statements (never after return / break)
            pass
        self.p.tree = chunk
        return self.p


def shift_tree(t, mark):
    """add 1 to every token index >= mark"""
    k = t[0]
    if k == 'N':
        return ('N', t[1], t[2], [shift_tree(x, mark) for x in t[3]])
    if k in ('T', 'W'):
        return (k, t[1] + 1 if t[1] >= mark else t[1])
    if k == 'L':
        return ('L', [shift_tree(x, mark) for x in t[1]])
    if k == 'P':
        return ('P', t[1] + 1 if t[1] >= mark else t[1], t[2] + 1 if t[2] >= mark else t[2], shift_tree(t[3], mark))
    if k == 'H':
        return ('H', shift_tree(t[1], mark))
    return t


def ser_tree(t, remap):
    """serialise in the syntax of ocaml/lua_io.ml (rich form), token indices mapped through remap"""
    k = t[0]
    if k == 'N':
        return 'N%d:-1:-1:%d(%s)' % (t[1], 1 if t[2] else 0, ','.join(ser_tree(x, remap) for x in t[3]))
    if k == 'T':
        return 'T%d' % remap[t[1]]
    if k == 'W':
        return 'W%d' % remap[t[1]]
    if k == 'L':
        return 'L(%s)' % ','.join(ser_tree(x, remap) for x in t[1])
    if k == 'Z':
        return 'Z'
    if k == 'B':
        return 'Bt' if t[1] else 'Bf'
    if k == 'Y':
        return 'Y' + (bytes(t[1]).hex() if t[1] else '-')
    if k == 'P':
        return 'P%d:%d(%s)' % (remap[t[1]], remap[t[2]], ser_tree(t[3], remap))
    if k == 'H':
        return 'H(%s)' % ser_tree(t[1], remap)
    raise ValueError(k)


# ---------------------------------------------------------------------------------- layout
_glue_cache = {}


def can_glue(a, b):
    """May the spellings a, b of two consecutive tokens be written without separator?  Decided by the
    implementation's lexer: the concatenation must lex to exactly these two tokens."""
    key = (a, b)
    if key not in _glue_cache:
        from pico8.lua import lexer
        ok = False
        try:
            lx = lexer.Lexer(version=8)
            lx.process_lines([a[1] + b[1] + b'\n'])
            toks = lx.tokens[:-1]
            ok = (len(toks) == 2 and toks[0].code == single(a).code and toks[1].code == single(b).code and
                  type(toks[0]) is type(single(a)) and type(toks[1]) is type(single(b)))
        except Exception:
            ok = False
        _glue_cache[key] = ok
    return _glue_cache[key]


_single_cache = {}


def single(a):
    if a not in _single_cache:
        from pico8.lua import lexer
        lx = lexer.Lexer(version=8)
        lx.process_lines([a[1] + b'\n'])
        assert len(lx.tokens) == 2, (a, lx.tokens)
        _single_cache[a] = lx.tokens[0]
    return _single_cache[a]


LINE_COMMENTS = [b'-- c', b'--', b'// c', b'//', b'--[x', b'-- if (a) b=1', b'--\tt ', b'//--', b'-- x  ']
BLOCK_COMMENTS_1 = [b'--[[c]]', b'--[[ a b ]]', b'--[[]]']
BLOCK_COMMENTS_ML = [b'--[[a\nb]]', b'--[[\n  x\n]]']
NEWLINES = [b'\n', b'\n', b'\n', b'\n', b'\r\n', b'\n\n', b'\n \n', b'\n\t\n\n']


def layout(p, rng, style='random'):
    """-> source bytes.  style: 'random', 'compact' (as few separators as the lexer allows),
    'lines' (one statement per line is not known here: newline-rich), 'spaces'."""
    out = []
    toks = p.toks
    n = len(toks)
    for g in range(n + 1):
        c = p.gap.get(g)
        first, last = (g == 0), (g == n)
        need_sep = (not first and not last and not can_glue(toks[g - 1], toks[g]))
        tr = _trivia(rng, style, c, first, last, need_sep)
        # a comment directly after a token ending in '-' or '/' would fuse with it (`-` `--[[c]]` is the line comment `---[[c]]`)
        if not first and tr[:2] in (b'--', b'//') and toks[g - 1][1][-1:] == tr[:1]:
            tr = b' ' + tr
        out.append(tr)
        if g < n:
            out.append(toks[g][1])
    return b''.join(out)


def _ws(rng):
    return rng.choice([b' ', b' ', b' ', b'  ', b'\t', b' \t ', b'    '])


def _trivia(rng, style, c, first, last, need_sep):
    if c == 'nonl':
        # same line: blanks and one-line block comments only
        r = rng.random()
        if style == 'compact' or (style == 'random' and r < 0.3):
            return b' ' if need_sep else b''
        if r < 0.85 or style == 'spaces':
            return _ws(rng)
        return _ws(rng) + rng.choice(BLOCK_COMMENTS_1) + (_ws(rng) if rng.random() < 0.5 else b'')
    if c == 'nl':
        # a newline is required (unless this is the end of the input)
        if last:
            r = rng.random()
            if r < 0.3:
                return b''
            if r < 0.45:
                return _ws(rng)
            if r < 0.6:
                return _ws(rng) + rng.choice(LINE_COMMENTS)
        pre = b''
        r = rng.random()
        if r < 0.3 and style != 'compact':
            pre = _ws(rng) + rng.choice(LINE_COMMENTS)
        elif r < 0.5 and style != 'compact':
            pre = _ws(rng)
        post = b''
        if not last and rng.random() < 0.5 and style != 'compact':
            post = _ws(rng)
        return pre + rng.choice(NEWLINES) + post
    if last:
        r = rng.random()
        if r < 0.5:
            return rng.choice([b'\n', b'\n', b'\r\n', b'\n\n', b' \n', b'\n  '])
        if r < 0.65:
            return b''
        if r < 0.8:
            return _ws(rng) + rng.choice(LINE_COMMENTS) + rng.choice([b'', b'\n'])
        return rng.choice(NEWLINES) + rng.choice(BLOCK_COMMENTS_1 + BLOCK_COMMENTS_ML) + rng.choice([b'', b'\n'])
    if style == 'compact':
        return b' ' if need_sep else b''
    if style == 'spaces':
        return _ws(rng)
    r = rng.random()
    if first:
        if r < 0.6:
            return b''
        if r < 0.8:
            return rng.choice(LINE_COMMENTS) + b'\n' + (rng.choice(LINE_COMMENTS) + b'\n' if rng.random() < 0.5 else b'')
        return rng.choice([b' ', b'\n', b'\t\n  '])
    if r < 0.2 and not need_sep:
        return b''
    if r < 0.6:
        return _ws(rng)
    if r < 0.8:
        return (_ws(rng) if rng.random() < 0.5 else b'') + rng.choice(NEWLINES) + (_ws(rng) if rng.random() < 0.6 else b'')
    if r < 0.9:
        return _ws(rng) + rng.choice(LINE_COMMENTS) + rng.choice(NEWLINES) + (_ws(rng) if rng.random() < 0.6 else b'')
    if r < 0.96:
        return (_ws(rng) if rng.random() < 0.5 else b'') + rng.choice(BLOCK_COMMENTS_1) + (_ws(rng) if rng.random() < 0.5 else b'')
    return _ws(rng) + rng.choice(BLOCK_COMMENTS_ML) + rng.choice([b'', b' ', b'\n'])


def generate_program(rng, maxdepth=4, size=6, allow=(), force=()):
    """force: features the program must have (rejection sampling, bounded)"""
    for _ in range(300):
        g = Gen(rng, maxdepth=maxdepth, size=size, allow=allow)
        p = g.program()
        if all(f in p.features for f in force):
            return p
    return p
