"""C14 - build embeds each require()d package once and leaves all code intact."""
import contextlib
import io
import os
import shutil
import time

import lib

ID = 'C14'
GEN_FILES = ['T_require', 'T_files_build', 'T_lexer', 'T_parser', 'T_pins_parser', 'T_pins_lexer',
             # source pins of the hand-modelled modules (gen/kernels_pins.py)
             'T_pins_build', 'T_pins_walker']
COQ_PROPERTY = 'theories/Properties/C14.vo'
COQ_EXTRA = ['theories/Proofs/ParserPins.vo', 'theories/Proofs/LexerPins.vo', 'theories/Proofs/ReqEmbedInstProofs.vo', 'theories/Proofs/SpecLexChunk.vo',
             'theories/Proofs/ReqEmbedEchoGood.vo', 'theories/Proofs/ReqEmbedSpecTokens.vo',
             'theories/Proofs/BuildPins.vo', 'theories/Proofs/WalkerPins.vo']
MODEL = ('ExC14', 'c14_main.ml')
MONITOR = ('MonC14', 'c14_mon_main.ml')
CASE_TIMEOUT = 60
RULE = ('case = (a directory tree of .lua files: main program + up to 6 packages, with shared, nested and cyclic '
        'require() edges; load-path setting; per-package body with game-loop functions at start / middle / end; '
        'final newline yes / no); one evaluation = one real `p8tool build OUT.p8 --lua main.lua [--lua-path P]` in a '
        'scratch directory, compared with the extracted model (code bytes of OUT.p8 or the error class) and judged '
        'by the extracted instance predicate; distinct+non-trivial = distinct (graph shape, load-path kind, '
        'feature set, outcome) classes among runs that embed at least one package or fail')
ASSUMPTIONS = [
    'the __lua__ section of OUT.p8 (UTF-8 of the Unicode rendering) is read back as P8SCII bytes with picotool\'s own '
    'table (identity on ASCII; the bijection is C15\'s theorem); generated bodies are ASCII plus a few glyph bytes',
    'no symbolic links in the scratch tree; OUT.p8 does not exist before the build',
    'the monitor makes no claim (verdict 100) when the written description does not determine the outcome: a string '
    'that names different files from different requiring files, requests for one package that disagree about '
    'use_game_loop and thereby change the set of needed packages, package names containing "./" or a leading "/"',
    'a file that picotool cannot lex + parse COMPLETELY on its own (error, or the parser stops before the last '
    'token, as it silently does after a `return`) is outside C14 (that is C07 / C08); such runs are compared with '
    'the model but not judged',
    'a package with a game-loop definition directly in the body / else part of a one-line if of its root chunk '
    '(`if (x) function _init() end`) is compared with the model but not judged: the definition is no statement of the '
    'root chunk, build.py keeps it, the monitor\'s token-level spec_strip would remove it '
    '(C14_spec_strip_shortif_refuted); this is the shortif_clean hypothesis of C14_stripped_pkg_spec_clean_partial',
]
PARTIAL = ('The token-level clause is a theorem (C14_tokens_spec_any_newline: tokens of the cart = package preamble ++ per '
           'table entry (header ++ echoed package ++ end) ++ require() preamble ++ the main program\'s tokens, unchanged; '
           'reference tokenizer, concrete stack, NO hypothesis about lexer, chunking, echo or constants) for a main program '
           'of bytes in the dialect and table entries meeting per-entry conditions (header line and echoed code in the '
           'dialect, echoed lines of bytes ending in LF except possibly the last - a package whose code lacks a final '
           'newline is covered: Proofs/LexerChunkNl.v proves that the separate newline line build.py inserts is lexed as if '
           'glued to the text). C14_pkg_conditions_unstripped_any_newline proves those conditions, and that the echoed code '
           'has exactly the file\'s tokens, for packages embedded with {use_game_loop=true} from ANY byte file of the '
           'dialect. Packages embedded WITHOUT their game loop (the default): C14_stripped_pkg (NO hypothesis left) - for every '
           'byte file of the dialect that builds, the re-lexed package is in the dialect, its echoed lines are bytes ending in LF '
           '(the per-entry conditions) and its token views are those of the file\'s tokens outside the ranges build.py cuts; '
           'the ranges are well formed by C14_strip_ranges_ok, which rests on C14_parse_extent, the statement-extent / '
           'block-balance theorem of the parser model (every statement node spans exactly its tokens, is block-balanced, a '
           'function statement is `function` .. balanced .. matching `end`). RESIDUAL, visible in the statement of '
           'C14_stripped_pkg_spec_clean_partial (those tokens = the file\'s tokens minus its top-level game-loop definitions as '
           'Spec/RequireSpec.spec_strip describes them): two boolean hypotheses - fully_parsed (the parser consumed the whole '
           'file; implied by C08_complete for files with a derivation, C14_fully_parsed_of_derivation) and shortif_clean (no '
           'game-loop definition directly in the body / else part of a one-line if of the root chunk). The second cannot be '
           'dropped: C14_spec_strip_shortif_refuted (`if (x) function _init() y=2 end`: build.py keeps the definition, which is '
           'not a statement of the root chunk; the token-level reference description would remove it - a gap of the reference '
           'description, not a defect; such packages are not judged by the monitor). C14_strip_only_removes is unconditional. '
           'C14_structure_bytes / C14_unstripped_block assume a BYTE-faithful echo, which picotool\'s lexer has only for '
           'sources whose quoted strings are spelled canonically (C06: other strings are re-spelled).')
CLAIM = dict(
    text=("Theorems (Coq, closed under the global context) about a model of build.py's _evaluate_require / "
          "RequireWalker / _prepend_package_lua, proved for EVERY lexer, parser, walker, name check, file map and load "
          "path (the model is a Section over them) and instantiated with the lexer / parser / path models and the "
          "constants regenerated from build.py: C14_structure (the text handed to the final parse is package preamble "
          "++ one block per table entry ++ require preamble ++ the main program's lines), C14_structure_bytes / "
          "C14_unstripped_block (the bytes, under a byte-faithful-echo hypothesis: main unchanged, {use_game_loop=true} "
          "packages byte for byte), C14_once (table names distinct, exactly the names reachable through require(), each after a "
          "requirer, each a located+parsed+stripped file; cycles terminate), C14_errors* (walker exception / refused "
          "name / missing file => the build returns an error and no output), C14_terminates(_now) (1 + number of "
          "require strings is enough fuel; more fuel never changes the result), C14_dfs_exact (the search computes "
          "exactly the fuel-free depth-first relation Run). Token-level clause: C14_tokens_spec (no lexer / chunking / echo "
          "hypothesis left: uses C14_reference_chunking, C14_echo_predicate_suffices, C14_echo_views, C14_echo_lines_good, "
          "which rest on C06 / C07's theorems about the lexer model) with per-entry conditions that "
          "C14_pkg_conditions_unstripped proves for {use_game_loop=true} packages; C14_tokens_spec_any_newline / "
          "C14_pkg_conditions_unstripped_any_newline / C14_prepended_lines_chunking: the same without any condition on the "
          "final newline of a package (the separate newline line build.py inserts is lexed as if glued to the text); "
          "C14_strip_lexical / C14_parse_extent / C14_strip_ranges_ok / C14_stripped_pkg / C14_pkg_conditions_stripped: packages embedded without their game "
          "loop have exactly the file's tokens outside the ranges build.py cuts, no hypothesis (the parser model's statement "
          "extents are proved block-balanced, one specification per parse function); C14_strip_ranges_spec / "
          "C14_stripped_pkg_spec_clean_partial: and these are the file's tokens minus its top-level game-loop definitions, "
          "for files the parser consumes entirely and without a game-loop definition directly inside a one-line if "
          "(C14_spec_strip_shortif_refuted shows the exclusion is needed; see partial). Tie: correspondence of the extracted model (full lexer+parser+walker stack) with the real "
          "`p8tool build` on generated package graphs (code bytes of OUT.p8, error class), RequireWalker alone on "
          "every generated file, and the extracted instance predicate holds_C14 (Spec/ + Base/ only: reference "
          "tokenizer, token-level require / game-loop / load-path description written from the README) on the real "
          "OUT.p8 and on the model's output. Six defects found and fixed in build.py (findings/known_C14.json)."),
    note=("Trusted: Coq kernel+VM; gen/kernels_require.py + kernels_files.py (AST constant selection; shapes pinned in "
          "Proofs/ReqEmbedInstProofs.v); the lexer and parser models of other properties (correspondence-tested here "
          "through the build and in C07/C08); extraction (ExtrOcamlBasic), OCaml glue; the harness (generator, scratch "
          "directory handling, extraction of the __lua__ section from OUT.p8). Not modelled: argparse, the OS file "
          "system beyond a finite map of regular files, .p8 sections other than __lua__."),
    technique='Coq proof over an abstract section + regenerated constants + extracted-model correspondence + extracted monitor',
    design_ref='8 C14')

GL = [b'_init', b'_update', b'_update60', b'_draw']
SB = '@SB@'      # placeholder of the scratch directory inside stored cases


# ------------------------------------------------------------------------------------------ generator
def _lit(rng, name, allow_long=True):
    """A Lua string literal denoting `name`."""
    forms = []
    if b"'" not in name and b'\\' not in name and b'\n' not in name:
        forms.append(b"'" + name + b"'")
    if b'"' not in name and b'\\' not in name:
        forms.append(b'"' + name + b'"')
    forms.append(b'"' + name.replace(b'\\', b'\\\\').replace(b'"', b'\\"') + b'"')
    if allow_long and b']' not in name and not name.startswith(b'\n') and b'\r' not in name:
        forms.append(b'[[' + name + b']]')
    return rng.choice(forms)


def _req_expr(rng, name, gl):
    """A require call for `name`; gl: None (no option), True, False.  -> (expr bytes, syntactic form tag)"""
    if gl is None:
        k = rng.randrange(10)
        if k == 0:
            return b'require ' + _lit(rng, name, False), 'strcall'
        if k == 1:
            return b'require' + _lit(rng, name), 'strcall'
        return b'require(' + _lit(rng, name) + b')', 'paren'
    opt = b'{use_game_loop=' + (b'true' if gl else b'false') + rng.choice([b'', b'', b',', b';']) + b'}'
    sp = rng.choice([b'', b' '])
    return b'require(' + _lit(rng, name) + b',' + sp + opt + b')', 'opt'


def _req_stmt(rng, name, gl, v):
    """A statement (one or more full lines, no final newline) containing the require call."""
    if isinstance(name, str):
        name = name.encode('latin1')
    e, form = _req_expr(rng, name, gl)
    var = b'v%d' % v
    k = rng.randrange(14)
    if k == 0:
        return e, form + '/stat'
    if k == 1:
        return b'local ' + var + b'=' + e, form + '/local'
    if k == 2:
        return var + b' = ' + e, form + '/assign'
    if k == 3:
        return b'print(' + e + b')', form + '/arg'
    if k == 4:
        return e + b'.go()', form + '/prefix'
    if k == 5:
        return e + b':go(1)', form + '/method'
    if k == 6:
        return b'local t' + var + b'={' + e + b', n=1}', form + '/table'
    if k == 7:
        return b'if ' + var + b' then\n  ' + var + b'=' + e + b'\nend', form + '/if'
    if k == 8:
        return b'function get_' + var + b'()\n  return ' + e + b'\nend', form + '/func'
    if k == 9:
        return var + b'=f(g(1, ' + e + b'), 2)', form + '/nested'
    if k == 10:
        return b'for i=1,2 do ' + var + b'=' + e + b' end', form + '/for'
    if k == 11:
        return var + b' = ' + e + b' or {}', form + '/binop'
    if k == 12:
        return var + b'=(' + e + b')', form + '/paren'
    return b'local ' + var + b' = ' + e + b' -- load it', form + '/comment'


FILLER = [
    b'x=1', b'local t={1,2,f=3}', b'foo(1,"s")', b'if x then y=1 end', b'for i=1,3 do z=(z or 0)+i end',
    b'while x<3 do x+=1 end', b'function helper(a,b)\n  return a+b\nend', b'local function h2() end',
    b'if (x) y=2', b'-- a comment', b'--[[ block\ncomment ]]', b't.x.y=3', b's="str\\n"', b'repeat x-=1 until x<0',
    b'x,y=y,x', b'local a,b=1', b'do local q=2 end', b'if x==1 then y=2 elseif x==2 then y=3 else y=4 end',
    b'z=x..y', b'f{1,2}', b'f"lit"', b'obj:m(1)', b'n=#t+0x10', b'b=not a and 1 or 2', b'?"hi"',
    b'function obj.m(self) return self end', b'function obj:n() end', b'w=function(...) return ... end',
    b'x=-1 y=2', b'local s2=[[long\nstring]]', b'if (a<b) a=b else b=a', b'x=1;', b'// slashes',
]
LOOKALIKE = [
    b'local function _init() end', b'_update=function() end', b'function obj:_draw() end', b'function foo._init() end',
    b'function _init.helper() end', b'function _draw:bar() end', b'local _init=1', b'function _init2() end',
    b'function init() end',
]


def _dialect_chunk(rng):
    """A block of statements from the parser stack's dialect generator (harness/props/pgen.py), laid out by
    its layout generator, wrapped in do ... end so that a final return / break stays legal.  ASCII only."""
    try:
        from props import pgen
    except ImportError:
        import pgen
    for _ in range(20):
        p = pgen.generate_program(rng, maxdepth=3, size=rng.randrange(1, 5))
        src = pgen.layout(p, rng, rng.choice(['random', 'lines', 'spaces']))
        if all(c in (9, 10) or 32 <= c < 127 for c in src) and b'require' not in src:
            return b'do\n' + src + b'\nend'
    return b'do local q=3 end'


def _gl_fn(rng, inner):
    name = rng.choice(GL)
    k = rng.randrange(4)
    body = inner or rng.choice([b'x=1', b'cls()', b'', b'if (btn(0)) x-=1', b'for i=1,2 do f(i) end',
                                b'local function nested() return 1 end'])
    if k == 0:
        return b'function ' + name + b'() ' + body.replace(b'\n', b' ') + b' end' if b'(btn' not in body and b'--' not in body \
            else b'function ' + name + b'()\n  ' + body + b'\nend'
    if k == 1:
        return b'function ' + name + b'()\n  ' + body + b'\nend'
    if k == 2:
        return b'-- the ' + name[1:] + b' callback\nfunction ' + name + b'()\n  ' + body + b'\nend -- done'
    return b'function  ' + name + b' ( )\n\t' + body + b'\n end'


def _body(rng, reqs, gl_positions, final_newline, ret, v0, gl_reqs=(), dialect=False):
    """reqs: [(name, gl)] calls to place in the body; gl_positions: subset of {'start','middle','end'};
    gl_reqs: calls to place inside a game-loop function."""
    stmts = []
    forms = []
    for i, (n, g) in enumerate(reqs):
        s, f = _req_stmt(rng, n, g, v0 + i)
        stmts.append(s)
        forms.append(f)
    for _ in range(rng.randrange(0, 4)):
        stmts.insert(rng.randrange(len(stmts) + 1), rng.choice(FILLER))
    if dialect:
        stmts.insert(rng.randrange(len(stmts) + 1), _dialect_chunk(rng))
        forms.append('dialect')
    if rng.random() < 0.25:
        stmts.insert(rng.randrange(len(stmts) + 1), rng.choice(LOOKALIKE))
    inner = [None] * 3
    for j, (n, g) in enumerate(gl_reqs):
        s, f = _req_stmt(rng, n, g, v0 + 50 + j)
        inner[j % 3] = s
        forms.append('ingl:' + f)
    if 'middle' in gl_positions:
        if not stmts:
            stmts = [rng.choice(FILLER), rng.choice(FILLER)]
        elif len(stmts) == 1:
            stmts.append(rng.choice(FILLER))
        stmts.insert(rng.randrange(1, len(stmts)), _gl_fn(rng, inner[1]))
    if 'start' in gl_positions:
        stmts.insert(0, _gl_fn(rng, inner[0]))
    if 'end' in gl_positions:
        stmts.append(_gl_fn(rng, inner[2]))
        if rng.random() < 0.3:
            stmts.append(_gl_fn(rng, None))
    if ret and 'end' not in gl_positions:
        stmts.append(rng.choice([b'return {a=1}', b'return x', b'return helper', b'return']))
    if rng.random() < 0.3:
        stmts.insert(0, b'-- title\n-- by author')
    out = b''
    for i, s in enumerate(stmts):
        out += s
        if i + 1 < len(stmts):
            out += rng.choice([b'\n', b'\n', b'\n', b'\n\n', b'\n  ', b' \n'])
    if final_newline:
        out += rng.choice([b'\n', b'\n', b'\n\n'])
    return out, forms


NAME_POOL = [b'a', b'b', b'c', b'util', b'lib/util', b'lib/deep/x', b'mod.lua', b'3d', b'sp ace', b'eng/core',
             b'eng/gfx', b'x_y', b'q"z', b'b\\s', b"it's", b'n-1', b'A', b'w?y', b'p;q', b'caf\xc3\xa9', b'lib',
             b'eng',
             # dots that are not the .lua suffix: a dotted file stem, a dotted directory
             b'json.min', b'v1.2/util', b'a.b.c']


def _cand(pat, name, src):
    """The file (relative to the scratch root, normalised) a pattern names for a require from `src`."""
    c = pat.replace('?', name)
    if c.startswith(SB + '/'):
        c = c[len(SB) + 1:]
    elif c.startswith('/'):
        return None
    else:
        c = os.path.join(os.path.dirname(src), c)
    c = os.path.normpath(c)
    return None if c.startswith('..') else c


def _resolve(files, src, name, pats):
    """Harness-side lookup used only to LAY OUT the generated tree (never for a verdict)."""
    for p in pats:
        c = _cand(p, name, src)
        if c is not None and c in files:
            return c
    return None


def gen_case(rng, tier, ambiguous_ok=False):
    kind = rng.choice(['default', 'default', 'arg-rel', 'arg-abs', 'env'])
    if kind == 'default':
        arg, env, pats = None, None, ['?', '?.lua']
    elif kind == 'arg-rel':
        arg = rng.choice(['?.lua;lib/?.lua', '?.lua;?/init.lua', 'pkg/?.lua;?.lua;?'])
        env, pats = None, arg.split(';')
    elif kind == 'arg-abs':
        arg = rng.choice([SB + '/shared/?.lua;?;?.lua', '?.lua;' + SB + '/shared/?.lua'])
        env, pats = rng.choice([None, 'nowhere/?.lua']), arg.split(';')
    else:
        arg, env = None, rng.choice(['?.lua;lib/?.lua', SB + '/shared/?.lua;?.lua'])
        pats = env.split(';')
    main = rng.choice(['main.lua', 'main.lua', 'main.lua', 'src/main.lua', 'game/code/main.lua'])
    npk = rng.choice([0, 1, 1, 2, 2, 3, 3, 4, 5, 6]) if tier != 'tiny' else rng.choice([1, 2])
    # nodes: path -> {'reqs': [(name, gl)], 'glreqs': [...]}; planned files (normalised, SB kept symbolic)
    files = {main: None}
    order = [main]
    edges = {main: []}
    glreqs = {main: []}
    names = {}           # name -> file it was first resolved to
    pool = list(NAME_POOL)
    rng.shuffle(pool)
    attempts = 0
    while len(order) - 1 < npk and attempts < 60:
        attempts += 1
        src = rng.choice(order)
        name = pool[attempts % len(pool)].decode('latin1')
        if name in [n for n, _ in edges[src]]:
            continue
        pat_i = rng.randrange(len(pats))
        c = _cand(pats[pat_i], name, src)
        if c is None or c in files or c == 'out.p8':
            continue
        if any(f.startswith(c + '/') or c.startswith(f + '/') for f in files):
            continue            # a path cannot be a file and a directory
        if name in names:
            continue
        # earlier patterns must not hit an existing file; later code checks again
        planned = dict(files)
        planned[c] = None
        if _resolve(planned, src, name, pats) != c:
            continue
        files[c] = None
        order.append(c)
        edges[c] = []
        glreqs[c] = []
        names[name] = c
        edges[src].append((name, None))
    # extra edges: shared packages, cycles, self-require, require of main
    nextra = rng.randrange(0, 2 + npk)
    for _ in range(nextra):
        src = rng.choice(order)
        if not names:
            break
        name = rng.choice(sorted(names))
        tgt = _resolve(files, src, name, pats)
        if tgt is None and not ambiguous_ok:
            continue
        if tgt is not None and tgt != names[name] and not ambiguous_ok:
            continue
        if name in [n for n, _ in edges[src]] and rng.random() < 0.7:
            continue
        edges[src].append((name, None))
    if rng.random() < 0.1 and npk:
        # a package requires the main program's file back
        src = rng.choice(order[1:])
        mname = os.path.relpath(main, os.path.dirname(src) or '.')
        if not mname.startswith('.'):
            for cand in (mname[:-4], mname):
                if _resolve(files, src, cand, pats) == main and cand not in names:
                    edges[src].append((cand, None))
                    names[cand] = main
                    break
    # options: per edge None / True / False; usually consistent per name
    pol = {}
    for n in names:
        r = rng.random()
        pol[n] = 'none' if r < 0.55 else 'true' if r < 0.8 else 'false' if r < 0.9 else 'mixed'
    for src in order:
        new = []
        for (n, _) in edges[src]:
            p = pol[n]
            g = None if p == 'none' else True if p == 'true' else False if p == 'false' else rng.choice([None, True, False])
            new.append((n, g))
        rng.shuffle(new)
        edges[src] = new
    # a few requires inside game-loop functions of packages (they vanish with the function unless asked to stay)
    feats = set()
    contents = {}
    for src in order:
        is_main = (src == main)
        pos = set()
        r = rng.random()
        if r < 0.75 or is_main:
            for p in ('start', 'middle', 'end'):
                if rng.random() < (0.4 if not is_main else 0.3):
                    pos.add(p)
        glr = []
        if pos and names and rng.random() < 0.2:
            n = rng.choice(sorted(names))
            t = _resolve(files, src, n, pats)
            if t == names[n]:
                glr.append((n, None if pol[n] != 'true' else True))
                feats.add('req-in-gl')
        fn = rng.random() < (0.6 if tier != 'tiny' else 0.5)
        body, forms = _body(rng, edges[src], pos, fn, rng.random() < 0.4 and not is_main, 0, glr,
                            dialect=rng.random() < (0.3 if tier == 'thorough' else 0.15))
        if tier == 'thorough' and rng.random() < 0.05:
            body = body.replace(b'\n', b'\r\n')
            feats.add('crlf')
        contents[src] = body
        for p in pos:
            feats.add(('main-' if is_main else '') + 'gl-' + p)
        if not fn:
            feats.add('main-nonl' if is_main else 'nonl')
        for f in forms:
            feats.add(f.split('/')[0] if not f.startswith('ingl') else 'ingl')
            feats.add('pos:' + f.split('/')[-1])
    for n in names:
        if pol[n] != 'none':
            feats.add('opt-' + pol[n])
        if any(ch in n for ch in '"\\\' '):
            feats.add('odd-name')
        if '/' in n:
            feats.add('nested-name')
    # an unrelated file that nobody requires
    if rng.random() < 0.3:
        contents['unused.lua'] = b'this is not lua ((('
    case = {'main': main, 'arg': arg, 'env': env, 'kind': kind,
            'files': {k: lib.hx(v) for k, v in contents.items()},
            'feats': sorted(feats), 'npk': len(order) - 1, 'malformed': None}
    return case


def mutate_malformed(rng, case):
    """Turn a valid case into one that must fail (or that is outside the dialect)."""
    c = dict(case)
    files = {k: lib.unhx(v) for k, v in case['files'].items()}
    srcs = sorted(k for k in files if b'require' in files[k])
    k = rng.randrange(9)
    if not srcs:
        k = 8
    if k == 0 and len(files) > 1:
        victims = sorted(f for f in files if f != case['main'] and f != 'unused.lua')
        if victims:
            del files[rng.choice(victims)]
            c['malformed'] = 'missing-file'
    elif k in (1, 2, 3, 4, 5, 6):
        f = rng.choice(srcs)
        bad = {1: b'require()', 2: b'require("a","b","c")', 3: b'require(name)', 4: b'require("a",{foo=true})',
               5: rng.choice([b'require("a",{use_game_loop=1})', b'require("a",{true})', b'require("a",true)',
                              b'require("a",{["use_game_loop"]=true})', b'require("a",{use_game_loop=nil})',
                              b'require("a",{use_game_loop=true,x=1})', b'require {"a"}', b'require(("a"))',
                              b'require("a".."b")', b'require(1)', b'require("a",{use_game_loop=not true})']),
               6: rng.choice([b'require("../up")', b'require("/abs")', b'require("./here")', b'require("a/../b")',
                              b'require("nowhere/at/all")', b'require("")'])}[k]
        files[f] = files[f] + (b'' if files[f].endswith(b'\n') or not files[f] else b'\n') + b'zz=' + bad + b'\n'
        c['malformed'] = {1: 'args0', 2: 'args3', 3: 'nonstring', 4: 'badopt', 5: 'badform', 6: 'badname'}[k]
    elif k == 7:
        f = rng.choice(sorted(files))
        files[f] = files[f] + rng.choice([b'\nx = = 1\n', b'\ns="unterminated\n', b'\nif x then\n', b'\nend\n', b'\n--[[ open\n'])
        c['malformed'] = 'syntax'
    else:
        files[case['main']] = files[case['main']] + b'\nzz=require("does/not/exist")\n'
        c['malformed'] = 'missing-file'
    c['files'] = {k2: lib.hx(v) for k2, v in files.items()}
    return c


def alias_case(rng, k):
    """One file reachable under two require strings (name / name.lua under the default load path, or through two
    load path entries), the two calls with independently chosen options, in either order and from main or from
    another package: each require string is its own package table entry, with its own option."""
    opts = [None, True, False]
    g1, g2 = opts[k % 3], opts[(k // 3) % 3]
    body, _ = _body(rng, [], {'start', 'middle', 'end'} if k % 2 else {rng.choice(['start', 'middle', 'end'])}, k % 4 != 3, False, 0)
    how = (k // 9) % 3
    if how == 0:
        n1, n2, files, arg = 'lib', 'lib.lua', {'lib.lua': body}, None
    elif how == 1:
        n1, n2, files, arg = 'x', 'eng/x', {'eng/x.lua': body}, '?.lua;eng/?.lua'
    else:
        n1, n2, files, arg = 'util', 'util.lua', {'util.lua': body}, None
    if (k // 27) % 2:
        n1, n2, g1, g2 = n2, n1, g2, g1
    s1, _ = _req_stmt(rng, n1, g1, 1)
    s2, _ = _req_stmt(rng, n2, g2, 2)
    if (k // 54) % 2:
        files['main.lua'] = s1 + b'\nm=require("mid")\n'
        files['mid.lua'] = b'local q=1\n' + s2 + b'\nreturn q\n'
    else:
        files['main.lua'] = s1 + b'\n' + s2 + b'\n'
    return _mk(files, arg=arg, tag='alias')


def generate(tier, rng):
    n = 150 if tier == 'quick' else 3000
    for k in range(24 if tier == 'quick' else 108):
        yield alias_case(rng, k * (5 if tier == 'quick' else 1) + rng.randrange(5 if tier == 'quick' else 1))
    for i in range(n):
        case = gen_case(rng, tier, ambiguous_ok=(i % 10 == 9))
        if i % 5 == 4:
            case = mutate_malformed(rng, case)
        yield case


def _mk(files, main='main.lua', arg=None, env=None, tag='corpus'):
    return {'main': main, 'arg': arg, 'env': env, 'kind': 'corpus', 'files': {k: lib.hx(v) for k, v in files.items()},
            'feats': [tag], 'npk': len(files) - 1, 'malformed': None}


def corpus_cases():
    # the six defects fixed in build.py (findings/known_C14.json "fixed"), minimised
    yield _mk({'main.lua': b'x=require("a")\n', 'a.lua': b'function _update() end\nreturn 1\n'}, tag='fixed:gl-not-last')
    yield _mk({'main.lua': b'x=require("a")\n', 'a.lua': b'return a'}, tag='fixed:no-final-newline')
    yield _mk({'main.lua': b'x=require("a",{use_game_loop=true})\n', 'a.lua': b'a=1 -- done'}, tag='fixed:no-final-newline')
    yield _mk({'main.lua': b'print(require("a"))\n', 'a.lua': b'return 1\n'}, tag='fixed:nested-call')
    yield _mk({'main.lua': b'require("a").go()\n', 'a.lua': b'return {go=print}\n'}, tag='fixed:nested-call')
    yield _mk({'main.lua': b"x=require('a\\\\b')\n", 'a\\b.lua': b'return 1\n'}, tag='fixed:backslash-name')
    yield _mk({'main.lua': b'x=require "a"\n', 'a.lua': b'return 1\n'}, tag='fixed:string-call')
    yield _mk({'main.lua': b'x=require("a")\n', 'a.lua': b'_init={}\nfunction _init.foo() end\nreturn 1\n'}, tag='fixed:dotted-name')
    # shapes
    yield _mk({'main.lua': b'x=1'}, tag='no-require')
    yield _mk({'main.lua': b'x=require("a")\n', 'a.lua': b'b=require("b")\n', 'b.lua': b'a=require("a")\nm=require("main")\n'},
              tag='cycle')
    yield _mk({'main.lua': b'a=require("a")\nb=require("b")\n', 'a.lua': b'c=require("c")\n', 'b.lua': b'c=require("c")\n',
               'c.lua': b'return 3\n'}, tag='diamond')
    yield _mk({'main.lua': b'x=require("lib/x")\n', 'lib/x.lua': b'y=require("y")\nz=require("sub/z")\n',
               'lib/y.lua': b'return 1\n', 'lib/sub/z.lua': b'return 2\n'}, tag='nested')
    yield _mk({'main.lua': b'x=require("zz")\n'}, tag='missing')
    yield _mk({'main.lua': b'x=require("a")\ny=require("a.lua")\n', 'a.lua': b'return 1\n'}, tag='two-names-one-file')
    yield _mk({'main.lua': b'a=require("lib")\nb=require("lib.lua",{use_game_loop=true})\n',
               'lib.lua': b'function _update() u=1 end\nfunction helper() end\nfunction _draw() end\nreturn 1\n'},
              tag='two-names-one-file-options')
    yield _mk({'main.lua': b'b=require("lib.lua",{use_game_loop=true})\na=require("lib")\n',
               'lib.lua': b'function _update() u=1 end\nfunction helper() end\nfunction _draw() end\nreturn 1\n'},
              tag='two-names-one-file-options')
    yield _mk({'main.lua': b'j=require("json.min")\nu=require("v1.2/util")\n', 'json.min.lua': b'return {}\n',
               'v1.2/util.lua': b'return 2\n'}, tag='dotted-names')
    yield _mk({'main.lua': b'x=require("a")\n', 'a.lua': b''}, tag='empty-package')
    yield _mk({'main.lua': b'a=require("lib")\nb=require("lib/x")\n', 'lib.lua': b'return 1\n', 'lib/x.lua': b'return 2\n'},
              tag='directory-and-file')
    yield _mk({'main.lua': b'a=require("caf\xc3\xa9")\nx\x8b=1\n', 'caf\xc3\xa9.lua': b'\x80y=2\nreturn \x80y\n'}, tag='high-bytes')
    yield _mk({'main.lua': b'a=require("\x80")\n', '\x80.lua': b'return 2\n'}, tag='name-not-utf8')
    yield _mk({'src/main.lua': b'x=require("u")\n', 'shared/u.lua': b'function _init() end\nreturn 1'}, main='src/main.lua',
              arg=SB + '/shared/?.lua;?', tag='abs-path')
    # the example of C14_example_stripped_full: nested blocks, a one-line if with else, look-alikes
    yield _mk({'main.lua': b'x=require("a")\n',
               'a.lua': b'local t={}\nfunction _update()\n for i=1,3 do\n  if (t[i]) t[i]+=1 else t[i]=0\n'
                        b'  while t[i]>9 do t[i]-=1 end\n end\n if t[1] then return end\nend\nfunction t.draw() end\n'
                        b'if (t) function helper() end\nreturn t\n'}, tag='gl-nested-blocks')
    # C14_spec_strip_shortif_refuted: a game-loop definition in the body of a one-line if stays (not judged by the monitor)
    yield _mk({'main.lua': b'x=require("a")\n', 'a.lua': b'x=1\nif (x) function _init() y=2 end\nz=3\n'}, tag='gl-in-shortif')


# ------------------------------------------------------------------------------------------ implementation
def _scratch():
    return os.path.join(lib.VERIF, '.scratch', 'c14-%d' % os.getpid())


def _subst(s, sb):
    return None if s is None else s.replace(SB, sb)


def _code_of_p8(data):
    """The __lua__ section as P8SCII bytes (the .p8 text is the UTF-8 of P8SCII's Unicode rendering; for
    ASCII the conversion is the identity; the bijection is property C15's theorem)."""
    from pico8.lua import lua
    i = data.index(b'__lua__\n') + 8
    j = data.rindex(b'__gfx__\n')
    return lua.unicode_to_p8scii(data[i:j].decode('utf-8'))


def _parser_mod():
    from pico8.lua import parser as pr
    return pr


def _exposed(node):
    """Mirror of Proofs/ParserExtent2.exposed on the real tree."""
    pr = _parser_mod()
    if isinstance(node, pr.StatFunction):
        fn = node.funcname
        return len(fn.namepath) == 1 and fn.methodname is None and fn.namepath[0].value in GL
    if isinstance(node, pr.StatIf) and getattr(node, 'short_if', False):
        return any(_exposed(st) for (_c, blk) in node.exp_block_pairs for st in blk.stats)
    return False


def run_impl(case):
    from pico8 import tool, util
    from pico8.lua import lua
    from pico8.build import build as bmod
    sb = _scratch()
    shutil.rmtree(sb, ignore_errors=True)
    os.makedirs(sb)
    cwd = os.getcwd()
    old_env = os.environ.get('PICO8_LUA_PATH')
    old_stream = util._error_stream
    obs = {'sb': sb}
    try:
        for rel, h in case['files'].items():
            p = os.path.join(sb, rel)
            os.makedirs(os.path.dirname(p), exist_ok=True)
            with open(p, 'wb') as fh:
                fh.write(lib.unhx(h))
        os.chdir(sb)
        if case['env'] is None:
            os.environ.pop('PICO8_LUA_PATH', None)
        else:
            os.environ['PICO8_LUA_PATH'] = _subst(case['env'], sb)
        args = ['build', 'out.p8', '--lua', case['main']]
        if case['arg'] is not None:
            args += ['--lua-path', _subst(case['arg'], sb)]
        sink = io.StringIO()
        util._error_stream = sink
        try:
            with contextlib.redirect_stdout(sink), contextlib.redirect_stderr(sink):
                rc = tool.main(args)
            if rc != 0:
                obs['raised'] = 'Other:rc%s' % rc
            elif not os.path.exists('out.p8'):
                obs['raised'] = 'Other:no-output'
            else:
                with open('out.p8', 'rb') as fh:
                    obs['code'] = lib.hx(_code_of_p8(fh.read()))
                obs['raised'] = None
        except SystemExit as e:
            obs['raised'] = 'Other:SystemExit%s' % (e.code,)
        except Exception as e:  # noqa
            obs['raised'] = lib.exc_name(e)
        if obs['raised'] is not None and os.path.exists('out.p8'):
            obs['partial_output'] = True
        # every file on its own: does picotool lex + parse it, and what does the walker yield
        alone = {}
        for rel, h in sorted(case['files'].items()):
            src = lib.unhx(h)
            try:
                lo = lua.Lua.from_lines(io.BytesIO(src), version=8)
            except Exception as e:  # noqa
                alone[rel] = {'err': lib.exc_name(e)}
                continue
            items, werr = [], None
            try:
                for (pth, gl, _tok) in bmod.RequireWalker(lo.tokens, lo.root).walk():
                    items.append('%s:%d' % (lib.hx(pth), 1 if gl else 0))
            except Exception as e:  # noqa
                werr = lib.exc_name(e)
            # did the parser consume the whole file?  (it stops silently after a `return`; such a file is
            # not a Lua chunk, and C14 says nothing about it)
            from pico8.lua import lexer as lx
            rest = lo.tokens[lo._parser._pos:]
            complete = all(isinstance(t, (lx.TokSpace, lx.TokNewline, lx.TokComment)) for t in rest)
            # a game-loop definition directly in the body / else part of a one-line if of the root chunk is no
            # statement of the root chunk (build.py keeps it), but the token-level description of the monitor cannot
            # tell: outside the description (shortif_clean of C14_stripped_pkg_spec_clean_partial)
            clean = not any(_exposed(st) for st in lo.root.stats if not isinstance(st, _parser_mod().StatFunction))
            alone[rel] = {'err': None, 'items': items, 'werr': werr, 'echo': lib.hx(b''.join(lo.to_lines())),
                          'complete': complete, 'clean': clean}
        obs['alone'] = alone
    finally:
        util._error_stream = old_stream
        os.chdir(cwd)
        if old_env is None:
            os.environ.pop('PICO8_LUA_PATH', None)
        else:
            os.environ['PICO8_LUA_PATH'] = old_env
        shutil.rmtree(sb, ignore_errors=True)
        try:
            os.rmdir(os.path.dirname(sb))
        except OSError:
            pass
    return obs


# ------------------------------------------------------------------------------------------ requests
def _files_field(case, sb):
    parts = []
    for rel, h in sorted(case['files'].items()):
        parts.append('%s:%s' % (lib.hx(os.path.normpath(os.path.join(sb, rel)).encode()), h))
    return ','.join(parts) if parts else '~'


def _opt(s, sb):
    return '~' if s is None else lib.hx(_subst(s, sb).encode())


def model_requests(case, obs):
    sb = obs['sb']
    reqs = ['build %s %s %s %s %s %s' % (lib.hx(sb.encode()), _opt(case['arg'], sb), _opt(case['env'], sb),
                                         lib.hx(case['main'].encode()), case['files'][case['main']],
                                         _files_field(case, sb))]
    for rel, h in sorted(case['files'].items()):
        reqs.append('walk %s 1' % h)
    return reqs


def compare(case, obs, answers):
    if obs.get('timeout'):
        return 'implementation timed out'
    exp = ('ERR ' + obs['raised']) if obs['raised'] is not None else ('OK ' + obs['code'])
    a = answers[0]
    got = ' '.join(a.split(' ')[:2])
    if got != exp:
        return 'build: implementation %s, model %s' % (exp[:300], a[:300])
    for (rel, _), a in zip(sorted(case['files'].items()), answers[1:]):
        al = obs['alone'][rel]
        if al['err'] is not None:
            e = 'ERR ' + al['err']
        else:
            e = 'OK %s %s %s' % (','.join(al['items']) or '~', al['werr'] or '~', al['echo'])
        if a != e:
            return 'walker on %s: implementation %s, model %s' % (rel, e[:300], a[:300])
    return None


def in_domain(case, obs):
    """Judged by the monitor: every file picotool reads on its own lexes + parses (else C07 / C08)."""
    if obs.get('timeout'):
        return False
    for rel, al in obs['alone'].items():
        if rel == 'unused.lua':
            continue
        if al['err'] is not None or not al.get('complete', True) or not al.get('clean', True):
            return False
    return True


def monitor_request(case, obs, code_hex=None, raised=None):
    sb = obs['sb']
    raised = (obs['raised'] is not None) if raised is None else raised
    out = (obs.get('code') or '-') if code_hex is None else code_hex
    return 'hold %s %s %s %s %s %s %d %s' % (
        lib.hx(sb.encode()), _opt(case['arg'], sb), _opt(case['env'], sb), lib.hx(case['main'].encode()),
        case['files'][case['main']], _files_field(case, sb), 1 if raised else 0, out)


def monitor_requests(case, obs):
    return [monitor_request(case, obs)] if in_domain(case, obs) else []


VERDICTS = {1: 'built-but-had-to-fail', 2: 'failed-but-had-to-build', 3: 'output-does-not-lex', 4: 'package-table',
            5: 'block', 6: 'package-missing', 7: 'loader', 8: 'main-program'}


def _features(case):
    """Deterministic classification of a (shrunk) witness."""
    files = {k: lib.unhx(v) for k, v in case['files'].items()}
    pk = {k: v for k, v in files.items() if k != case['main']}
    f = []
    if any(v and not v.endswith(b'\n') for v in pk.values()):
        f.append('no-final-newline')
    import re
    for v in pk.values():
        m = list(re.finditer(rb'function\s+(_init|_update60|_update|_draw)\s*\(', v))
        if m:
            tail = v[m[-1].end():]
            # something other than white space / comments after the last game-loop function's end
            after = re.sub(rb'--[^\n]*', b'', tail.split(b'end', 1)[1] if b'end' in tail else b'')
            f.append('gl-not-last' if (after.strip() or len(m) > 1) else 'gl-last')
            break
    allsrc = b'\n'.join(files.values())
    if re.search(rb'require\s*["\'\[]', allsrc):
        f.append('string-call')
    if re.search(rb'[\w\)]\s*\(\s*[^()]*require', allsrc) or re.search(rb'require\s*\([^()]*\)\s*[.:(]', allsrc):
        f.append('nested-call')
    if any('\\' in k for k in files):
        f.append('backslash-name')
    if re.search(rb'function\s+(_init|_update60|_update|_draw)\s*[.:]', allsrc):
        f.append('dotted-name')
    return f or ['plain']


def signature(case, obs, verdict=None):
    v = VERDICTS.get(verdict, str(verdict))
    return 'C14/%s/%s/%s' % (v, obs.get('raised') or '-', '+'.join(_features(case)))


def what(case, obs, verdict=None):
    return '%s (%s)' % (VERDICTS.get(verdict, verdict), '+'.join(_features(case)))


def describe(case, obs):
    return {'main': case['main'], 'arg': case['arg'], 'env': case['env'], 'npk': case['npk'],
            'feats': case['feats'][:12], 'malformed': case['malformed'],
            'outcome': obs.get('raised') or 'built', 'files': sorted(case['files'])}


def nontrivial_key(case, obs):
    if obs.get('timeout'):
        return None
    if obs['raised'] is None and case['npk'] == 0:
        return None
    return (case['npk'], case['kind'], tuple(case['feats']), case['malformed'], obs['raised'])


def histogram_key(case, obs):
    return '%s|pk%d|%s|%s' % (case['kind'], case['npk'], case['malformed'] or 'valid', obs.get('raised') or 'built')


# ------------------------------------------------------------------------------------------ shrinking
def _violates(case, ctx):
    """Re-run one candidate: -> (verdict, obs) ; verdict 0/100 = no violation."""
    obs = lib.with_alarm(CASE_TIMEOUT, run_impl, case)
    if not in_domain(case, obs):
        return 100, obs
    a = lib.run_driver(ctx['monitor_exe'], [monitor_request(case, obs)])[0]
    try:
        return int(a), obs
    except ValueError:
        return -1, obs


def minimize(case, ctx, verdict, budget=40):
    """Greedy: drop files, then lines of each file, while the same verdict persists."""
    best = case
    t0 = time.time()

    def same(c):
        try:
            v, _ = _violates(c, ctx)
        except Exception:  # noqa
            return False
        return v == verdict
    changed = True
    while changed and time.time() - t0 < budget:
        changed = False
        for rel in sorted(best['files']):
            if rel == best['main']:
                continue
            c = dict(best)
            c['files'] = {k: v for k, v in best['files'].items() if k != rel}
            if same(c):
                best, changed = c, True
        for rel in sorted(best['files']):
            lines = lib.unhx(best['files'][rel]).split(b'\n')
            i = 0
            while i < len(lines) and len(lines) > 1 and time.time() - t0 < budget:
                cand = lines[:i] + lines[i + 1:]
                c = dict(best)
                c['files'] = dict(best['files'])
                c['files'][rel] = lib.hx(b'\n'.join(cand))
                if same(c):
                    best, lines, changed = c, cand, True
                else:
                    i += 1
    return best


# ------------------------------------------------------------------------------------------ the case loop
def run_cases(cases, ctx):
    t0 = time.time()
    obs = []
    for c in cases:
        try:
            obs.append(lib.with_alarm(CASE_TIMEOUT, run_impl, c))
        except lib.Timeout:
            obs.append({'timeout': True, 'sb': _scratch(), 'raised': 'Other:timeout', 'alone': {}})
    t_impl = time.time() - t0
    disagreements, violations = [], []
    hist = {}
    model_codes = [None] * len(cases)
    if ctx.get('model_exe'):
        reqs, spans = [], []
        for c, o in zip(cases, obs):
            r = model_requests(c, o)
            spans.append((len(reqs), len(reqs) + len(r)))
            reqs.extend(r)
        ans = lib.run_driver_parallel(ctx['model_exe'], reqs)
        spans_model, ans_model = spans, ans
        for k, (c, o, (a, b)) in enumerate(zip(cases, obs, spans)):
            d = compare(c, o, ans[a:b])
            if d is not None:
                disagreements.append({'case': c, 'summary': describe(c, o), 'difference': d})
            f = ans[a].split(' ')
            model_codes[k] = (f[0], f[1] if len(f) > 1 else '-')
    if ctx.get('monitor_exe'):
        reqs, idx = [], []
        for k, (c, o) in enumerate(zip(cases, obs)):
            if in_domain(c, o):
                idx.append((k, 'impl'))
                reqs.append(monitor_request(c, o))
                # the same predicate on the MODEL's output: spec and model must agree too
                if model_codes[k] is not None and model_codes[k][0] in ('OK', 'ERR'):
                    idx.append((k, 'model'))
                    reqs.append(monitor_request(c, o, code_hex=model_codes[k][1] if model_codes[k][0] == 'OK' else '-',
                                                raised=(model_codes[k][0] == 'ERR')))
            else:
                hist['monitor:outside-domain'] = hist.get('monitor:outside-domain', 0) + 1
        ans = lib.run_driver_parallel(ctx['monitor_exe'], reqs)
        raw = []
        for (k, who), a in zip(idx, ans):
            try:
                v = int(a)
            except ValueError:
                v = -1
            if who == 'impl':
                hk = 'monitor:' + ('holds' if v == 0 else 'no-claim' if v == 100 else 'VIOLATED')
                hist[hk] = hist.get(hk, 0) + 1
            if v in (0, 100):
                continue
            c, o = cases[k], obs[k]
            if who == 'model':
                disagreements.append({'case': c, 'summary': describe(c, o),
                                      'difference': 'holds_C14 rejects the MODEL\'s output: verdict %s' % a})
                continue
            raw.append((k, v, a))
        # one representative per (verdict, exception, feature class of the unshrunk case), smallest first;
        # at most 6 are shrunk and reported, the others are further instances of the same classes
        groups = {}
        for (k, v, a) in raw:
            g = (v, obs[k].get('raised'), tuple(_features(cases[k])))
            size = sum(len(x) for x in cases[k]['files'].values())
            if g not in groups or size < groups[g][0]:
                groups[g] = (size, k, v, a)
        t_min = time.time()
        for g in sorted(groups, key=lambda g: (groups[g][0], str(g)))[:6]:
            _, k, v, a = groups[g]
            c, o = cases[k], obs[k]
            cm = c
            if ctx.get('tier') != 'replay' and time.time() - t_min < 120:
                try:
                    cm = minimize(c, ctx, v, budget=25)
                except Exception:  # noqa
                    cm = c
            try:
                _, om = _violates(cm, ctx)
            except Exception:  # noqa
                cm, om = c, o
            violations.append({'case': cm, 'summary': describe(cm, om), 'signature': signature(cm, om, v),
                               'what': what(cm, om, v), 'observed': ['verdict %s' % a, om.get('raised') or 'built'],
                               'expected': 'verdict 0'})
        if len(raw) > len(violations):
            hist['monitor:violations-not-shrunk (same classes)'] = len(raw) - len(violations)
    if ctx.get('tier') == 'thorough' and ctx.get('model_exe'):
        d = coq_shard(cases, obs, model_codes, spans_model, ans_model)
        if d:
            disagreements.append({'case': None, 'summary': 'in-Coq evaluation shard', 'difference': d})
        hist['coq-shard-cases'] = SHARD
    keys = set()
    for c, o in zip(cases, obs):
        k = nontrivial_key(c, o)
        if k is not None:
            keys.add(k)
        h = histogram_key(c, o)
        hist[h] = hist.get(h, 0) + 1
        for f in c['feats']:
            hist['feat:' + f] = hist.get('feat:' + f, 0) + 1
    samples = [describe(c, o) for c, o in list(zip(cases, obs))[:: max(1, len(cases) // 5)]][:6]
    return {'evaluations': len(cases), 'nontrivial': len(keys), 'rule': RULE, 'samples': samples,
            'disagreements': disagreements, 'violations': violations, 'histogram': hist,
            'impl_seconds': round(t_impl, 2)}


SHARD = 24


def _zl(b):
    return '[' + '; '.join(str(x) for x in b) + ']'


def coq_shard(cases, obs, model_codes, spans, ans):
    """Thorough tier: evaluate run_build INSIDE Coq (vm_compute) on a shard of the cases and require the
    result the extracted OCaml runner gave (cross-check of extraction and of the OCaml glue)."""
    import subprocess
    picked = [k for k, c in enumerate(cases) if c['npk'] >= 1 and not obs[k].get('timeout')][:SHARD]
    if not picked:
        return None
    out = ['From PV Require Import Base.Prelude Model.FilesInst Model.ReqEmbed Model.ReqEmbedInst.\n']
    for j, k in enumerate(picked):
        c, o = cases[k], obs[k]
        sb = o['sb']
        a = ans[spans[k][0]].split(' ')
        fs = '[' + '; '.join('(%s, %s)' % (_zl(os.path.normpath(os.path.join(sb, rel)).encode()), _zl(lib.unhx(h)))
                            for rel, h in sorted(c['files'].items())) + ']'

        def opt(x):
            return 'None' if x is None else 'Some %s' % _zl(_subst(x, sb).encode())
        if a[0] == 'OK':
            names = [] if a[2] == '~' else [lib.unhx(x) for x in a[2].split(',')]
            exp = 'Ok (%s, [%s])' % (_zl(lib.unhx(a[1])), '; '.join(_zl(n) for n in names))
        elif a[0] == 'ERR':
            exp = 'Err %s' % a[1]
        else:
            return 'runner answer unreadable: ' + ' '.join(a)[:100]
        out.append('Example shard_%d : run_build %s %s (effective_lua_path_now (%s) (%s)) %s %s = %s.\n'
                   'Proof. vm_compute. reflexivity. Qed.\n' % (
                       j, _zl(sb.encode()), fs, opt(c['arg']), opt(c['env']), _zl(c['main'].encode()),
                       _zl(lib.unhx(c['files'][c['main']])), exp))
    d = os.path.join(lib.ROCQ, 'cases')
    os.makedirs(d, exist_ok=True)
    p = os.path.join(d, 'cases_C14.v')
    with open(p, 'w') as fh:
        fh.write(''.join(out))
    try:
        r = subprocess.run(['timeout', '600', 'coqc', '-Q', 'theories', 'PV', 'cases/cases_C14.v'], cwd=lib.ROCQ,
                           capture_output=True, text=True, timeout=630)
    except subprocess.TimeoutExpired:
        return 'in-Coq shard timed out'
    if r.returncode != 0:
        e = lib.first_coq_error(r.stdout + r.stderr + '\n\n')
        return 'in-Coq evaluation of run_build differs from the extracted runner: %s' % (e or (r.stderr[-300:]))
    return None


def search(ctx, budget):
    """A proof / pin / correspondence broke and no failing input is in hand: look for one with the monitor."""
    import random
    rng = random.Random(ctx['seed'] + 1)
    t0 = time.time()
    found, n = [], 0
    while time.time() - t0 < budget and not found:
        batch = []
        for i in range(40):
            c = gen_case(rng, 'thorough')
            if i % 4 == 3:
                c = mutate_malformed(rng, c)
            batch.append(c)
        sub = dict(ctx)
        sub['model_exe'] = None
        r = run_cases(batch, sub)
        n += len(batch)
        found.extend(r['violations'])
    return {'violations': found, 'evaluations': n}
