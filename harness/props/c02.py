"""C02 - luamin renaming is a consistent injection that respects reserved names."""
import contextlib
import io
import os
import shutil

import lib

ID = 'C02'
GEN_FILES = ['T_luanames', 'T_lexer', 'T_minwiring_lua', 'T_minwiring_tool', 'T_minwiring_build',
             # source pins of the hand-modelled modules (gen/kernels_pins.py)
             'T_pins_luamin', 'T_pins_luacontainer']
COQ_PROPERTY = 'theories/Properties/C02.vo'
COQ_EXTRA = ['theories/Proofs/LuaMinPins.vo', 'theories/Proofs/LuaContainerPins.vo']
MODEL = ('ExC02', 'c02_main.ml')
MONITOR = ('MonC02', 'c02_mon_main.ml')
CASE_TIMEOUT = 120
RULE = ('kinds: nfi = a range of short-name ids (MinifyNameFactory._name_for_id and its two integer kernels vs the '
        'model, exhaustive 0..20,000 quick / 0..500,000 thorough); rnf = a keep file (read_names_file vs the model); '
        'factory = (configuration, keep file, identifier population in order of request) through one '
        'MinifyNameFactory; writer = a program built from the population through Lua.to_lines(writer_cls='
        'LuaMinifyTokenWriter, writer_args=...) with input and output identifier/label tokens aligned; cli-luamin / '
        'cli-build = the same through tool.main([luamin ...]) / tool.main([build --lua-minify ...]) and the written '
        'cart. Each factory/writer/cli case is compared with the extracted model (every output name, final counter) '
        'and the extracted holds_C02 is evaluated on the implementation\'s names; distinct+non-trivial = distinct '
        '(kind, configuration, keep file, population) with at least one renamed identifier, or distinct id ranges / '
        'keep files')
ASSUMPTIONS = ['ids below 2^53 (int(id / 26) is float division in _name_for_id; exact below 2^53)',
               'identifiers reach the factory only through LuaMinifyTokenWriter.to_lines (two call sites, pinned)']
PARTIAL = ''
CLAIM = dict(
    text=("Theorems (Coq, closed under the global context) about a model of MinifyNameFactory whose preserved-name "
          "table, NAME_CHARS and _name_for_id kernels are regenerated from lua.py on every run, for request sequences "
          "of every length, every configuration and every keep file: C02_name_for_id_injective (all ids), "
          "C02_name_for_id_identifier, C02_consistent, C02_injective (kept vs generated included), C02_kept_unchanged, "
          "C02_generated_not_reserved (not a keyword, builtin or keep-file name), C02_renaming (positional form), "
          "C02_short_name_terminates / C02_run_total (pigeonhole fuel), C02_cli_configs (luamin and build --lua-minify "
          "hand both options to the factory; wiring source pinned), C02_monitor_sound (holds_C02 <-> C02_spec) and "
          "C02_model_holds. Full statement proved after two fix: commits (S2: generated name could equal a keep-file "
          "name; S3: build --lua-minify dropped the keep options). Tie: pinned source of get_short_name / writer call "
          "sites / CLI wiring, correspondence of the extracted model with the real factory, writer and both CLI paths, "
          "and the extracted holds_C02 evaluated on the implementation's real renaming."),
    note=("Trusted: Coq kernel+VM, table dump and source pins in gen/kernels_lexer.py + gen/kernels_c02.py, "
          "ExtrOcamlBasic extraction, OCaml glue, the modelling of dict/set as association lists / lists. The "
          "alignment of input and output identifier tokens uses picotool's own lexer (C01/C07 check that lexer)."),
    technique='Coq proof (strong induction, state invariant, pigeonhole) over regenerated tables + correspondence + extracted monitor',
    design_ref='8 C02')

_WORK = os.path.join(lib.VERIF, 'work', 'c02')
_CTX = {}

KEYWORDS = [b'and', b'break', b'do', b'else', b'elseif', b'end', b'false', b'for', b'function', b'goto', b'if',
            b'in', b'local', b'nil', b'not', b'or', b'repeat', b'return', b'then', b'true', b'until', b'while']
SHORT = [bytes([c]) for c in b'abcdefghijklmnopqrstuvwxyz'] + [b'ba', b'bb', b'bc', b'bz', b'ca', b'zz', b'baa', b'bab']
BUILTINS = [b't', b'btn', b'spr', b'_init', b'_update', b'_draw', b'print', b'cos', b'sub', b'pset', b'add', b'all',
            b'del', b'time', b'max', b'min', b'abs', b'flr', b'rnd', b'map', b'pal', b'cls']
PREFIXY = [b'endx', b'fork', b'do_', b'ifa', b'nilx', b'in_', b'_end', b'goto_', b'btnx', b'tt', b'_t', b'A', b'B', b'Ba',
           b'aA', b'a1', b'a_', b'_', b'__', b'x0', b'foo', b'bar', b'baz', b'player', b'enemy_list', b'dx', b'dy']
GLYPH = [b'\x80', b'a\x99', b'\x8b\x91', b'x\xff', b'\xe2\x96\x88']
WEIRD = [b'', b'a b', b' a', b'a\n', b'#a', b'1a', b'a.b', b'?', b'::a::']


def _pop(rng, n, ascii_only=False, identifiers=True):
    pool = SHORT * 2 + BUILTINS + PREFIXY
    if not ascii_only:
        pool = pool + GLYPH
    if not identifiers:
        pool = pool + WEIRD + KEYWORDS[:6]
    out = []
    distinct = []
    for _ in range(n):
        r = rng.random()
        if distinct and r < 0.3:
            out.append(rng.choice(distinct))
            continue
        if r < 0.75 or n > 200:
            if n > 200 and rng.random() < 0.9:
                nm = b'n%d' % rng.randrange(0, 4 * n)
            else:
                nm = rng.choice(pool)
        else:
            nm = rng.choice(pool) + rng.choice([b'', b'1', b'_', b'x', b'a'])
        out.append(nm)
        distinct.append(nm)
    return out


def _keepfile(rng, names):
    """a keep file drawn from the population and from would-be generated names"""
    ks = []
    for _ in range(rng.randrange(0, 8)):
        ks.append(rng.choice(names) if names and rng.random() < 0.5 else rng.choice(SHORT[:8] + [b'ba', b'foo', b't']))
    lines = []
    for k in ks:
        r = rng.random()
        if r < 0.12:
            lines.append(b'# ' + k)
        elif r < 0.2:
            lines.append(b'')
        elif r < 0.25:
            lines.append(b'   ')
        pre = rng.choice([b'', b'', b'', b' ', b'\t', b'  '])
        post = rng.choice([b'', b'', b'', b' ', b'\t ', b'\r', b' \x0b', b'\x0c'])
        lines.append(pre + k + post)
    txt = b'\n'.join(lines)
    if lines and rng.random() < 0.8:
        txt += b'\n'
    return txt


def _cfg(rng, names):
    r = rng.random()
    if r < 0.3:
        return 0, None
    if r < 0.42:
        return 1, None
    if r < 0.5:
        return 1, _keepfile(rng, names)
    return 0, _keepfile(rng, names)


def generate(tier, rng):
    quick = tier == 'quick'
    top = 20000 if quick else 500000
    step = 2000 if quick else 10000
    for s in range(0, top, step):
        yield {'kind': 'nfi', 'start': s, 'count': step}
    for s in [26 ** 3 - 5, 26 ** 4 - 5, 26 ** 5 - 5, 26 ** 6 - 5, 2 ** 31 - 10, 2 ** 32 - 10, 2 ** 52, 2 ** 53 - 30]:
        yield {'kind': 'nfi', 'start': s, 'count': 20}
    for _ in range(300 if quick else 3000):
        yield {'kind': 'rnf', 'kf': lib.hx(_keepfile(rng, _pop(rng, 6, identifiers=False)))}
    for c in gen_factory(rng, 2000 if quick else 20000):
        yield c
    for c in gen_writer(rng, 300 if quick else 3000):
        yield c
    for c in gen_cli(rng, 50 if quick else 600):
        yield c


def gen_factory(rng, nfac):
    for i in range(nfac):
        r = rng.random()
        if i % max(1, nfac // 8) == 0:
            n = rng.randrange(1500, 3000)
        elif r < 0.7:
            n = rng.randrange(1, 12)
        elif r < 0.95:
            n = rng.randrange(12, 80)
        else:
            n = rng.randrange(80, 800)
        names = _pop(rng, n, identifiers=rng.random() < 0.8)
        ka, kf = _cfg(rng, names)
        yield {'kind': 'factory', 'ka': ka, 'kf': None if kf is None else lib.hx(kf), 'names': [lib.hx(x) for x in names]}


def gen_writer(rng, n_cases):
    for i in range(n_cases):
        n = rng.randrange(1, 40) if i % 25 else rng.randrange(800, 1500)
        names = [x for x in _pop(rng, n) if x not in KEYWORDS]
        ka, kf = _cfg(rng, names)
        c = {'kind': 'writer', 'ka': ka, 'kf': None if kf is None else lib.hx(kf), 'names': [lib.hx(x) for x in names],
             'shape': rng.randrange(1 << 30)}
        if i % 4 == 1:
            c['used'] = 1
        yield c


def gen_cli(rng, n_cases):
    for i in range(n_cases):
        for kind in ('cli-luamin', 'cli-build'):
            names = [x for x in _pop(rng, rng.randrange(1, 30), ascii_only=True) if x not in KEYWORDS]
            ka, kf = _cfg(rng, names)
            yield {'kind': kind, 'ka': ka, 'kf': None if kf is None else lib.hx(kf), 'names': [lib.hx(x) for x in names],
                   'shape': rng.randrange(1 << 30)}


def corpus_cases():
    # S2 (fixed): keep file "a", the identifier foo would have been shortened to a
    for kind in ('factory', 'writer', 'cli-luamin', 'cli-build'):
        yield {'kind': kind, 'ka': 0, 'kf': lib.hx(b'a\n'), 'names': [lib.hx(b'foo'), lib.hx(b'a')], 'shape': 1}
    # S3 (fixed): build --lua-minify --keep-all-names / --keep-names-from-file
    yield {'kind': 'cli-build', 'ka': 1, 'kf': None, 'names': [lib.hx(b'foo'), lib.hx(b'bar')], 'shape': 2}
    yield {'kind': 'cli-build', 'ka': 0, 'kf': lib.hx(b'foo\n'), 'names': [lib.hx(b'foo'), lib.hx(b'bar')], 'shape': 2}
    yield {'kind': 'cli-luamin', 'ka': 1, 'kf': lib.hx(b'# only a comment\n\n'), 'names': [lib.hx(b'foo')], 'shape': 3}
    # candidate `t` (id 19) is a builtin and is skipped
    yield {'kind': 'factory', 'ka': 0, 'kf': None, 'names': [lib.hx(b'v%d' % i) for i in range(30)] + [lib.hx(b't')]}
    yield {'kind': 'factory', 'ka': 0, 'kf': lib.hx(b''), 'names': [lib.hx(b'x'), lib.hx(b'')]}


# ------------------------------------------------------------------ programs built from a population
_TEMPLATES = [
    (b'local %s = %s\n', 2), (b'%s.%s = %s\n', 3), (b'%s:%s(%s)\n', 3),
    (b'function %s(%s, %s) return %s end\n', 4), (b'goto %s\n::%s::\n', 2),
    (b'%s = {%s = %s, [%s] = "%s"}\n', 5), (b'for %s = 1, 10 do %s(%s) end\n', 3),
    (b'if (%s) %s = %s\n', 3), (b'%s += %s\n', 2), (b'?%s\n', 1), (b'%s = -%s // %s\n', 3),
    (b'while %s do %s = %s - 1 end\n', 3), (b'%s = %s[%s]\n', 3), (b'::%s:: ::%s::\n', 2),
]


# forms outside the dialect picotool reads today (Lua allows blanks inside a label statement; picotool's lexer
# does not).  Used by the search only: if a change makes picotool accept them, renaming must be consistent there
# too; while it rejects them (LexerError / ParserError) the case carries no claim.
_TEMPLATES_EXT = [(b'goto %s\n:: %s ::\n', 2), (b'::\t%s  ::\ngoto %s\n', 2), (b':: %s::\ngoto %s\n', 2)]


def _program(names, shape, ext=False):
    import random
    r = random.Random(shape)
    templates = _TEMPLATES + (_TEMPLATES_EXT * 3 if ext else [])
    out = [b'-- title\n', b'-- by\n'] if shape % 3 == 0 else []
    i = 0
    names = list(names)
    while i < len(names):
        t, k = r.choice(templates)
        args = [names[(i + j) % len(names)] for j in range(k)]
        if b'goto' in t:
            args = [args[0], args[0]]
        out.append(t % tuple(args))
        i += k
    return b''.join(out)


def _keep_spec(kf):
    """the keep file read independently, from the documented format: one name per line, blank lines
    and lines whose first non-blank character is # ignored"""
    if kf is None:
        return []
    res = []
    for ln in kf.split(b'\n'):
        ln = ln.strip(b' \t\n\r\x0b\x0c')
        if ln and not ln.startswith(b'#'):
            res.append(ln)
    return res


_counter = [0]


def _path(ext):
    os.makedirs(_WORK, exist_ok=True)
    _counter[0] += 1
    return os.path.join(_WORK, 'f%d_%d%s' % (os.getpid(), _counter[0], ext))


@contextlib.contextmanager
def _quiet(sink):
    """picotool's util module keeps its own references to the process streams"""
    from pico8 import util
    ow, oe = util._write_stream, util._error_stream
    util._write_stream = util._error_stream = sink
    try:
        with contextlib.redirect_stdout(sink), contextlib.redirect_stderr(sink):
            yield
    finally:
        util._write_stream, util._error_stream = ow, oe


def _idents(tokens):
    """significant tokens -> (kinds, identifier list): TokName code, TokLabel name without colons"""
    from pico8.lua import lexer
    kinds, ids = [], []
    for t in tokens:
        if isinstance(t, (lexer.TokSpace, lexer.TokNewline, lexer.TokComment)):
            continue
        kinds.append(type(t).__name__)
        if isinstance(t, lexer.TokName):
            ids.append(bytes(t.code))
        elif isinstance(t, lexer.TokLabel):
            # the label's name, read off the token text by the rule of the language (not by the library's slicing)
            ids.append(bytes(t.code).strip(b':').strip(b' \t'))
    return kinds, ids


def _reserved():
    from pico8.lua import lua, lexer
    return sorted(lexer.LUA_KEYWORDS | lua.PICO8_BUILTINS)


def run_impl(case):
    from pico8.lua import lua
    kind = case['kind']
    if kind == 'nfi':
        s, c = case['start'], case['count']
        names = []
        for i in range(s, s + c):
            try:
                names.append(lib.hx(lua.MinifyNameFactory._name_for_id(i)))
            except Exception as e:  # noqa
                names.append('!' + lib.exc_name(e))
        n = len(lua.MinifyNameFactory.NAME_CHARS)
        return {'names': names, 'kern': [(i, 1 if i >= n else 0, i % n) for i in (s, s + c - 1)]}
    if kind == 'rnf':
        p = _path('.txt')
        with open(p, 'wb') as fh:
            fh.write(lib.unhx(case['kf']))
        try:
            return {'set': sorted(lua.MinifyNameFactory.read_names_file(p))}
        except Exception as e:  # noqa
            return {'raised': lib.exc_name(e)}
        finally:
            os.remove(p)
    kf = None if case['kf'] is None else lib.unhx(case['kf'])
    ka = bool(case['ka'])
    names = [lib.unhx(x) for x in case['names']]
    kpath = None
    files = []
    if kf is not None:
        kpath = _path('.txt')
        with open(kpath, 'wb') as fh:
            fh.write(kf)
        files.append(kpath)
    obs = {'reserved': _reserved(), 'keep': _keep_spec(kf)}
    try:
        if kind == 'factory':
            f = lua.MinifyNameFactory(keep_all_names=ka, keep_names_from_file=kpath)
            obs['names'] = names
            obs['outs'] = [bytes(f.get_short_name(n)) for n in names]
            obs['next_id'] = f._next_name_id
            return obs
        src = _program(names, case.get('shape', 0), ext=bool(case.get('ext')))
        lines = [ln + b'\n' for ln in src.split(b'\n')[:-1]]
        li = lua.Lua.from_lines(lines, version=8)
        ikinds, iids = _idents(li.tokens)
        if kind == 'writer':
            if case.get('used'):
                # the Lua object is not fresh: it has been echoed and minified under ANOTHER configuration before
                # (keep-all-names flipped, no keep file); the observed run must not depend on that history
                b''.join(li.to_lines())
                b''.join(li.to_lines(writer_cls=lua.LuaMinifyTokenWriter,
                                    writer_args={'keep_all_names': not ka, 'keep_names_from_file': None}))
            out = b''.join(li.to_lines(writer_cls=lua.LuaMinifyTokenWriter,
                                       writer_args={'keep_all_names': ka, 'keep_names_from_file': kpath}))
        else:
            from pico8 import tool
            opts = (['--keep-all-names'] if ka else []) + (['--keep-names-from-file', kpath] if kpath else [])
            sink = io.StringIO()
            if kind == 'cli-luamin':
                cart = _path('.p8')
                outp = cart[:-3] + '_fmt.p8'
                with open(cart, 'wb') as fh:
                    fh.write(b'pico-8 cartridge // http://www.pico-8.com\nversion 8\n__lua__\n' + src)
                files += [cart, outp]
                with _quiet(sink):
                    rc = tool.main(['luamin'] + opts + [cart])
            else:
                luaf = _path('.lua')
                outp = _path('.p8')
                with open(luaf, 'wb') as fh:
                    fh.write(src)
                files += [luaf, outp]
                with _quiet(sink):
                    rc = tool.main(['build', '--lua', luaf, '--lua-minify'] + opts + [outp])
            if rc != 0:
                return {'raised': 'exit-%s %s' % (rc, sink.getvalue()[-200:])}
            with open(outp, 'rb') as fh:
                txt = fh.read()
            a = txt.index(b'__lua__\n') + 8
            b = txt.find(b'\n__gfx__', a)
            out = txt[a:] if b < 0 else txt[a:b + 1]
        lo = lua.Lua.from_lines([ln + b'\n' for ln in out.split(b'\n')[:-1]] if out.endswith(b'\n') else
                                [ln + b'\n' for ln in out.split(b'\n')], version=8)
        okinds, oids = _idents(lo.tokens)
        obs['names'] = iids
        obs['outs'] = oids
        obs['aligned'] = (ikinds == okinds)
        obs['src'] = src
        obs['out'] = out
        return obs
    except Exception as e:  # noqa
        if case.get('ext') and lib.exc_name(e) in ('ParserError', 'LexerError'):
            return {'outside': True}
        return {'raised': lib.exc_name(e) + ' ' + str(e)[:100]}
    finally:
        for p in files:
            if os.path.exists(p):
                os.remove(p)


def _nl(names):
    return '_' if not names else ','.join(lib.hx(n) for n in names)


def model_requests(case, obs):
    kind = case['kind']
    if kind == 'nfi':
        return ['nfi %d %d' % (case['start'], case['count'])] + ['kern %d' % k[0] for k in obs['kern']]
    if kind == 'rnf':
        return ['rnf %s' % case['kf']]
    if 'names' not in obs:
        return []
    mode = {'factory': 'd', 'writer': 'd', 'cli-luamin': 'l', 'cli-build': 'b'}[kind]
    return ['run %s %d %s %s' % (mode, case['ka'], 'N' if case['kf'] is None else case['kf'], _nl(obs['names']))]


def compare(case, obs, answers):
    kind = case['kind']
    if obs.get('timeout'):
        return 'implementation timed out'
    if kind == 'nfi':
        exp = ','.join(obs['names'])
        if answers[0] != exp:
            got = answers[0].split(',')
            for i, (a, b) in enumerate(zip(obs['names'], got)):
                if a != b:
                    return '_name_for_id(%d): implementation %s, model %s' % (case['start'] + i, a, b)
            return '_name_for_id range %d: answer shapes differ: %s' % (case['start'], answers[0][:80])
        for (i, rec, dig), a in zip(obs['kern'], answers[1:]):
            if a != '%d %d' % (rec, dig):
                return 'kernels at id %d: implementation %d %d, regenerated kernels %s' % (i, rec, dig, a)
        return None
    if kind == 'rnf':
        if 'raised' in obs:
            return 'read_names_file raised %s' % obs['raised']
        got = sorted(set(lib.unhx(x) for x in answers[0].split(','))) if answers[0] != '_' else []
        if got != obs['set']:
            return 'read_names_file: implementation %r, model %r' % (obs['set'][:8], got[:8])
        if sorted(set(_keep_spec(lib.unhx(case['kf'])))) != obs['set']:
            return 'read_names_file: implementation %r, documented format %r' % (obs['set'][:8], _keep_spec(lib.unhx(case['kf']))[:8])
        return None
    if obs.get('outside'):
        return None
    if 'raised' in obs:
        return '%s raised %s' % (kind, obs['raised'])
    if kind != 'factory' and not obs['aligned']:
        return 'output tokens do not align with input tokens (kinds differ): %r -> %r' % (obs['src'][:80], obs['out'][:80])
    a = answers[0].split(' ')
    if a[0] != 'OK':
        return 'model answered %s' % answers[0][:80]
    mouts = [] if a[2] == '_' else [lib.unhx(x) for x in a[2].split(',')]
    if mouts != obs['outs']:
        for i, (x, y) in enumerate(zip(obs['outs'], mouts)):
            if x != y:
                return 'request %d (%r): implementation %r, model %r' % (i, obs['names'][i], x, y)
        return 'number of outputs: implementation %d, model %d' % (len(obs['outs']), len(mouts))
    if kind == 'factory' and int(a[1]) != obs['next_id']:
        return '_next_name_id: implementation %d, model %s' % (obs['next_id'], a[1])
    return None


CLAUSES = ['length', 'consistent', 'injective', 'kept', 'fresh']


def _mon_lines(case, obs):
    tail = '%d %s %s %s %s' % (case['ka'], _nl(obs['keep']), _nl(obs['reserved']), _nl(obs['names']), _nl(obs['outs']))
    return ['hold ' + tail] + [c + ' ' + tail for c in CLAUSES]


def monitor_requests(case, obs):
    if case['kind'] in ('nfi', 'rnf') or 'names' not in obs:
        return []
    return _mon_lines(case, obs)


def _cfgname(case):
    return ('keep-all' if case['ka'] else 'default') + ('+keep-file' if case.get('kf') is not None else '')


def _failed(case, obs):
    """failing clauses (asks the monitor again; used for signature / minimisation only)"""
    if 'failed' in obs:
        return obs['failed']
    exe = _CTX.get('monitor_exe')
    if not exe or 'names' not in obs:
        return []
    ans = lib.run_driver(exe, _mon_lines(case, obs))
    obs['failed'] = [c for c, a in zip(CLAUSES, ans[1:]) if a != 'true'] or (['hold'] if ans[0] != 'true' else [])
    return obs['failed']


def signature(case, obs):
    return 'C02/%s/%s/%s' % ('+'.join(_failed(case, obs)) or 'none', _cfgname(case),
                             {'factory': 'factory', 'writer': 'writer'}.get(case['kind'], case['kind']))


def what(case, obs):
    f = _failed(case, obs)
    txt = {'length': 'an identifier token disappeared or appeared', 'consistent': 'one identifier was renamed to two different names',
           'injective': 'two different identifiers became the same identifier',
           'kept': 'a keyword / builtin / keep-file name (or, with keep-all, a name) was not left as written',
           'fresh': 'a generated name is a keyword, builtin, keep-file name or not an identifier'}
    return '%s (%s, %s): %s' % ('; '.join(txt.get(c, c) for c in f), case['kind'], _cfgname(case), describe(case, obs))


def describe(case, obs):
    d = {'kind': case['kind']}
    if case['kind'] == 'nfi':
        d.update(start=case['start'], count=case['count'])
    elif case['kind'] == 'rnf':
        d.update(keep_file=repr(lib.unhx(case['kf']))[:80])
    else:
        d.update(config=_cfgname(case), keep_file=None if case['kf'] is None else repr(lib.unhx(case['kf']))[:60],
                 n_names=len(case['names']), names=[repr(lib.unhx(x)) for x in case['names'][:6]])
        if obs and 'outs' in obs:
            d['pairs'] = [[repr(a), repr(b)] for a, b in list(zip(obs['names'], obs['outs']))[:6]]
        if obs and 'raised' in obs:
            d['raised'] = obs['raised']
    return d


def minimize(case, obs, answers):
    """greedy removal of names while some clause still fails on the implementation"""
    obs['failed'] = [c for c, a in zip(CLAUSES, answers[1:]) if a != 'true'] or ['hold']
    exe = _CTX.get('monitor_exe')
    _CTX['minimized'] = _CTX.get('minimized', 0) + 1
    if not exe or _CTX['minimized'] > 6:
        return case
    cur = dict(case)
    want = obs['failed']

    def fails(c):
        o = run_impl(c)
        if 'names' not in o:
            return False
        ans = lib.run_driver(exe, _mon_lines(c, o))
        return [x for x, a in zip(CLAUSES, ans[1:]) if a != 'true'] == want
    names = list(cur['names'])
    step = max(1, len(names) // 2)
    budget = 200
    while step >= 1 and budget > 0:
        i = 0
        changed = False
        while i < len(names) and budget > 0:
            trial = names[:i] + names[i + step:]
            budget -= 1
            c2 = dict(cur, names=trial)
            if trial and fails(c2):
                names = trial
                changed = True
            else:
                i += step
        if not changed:
            step //= 2
    cur['names'] = names
    o2 = run_impl(cur)
    if 'names' in o2:
        obs.clear()
        obs.update(o2)
        obs['failed'] = want
    return cur


def nontrivial_key(case, obs):
    if case['kind'] == 'nfi':
        return ('nfi', case['start'], case['count'])
    if case['kind'] == 'rnf':
        return ('rnf', case['kf']) if obs.get('set') else None
    if 'outs' not in obs or all(a == b for a, b in zip(obs['names'], obs['outs'])) and not case['ka']:
        return None
    return (case['kind'], case['ka'], case['kf'], tuple(case['names']), case.get('shape'))


def histogram_key(case, obs):
    if case['kind'] in ('nfi', 'rnf'):
        return case['kind']
    n = len(set(case['names']))
    b = '1-9' if n < 10 else '10-99' if n < 100 else '100-701' if n < 702 else '702+ (3-letter names)'
    return '%s/%s/distinct-%s' % (case['kind'], _cfgname(case), b)


def run_cases(cases, ctx):
    _CTX.update(ctx)
    _CTX['minimized'] = 0
    try:
        res = lib.standard_run(__import__('props.c02', fromlist=['x']), cases, ctx)
    finally:
        shutil.rmtree(_WORK, ignore_errors=True)
    res['evaluations'] = sum(c['count'] if c['kind'] == 'nfi' else 1 for c in cases)
    return res


def search(ctx, budget):
    import random
    import time
    _CTX.update(ctx)
    rng = random.Random(ctx['seed'] + 1)
    t0 = time.time()
    viol, n = [], 0
    mod = __import__('props.c02', fromlist=['x'])
    def mixed():
        while True:
            for c in gen_factory(rng, 40):
                yield c
            for c in gen_writer(rng, 10):
                yield c
            for c in gen_cli(rng, 5):
                yield c
            for c in gen_writer(rng, 6):       # forms beyond today's dialect (see _TEMPLATES_EXT)
                c['ext'] = 1
                yield c
    gen = mixed()
    try:
        while time.time() - t0 < budget and not viol:
            batch = []
            for c in gen:
                batch.append(c)
                if len(batch) >= 200:
                    break
            if not batch:
                break
            r = lib.standard_run(mod, batch, {'monitor_exe': ctx.get('monitor_exe'), 'model_exe': None})
            n += len(batch)
            viol.extend(r['violations'])
    finally:
        shutil.rmtree(_WORK, ignore_errors=True)
    return {'violations': viol, 'evaluations': n}
