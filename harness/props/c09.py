"""C09 - luafmt changes only white space, works on every valid program, never drops code."""
import lib
from props import pgen, pstack

ID = 'C09'
GEN_FILES = ['T_parser', 'T_fmtspaces', 'T_pins_parser', 'T_pins_luawriter', 'T_lexer', 'T_pins_lexer', 'T_luanames', 'T_minifier',
             'T_minifier_p8', 'T_minwiring_lua', 'T_minwiring_tool', 'T_minwiring_build',
             # source pins of the hand-modelled modules (gen/kernels_pins.py)
             'T_pins_tool']
COQ_PROPERTY = 'theories/Properties/C09.vo'
COQ_EXTRA = ['theories/Proofs/ParserPins.vo', 'theories/Proofs/AstWriterPins.vo', 'theories/Generated/T_parser_selftest.vo',
             'theories/Proofs/LexerPins.vo', 'theories/Proofs/LexTokenSame.vo',
             'theories/Proofs/ToolPins.vo']
MODEL = ('ExC09', ['lua_io.ml', 'c09_main.ml'])
MONITOR = ('MonC09', ['lua_io.ml', 'c09_mon_main.ml'])
CASE_TIMEOUT = 180
RULE = ('valid stream: programs derived at random from the dialect grammar (harness/props/pgen.py) x layouts (random / compact / '
        'spaces) x writers (LuaASTEchoWriter and LuaFormatterWriter with indent widths 0,2,4,8; thorough 0..8), plus degenerate '
        'programs (empty, comment only, no final newline); lexable-but-not-fully-parsed stream: valid programs with a token '
        'deleted / duplicated / replaced, newer PICO-8 syntax (`a |= 1`, `?x,y`).  Per (program, writer): the real writer runs '
        'through Lua.to_lines with a recording subclass (every _get_code_for_spaces call and every cursor advance); the '
        'extracted walk model must produce the same chunk sequence, the same text (echo spaces / the formatter pipeline model) '
        'or the same exception; the output is lexed again by the real lexer and the extracted monitor holds_C09 compares it '
        'with the input: same tokens and comments in order with identical spelling, short-ifs still on one line, nothing '
        'written unless the parse reached the end, no exception on a valid program.  distinct+non-trivial = distinct '
        '(significant-token sequence, writer) pairs with at least one token')
ASSUMPTIONS = ['tokens are those of pico8/lua/lexer.py for both the input and the written text (C07 is about the lexer)',
               'writer mode: args without ignore_tokens (what p8tool luafmt uses)',
               'valid programs are generated without a parenthesised expression followed by a suffix and without a short-if '
               'body starting with do, except in the dedicated streams (known findings)']
PARTIAL = ('C09_aligned / C09_same_code are proved for every source of the reference dialect whose tokens the parser model reads to '
           'their end and whose tree lies in the domain `writable` (Model/WriterDomain.v): plain token spelling (what the lexer '
           'produces), no parenthesised prefix followed by a suffix (known finding paren-suffix), no `if c do ... end` (known finding '
           'short-if-do-body), none of the non-programs the parser accepts (`()`, `{,1}`, `for =1,2 do end`, `if then`, `if f(x) y=1`). '
           'The first two exclusions are needed: C09_aligned_paren_prefix_refuted, C09_aligned_if_do_refuted. C09_same_code is about the '
           'lexer MODEL run on the written text of the writer MODEL (both tied to the code by correspondence; the reference dialect of '
           'Spec/LuaLex.v bounds it: no lone CR, no `--[==[`); C09_luafmt_holds / C09_echo_holds give the whole instance predicate holds_C09 '
           '(parsed to the end, same code view, line-scoped constructs keep their extent) for the model inside that domain. Whole-program idempotence moved to C10_idempotent. '
           'Valid programs ARE inside the domain: C09_valid_in_domain / C09_valid_programs (Proofs/ValidDomain1..6.v, ValidDomainLex.v) - every source of the '
           'reference dialect whose lexer tokens have a derivation g in the reference grammar with line_scoped, excl g (the side condition of '
           'C08_complete: call ambiguity `;(`, one-line if body not empty / not a do-block = finding short-if-do-body, else part not empty) '
           'and g_no_paren_suffix g (= finding paren-suffix) is parsed to the end, luafmt / the echo writer succeed and holds_C09 holds with '
           'valid = true. Left: the two findings and the side conditions of excl. See notes/C09.md')
CLAIM = dict(
    text=("Model/AstWriter.v mirrors LuaASTEchoWriter (every handler, _get_text/_get_name/_get_semis/_get_code_for_spaces "
          "with the token cursor and the indent counter, the end-of-input check of to_lines), parameterised by the spaces "
          "function. Theorems (closed under the global context): C09_aligned (for every token list: if the parser model returns "
          "(root, e), nothing but white space follows e and the tree is in the domain `writable` - lexer token spelling, no "
          "parenthesised prefix with a suffix, no `if c do`, none of the non-programs the parser lets through - then the writer walk over the Python-visible tree never raises, ends with its cursor at the end of the "
          "token list, its Code chunks are exactly the significant tokens of the input, in order, each with the token's own code, "
          "and the chunk list tiles the token list, so only the white-space runs are left to the spaces function), "
          "C09_whitespace_only (for the echo writer the text is the input's bytes; for luafmt with any indent width the text has "
          "the same bytes as the input outside white space, in order, and every code token verbatim), C09_aligned_*_refuted (the "
          "two finding exclusions are needed: witness programs on which the model - and the real writer - raise AssertionError), "
          "C09_no_silent_loss (if a significant token lies at or after the end of the root node the writer raises ParserError and "
          "writes nothing), C09_same_code / C09_echo_same_code (the token-level clause: for every byte string of the reference "
          "dialect, lexed by the lexer model, parsed to the end, tree in the domain: the text luafmt - any indent width - / the echo "
          "writer writes is again a byte string of the reference dialect, the lexer model reads it, and the tokens read have the same "
          "code view same_code as the input: the same significant tokens with class and code, in order, and between them the same "
          "comments with the same bytes outside white space; so no end-of-line comment swallows code, no two tokens are glued, the "
          "token count is unchanged), C09_luafmt_holds / C09_echo_holds (under the same hypotheses the observation satisfies the "
          "whole instance predicate holds_C09 that the monitor evaluates on the real output; the line-scope clause in its strongest "
          "form: nl_before - for every code token, is there a newline token between the previous code token and it - is the same "
          "list for the input and the written text, so a one-line if stays on one line and what followed it on a later line stays "
          "on a later line), whole-program idempotence on texts is C10_idempotent (Properties/C10.v, Proofs/FmtRelexIdem.v, built on the "
          "re-lexing theorem behind C09_same_code), "
          "C09_run_same_comments (every re.sub of _get_code_for_spaces is neutral for a byte-level "
          "white-space / comment automaton), C09_valid_in_domain / C09_valid_tree_in_domain (a token list with a derivation g of the "
          "reference grammar - derives, line_scoped, the side condition excl of C08_complete, and g_no_paren_suffix g: no call / index / "
          "field / method suffix on a parenthesised expression - is parsed to its end into a tree with strict, no_if_do, no_paren_prefix; "
          "with plain_tokens that is `writable`), C09_lexer_plain_tokens (plain_tokens holds of the lexer model's tokens of every source "
          "of the reference dialect), C09_valid_programs / C09_valid_programs_echo (composition: for every such source luafmt - every "
          "width - and the echo writer succeed and the observation satisfies holds_C09 with valid = true), C09_conditions_needed (each "
          "of the two conditions excludes exactly its finding's witness). Proof route: Proofs/ValidDomain1..6.v re-run the completeness "
          "proof of C08 with the relation `the tree denotes the derivation and lies in the domain`; Proofs/ParserShape.v re-runs the weakest-precondition proof of the parser with the "
          "postcondition `span` (every leaf was the first significant token at the cursor, node ends are cursors) and `shaped` "
          "(per node class, which hidden keyword / symbol leaves, token leaves and sub-nodes occur in which order); "
          "Proofs/AstWriterAligned.v shows by induction on the tree that the walk re-emits exactly the leaves; Proofs/FmtRelexAuto.v "
          "(automaton, neutrality of the 15 substitutions, what a formatted run begins with), Proofs/FmtRelexLex.v (automaton = "
          "reference lexer on trivia text; a code token is read back in front of the same first byte / blank / line feed / nothing), "
          "Proofs/FmtRelexMain.v (induction over the aligned chunk list, composition with C07's lex_agrees_code on both texts). Tie: chunk-level "
          "correspondence of the extracted walk with the instrumented real writers, text-level correspondence for both writers, "
          "and the extracted monitor holds_C09 on the re-lexed real output."),
    note=("Trusted: Coq kernel+VM, ExtrOcamlBasic extraction, OCaml glue, the hand-written walk model (correspondence-tested "
          "chunk by chunk), the real lexer used to tokenise input and output, the program generator."),
    technique='Coq proof over a hand-written writer model + extracted-model correspondence + extracted monitor',
    design_ref='8 C09')

MAIN_ALLOW = ('nested_shortif', 'break_mid', 'qmark')
SPECIAL = ['paren-suffix', 'short-if-do-body']
WIDTHS_QUICK = [-1, 0, 2, 4, 8]
WIDTHS_THOROUGH = [-1, 0, 1, 2, 3, 4, 5, 6, 7, 8]


def _case(p, src, style, widths, valid=True):
    return {'kind': 'gen', 'src': lib.hx(src), 'features': sorted(p.features), 'style': style, 'widths': widths, 'valid': valid}


def generate(tier, rng):
    quick = tier == 'quick'
    widths = WIDTHS_QUICK if quick else WIDTHS_THOROUGH
    styles = ['random', 'compact', 'spaces']
    for i in range(130 if quick else 2000):
        p = pgen.generate_program(rng, maxdepth=rng.choice([1, 2, 2, 3, 3, 4]), size=rng.choice([1, 2, 3, 4, 6]), allow=MAIN_ALLOW)
        for style in styles:
            src = pgen.layout(p, rng, style)
            w = widths if quick else [-1] + rng.sample(widths[1:], 4)
            yield _case(p, src, style, w)
    for i in range(60 if quick else 600):
        p = pgen.generate_program(rng, maxdepth=2, size=rng.choice([1, 2, 3]), allow=MAIN_ALLOW, force=('short-if',))
        src = pgen.layout(p, rng, rng.choice(styles))
        yield _case(p, src, 'short-if', widths if quick else [-1] + rng.sample(widths[1:], 3))
    # forms the AST writers are known not to handle: dedicated streams
    for allow, feat in (('paren_suffix', 'paren-suffix'), ('shortif_do_body', 'short-if-do-body')):
        for i in range(25 if quick else 200):
            p = pgen.generate_program(rng, maxdepth=2, size=rng.choice([1, 2]), allow=MAIN_ALLOW + (allow,), force=(feat,))
            if feat not in p.features:
                continue
            yield _case(p, pgen.layout(p, rng, rng.choice(styles)), 'special', [-1, 2])
    # lexable but not fully parsed / not parsed at all: mutants
    for i in range(200 if quick else 3000):
        p = pgen.generate_program(rng, maxdepth=rng.choice([1, 2, 3]), size=rng.choice([1, 2, 3]), allow=MAIN_ALLOW)
        toks = list(p.toks)
        if not toks:
            continue
        k = rng.randrange(len(toks))
        r = rng.random()
        if r < 0.35:
            del toks[k]
        elif r < 0.5:
            toks.insert(k, toks[k])
        elif r < 0.65:
            toks[k:k] = rng.choice([[('A', b'a'), ('Y', b'|'), ('Y', b'='), ('U', b'1')],
                                     [('A', b'?'), ('A', b'x'), ('Y', b','), ('A', b'y')],
                                     [('A', b'a'), ('Y', b'^^'), ('Y', b'='), ('U', b'1')],
                                     [('A', b'x'), ('Y', b'='), ('A', b'y'), ('Y', b'='), ('A', b'z')]])
        else:
            toks[k] = rng.choice([('K', b'end'), ('Y', b')'), ('Y', b'('), ('K', b'then'), ('Y', b'='), ('Y', b','), ('K', b'do'),
                                  ('A', b'x'), ('K', b'if'), ('K', b'else'), ('Y', b'{'), ('Y', b'}'), ('K', b'function'),
                                  ('Y', b'...'), ('K', b'not'), ('Y', b'|'), ('Y', b'['), ('K', b'return'), ('K', b'break')])
        p.toks = toks
        p.gap = {g: v for g, v in p.gap.items() if g < k}
        src = pgen.layout(p, rng, rng.choice(['random', 'spaces', 'spaces']))
        yield {'kind': 'text', 'src': lib.hx(src), 'origin': 'mutant', 'widths': [-1, 2], 'valid': False}
        if i % 3 == 0 and src.rstrip(b' \t\r\n') != src:
            # the same input ending in its last code token (nothing, not even a line end, after what the parser may
            # have left unparsed)
            yield {'kind': 'text', 'src': lib.hx(src.rstrip(b' \t\r\n')), 'origin': 'mutant', 'widths': [-1, 2], 'valid': False}


DEGENERATE = [b'', b'\n', b'\n\n', b' ', b'-- only a comment', b'-- c\n', b'--[[ block\ncomment ]]', b'// c', b'x=1', b'x=1 -- c', b'return',
              b'f()', b'if (a) b=1', b'do end', b'x=1;', b'x = "s"', b'::l::', b'goto l', b'while x do break end', b'x=1\n\n\n', b'x=1\n  ',
              b'\n\nx=1', b'  x=1', b'x=[[a\nb]]', b'x=1 --[[c]]', b'local function f() end', b'x={}', b'x=f{}', b'x=f""']
CORPUS_VALID = [b'if (a) b=1 else\nc=2\n', b'if (a) b=1 else ;\nc=2\n', b'if (a) b=1 else -- x\nc=2\n', b'if (a) b=1 else',
                b'if (a) b=1 else  ;;  \n', b'do if (a) b=1 else\nend\n', b'if (a) if (b) c=1 else\nd=2\n',   # else without statements (fixed)
                b'(f or g)(x)\n', b'x=(a+b).c\n', b'(-x):f()\n', b'x=(a)(b)\n', b'(a).b=1\n', b'("x"):len()\n', b'(f)(x)\n', b'x=((a))\n', b'x=(a)\n',
                b'if (a) do x=1 end\n', b'if (a) if (b) c=1\nd=2\n', b'if (a) b=1 else c=2\nd=3\n', b'if (a) b=1 -- c\nd=3\n', b'do if (a) b=1\nc=2 end\n',
                b'x=1;;y=2;\n', b';x=1\n', b'x = {1,2;3,}\n', b'x = {a=1,\n  [2]=3;\n  f(),\n}\n', b'for i=1,2 do end for a,b in c do end\n',
                b'function a.b:c(...) return ... end\n', b'while true do break x=1 end\n', b'x\t=\t1\r\ny = 2\r\n', b'x=1\n\n\n\ny=2\n', b'do\n\nx=1\nend\n',
                b'do\n// c\nx=1\nend\n', b'x=1--c\ny=2//d\n',
                b'if x==1then x=2 end\n', b'y=x>2or 1\n', b'z=3x\n' if False else b'if x<0x1then y=1 end\n']      # numeral directly followed by a word
CORPUS_TEXT = [b'print(x))', b'function f()\n x=1\nend\nend', b'a=1\nb', b'x=1 end', b'x=1)', b'x=1 ?',      # the unparsed token is the very last token
               b'x=1\n?x,y\nz=2\n', b'a |= 1\n', b'x=1\na |= 1\n', b'?x,y\n', b'a=b=c\n', b'x=1 end\n', b'f() )\n', b'#include foo.lua\nx=1\n',
               b'(f or g)(x)\n', b'x=(a+b).c\n', b'(-x):f()\n', b'x=(a)(b)\n', b'(a).b=1\n', b'("x"):len()\n', b'(f)(x)\n', b'x=((a))\n', b'x=(a)\n',
               b'if (a) do x=1 end\n', b'if (a) do\n x=1\nend\n', b'if (a) if (b) c=1\nd=2\n', b'x = ()\n', b'f(())\n', b'x = {()}\n', b'()[1]=2\n',
               b'if (a) b=1 else c=2\nd=3\n', b'if (a) b=1 -- c\nd=3\n', b'do if (a) b=1\nc=2 end\n', b'IF X THEN END\n', b'x=1;;y=2;\n', b';x=1\n',
               b'x = {1,2;3,}\n', b'x = {a=1,\n  [2]=3;\n  f(),\n}\n', b'for i=1,2 do end for a,b in c do end\n', b'function a.b:c(...) return ... end\n',
               b'while true do break x=1 end\n', b'x\t=\t1\r\ny = 2\r\n', b'x=1\n\n\n\ny=2\n', b'do\n\nx=1\nend\n', b'do\n// c\nx=1\nend\n', b'x=1--c\ny=2//d\n',
                b'if x==1then x=2 end\n', b'y=x>2or 1\n', b'z=3x\n' if False else b'if x<0x1then y=1 end\n']      # numeral directly followed by a word


def corpus_cases():
    for s in DEGENERATE:
        yield {'kind': 'text', 'src': lib.hx(s), 'origin': 'degenerate', 'widths': [-1, 0, 2, 4], 'valid': True}
    for s in CORPUS_VALID:
        yield {'kind': 'text', 'src': lib.hx(s), 'origin': 'corpus-valid', 'widths': [-1, 2], 'valid': True}
    for s in CORPUS_TEXT:
        yield {'kind': 'text', 'src': lib.hx(s), 'origin': 'corpus', 'widths': [-1, 2], 'valid': False}


# ----------------------------------------------------------------------------- implementation side
def run_impl(case):
    src = lib.unhx(case['src'])
    o = pstack.observe_parse(src)
    l = o.pop('lua', None)
    toks = o.pop('tokens', None)
    if toks is None or l is None:
        return o
    o['nsig'] = sum(1 for t in toks if type(t).__name__ not in ('TokSpace', 'TokNewline', 'TokComment'))
    _, e, t = o['parse'].split(' ', 2)
    o['end'] = e
    o['tree'] = t
    o['writes'] = []
    for w in case['widths']:
        r = pstack.observe_write(l, w)
        r['w'] = w
        if 'text' in r:
            r['text'] = lib.hx(r['text'])
        o['writes'].append(r)
    if case['widths'] and (sum(src) % 4 == 0 or _unconsumed_obs(o)):
        r = cli_luafmt(src)
        if r is not None:
            o['writes'].append(r)
    return o


def _unconsumed_obs(o):
    try:
        return _unconsumed(o)
    except Exception:  # noqa
        return False


def cli_luafmt(src):
    """`p8tool luafmt cart.p8` on a cart file holding src: one more write record (w = 'cli'), judged by the same monitor
    clause as the API writes - an output cart counts as written text, a failure as a raised error.  None when src cannot
    be the body of a __lua__ section as it stands (the .p8 reader would hand the lexer other chunks)."""
    import io
    import os
    from props import c07, mincommon, luagen
    if c07.p8file_chunks(src) != luagen.split_lines(src):
        return None
    from pico8 import tool
    from pico8.lua import lua
    cart = mincommon.path('.p8')
    outp = cart[:-3] + '_fmt.p8'
    sink = io.StringIO()
    try:
        with open(cart, 'wb') as fh:
            fh.write(b'pico-8 cartridge // http://www.pico-8.com\nversion %d\n__lua__\n' % lib.lua_version(src) +
                     bytes(lua.p8scii_to_unicode(src), 'utf-8'))
        try:
            with mincommon.quiet(sink):
                rc = tool.main(['luafmt', cart])
        except RecursionError:
            return {'res': 'ERR RecursionError', 'w': 'cli'}
        except BaseException as e:  # noqa
            return {'res': 'ERR cli-raised-' + lib.exc_name(e), 'w': 'cli', 'events': '-'}
        if not os.path.exists(outp):
            return {'res': 'ERR cli-exit-%s-no-output' % rc, 'w': 'cli', 'events': '-'}
        with open(outp, 'rb') as fh:
            txt = fh.read()
        a = txt.index(b'__lua__\n') + 8
        b = txt.find(b'\n__gfx__\n', a)
        sect = txt[a:] if b < 0 else txt[a:b + 1]
        text = bytes(lua.unicode_to_p8scii(sect.decode('utf-8')))
        r = {'res': 'OK', 'w': 'cli', 'text': lib.hx(text), 'events': '-', 'rc': rc}
        try:
            r['out_enc'] = pstack.enc_tokens(pstack.lex(text))
        except Exception:  # noqa
            r['out_enc'] = None
        return r
    finally:
        for f in (cart, outp):
            if os.path.exists(f):
                os.remove(f)


def model_requests(case, obs):
    if 'writes' not in obs:
        return []
    reqs = ['chunks %s %s' % (obs['enc'], obs['tree'])]
    for r in _api_writes(obs):
        reqs.append('text %d %s %s' % (r['w'], obs['enc'], obs['tree']))
    return reqs


def _api_writes(obs):
    # the command-line record (w = 'cli') is judged by the monitor only; the model's text is compared with the API writes
    return [r for r in obs['writes'] if r['w'] != 'cli']


def _strip_code_text(chunks):
    return ','.join(c.split(':')[0] if c.startswith('C') else c for c in chunks.split(',')) if chunks != '-' else '-'


def compare(case, obs, answers):
    if 'writes' not in obs:
        return None
    ch = answers[0]
    for r, a in zip(_api_writes(obs), answers[1:]):
        if r['res'] == 'ERR RecursionError':
            continue
        if r['res'].startswith('ERR'):
            if a != r['res'] or not ch.startswith('ERR') or ch != r['res']:
                return 'writer w=%d: implementation %s, model text %s chunks %s' % (r['w'], r['res'], a[:60], ch[:60])
            continue
        if not ch.startswith('OK '):
            return 'writer w=%d: implementation wrote text, model chunks %s' % (r['w'], ch[:80])
        mc = _strip_code_text(ch.split(' ', 2)[2])
        if mc != r['events']:
            return 'writer w=%d: chunk sequence differs: implementation %s... model %s...' % ((r['w'],) + _firstdiff(r['events'], mc))
        if a != 'OK ' + r['text']:
            return 'writer w=%d: text differs: implementation %s... model %s...' % ((r['w'],) + _firstdiff('OK ' + r['text'], a))
    return None


def _firstdiff(a, b):
    k = 0
    while k < len(a) and k < len(b) and a[k] == b[k]:
        k += 1
    lo = max(0, k - 30)
    return a[lo:k + 50], b[lo:k + 50]


def monitor_requests(case, obs):
    if 'writes' not in obs:
        return []
    reqs = []
    for r in obs['writes']:
        if r['res'] == 'ERR RecursionError':
            continue
        if r['res'] == 'OK':
            if r.get('out_enc') is None:
                continue
            out = r['out_enc']
        else:
            out = '!'
        reqs.append('hold %s %s %s %d %s' % (obs['enc'], obs['tree'], obs['end'], 1 if case.get('valid') else 0, out))
    return reqs


def _mon_writes(obs):
    return [r for r in obs.get('writes', []) if r['res'] != 'ERR RecursionError' and not (r['res'] == 'OK' and r.get('out_enc') is None)]


def special_of(case, obs):
    f = [x for x in case.get('features', []) if x in SPECIAL]
    if f:
        return '+'.join(f)
    if case['kind'] == 'text':
        import re
        src = lib.unhx(case['src'])
        if re.search(rb'\)\s*[\[.(:{"\']', src) and b'(' in src:
            return 'paren-suffix'
        if re.search(rb'if\s*\([^\n]*\)\s*do\b', src):
            return 'short-if-do-body'
    return None


def failure_class(case, obs, bad):
    for r, a in bad:
        if a == 'unlexable':
            return 'output-unlexable'
        if a.startswith('false raised'):
            return 'raised-' + r['res'][4:]
        for c in ('consumed', 'same-code', 'lines-kept'):
            if c in a:
                return c
    return 'other'


def signature(case, obs, bad):
    return 'C09/%s/%s' % (failure_class(case, obs, bad), special_of(case, obs) or 'general')


def what(case, obs, bad):
    fc = failure_class(case, obs, bad)
    d = {'consumed': 'text was written although the parser had not reached the end of the code',
         'same-code': 'the written text does not have exactly the tokens and comments of the input',
         'lines-kept': 'a short-if does not keep its line',
         'output-unlexable': 'the written text cannot be tokenised'}.get(fc, 'the writer fails on a valid program (%s)' % fc)
    w = bad[0][0]['w'] if bad else None
    return '%s [%s, writer %s]: %r' % (d, signature(case, obs, bad).split('/')[-1], 'echo' if w == -1 else 'luafmt w=%s' % w,
                                       lib.unhx(case['src'])[:80])


def describe(case, obs):
    return {'kind': case['kind'], 'origin': case.get('origin'), 'src': lib.unhx(case['src'])[:120].decode('latin-1'),
            'features': case.get('features'), 'parse': (obs.get('parse') or obs.get('lex_error') or '')[:40],
            'writes': [(r['w'], r['res']) for r in obs.get('writes', [])]}


def histogram_key(case, obs):
    if 'lex_error' in obs:
        return case['kind'] + ':lexer-error'
    if 'writes' not in obs:
        return case['kind'] + ':' + obs.get('parse', '')[4:]
    res = set(r['res'] for r in obs['writes'])
    return '%s:%s' % (case['kind'] if case['kind'] == 'text' else 'gen-' + case.get('style', ''), '/'.join(sorted(res)))


def run_cases(cases, ctx):
    obs = []
    for c in cases:
        try:
            o = lib.with_alarm(CASE_TIMEOUT, run_impl, c)
        except lib.Timeout:
            o = {'timeout': True}
        obs.append(o)
    disagreements, violations = [], []
    hist, keys, feats = {}, set(), {}
    evaluations = 0
    if ctx.get('model_exe'):
        reqs = [r for c, o in zip(cases, obs) for r in model_requests(c, o)]
        ans = iter(lib.run_driver_parallel(ctx['model_exe'], reqs))
        for c, o in zip(cases, obs):
            a = [next(ans) for _ in model_requests(c, o)]
            d = compare(c, o, a)
            if d is not None:
                disagreements.append({'case': c, 'summary': describe(c, o), 'difference': d})
    minimized = set()
    if ctx.get('monitor_exe'):
        reqs = [r for c, o in zip(cases, obs) for r in monitor_requests(c, o)]
        ans = iter(lib.run_driver_parallel(ctx['monitor_exe'], reqs))
        for c, o in zip(cases, obs):
            ws = _mon_writes(o)
            a = [next(ans) for _ in ws]
            bad = [(r, x) for r, x in zip(ws, a) if x != 'true']
            bad += [(r, 'unlexable') for r in o.get('writes', []) if r['res'] == 'OK' and r.get('out_enc') is None]
            bad += _not_loaded(c, o)
            if bad:
                violations.append(_violation(c, o, bad, ctx, minimized))
    for c, o in zip(cases, obs):
        for r in o.get('writes', []):
            evaluations += 1
            if o.get('nsig'):
                keys.add((hash(tuple(x for x in o['enc'].split(',') if x[0] not in 'SNC')), r['w']))
        h = histogram_key(c, o)
        hist[h] = hist.get(h, 0) + 1
        for f in c.get('features', []):
            feats[f] = feats.get(f, 0) + 1
        k = 'not-fully-parsed' if ('end' in o and _unconsumed(o)) else None
        if k:
            hist[k] = hist.get(k, 0) + 1
    hist.update({'feature:' + k: v for k, v in sorted(feats.items())})
    step = max(1, len(cases) // 5)
    return {'evaluations': evaluations, 'nontrivial': len(keys), 'rule': RULE,
            'samples': [describe(c, o) for c, o in list(zip(cases, obs))[::step]][:6],
            'disagreements': disagreements, 'violations': violations, 'histogram': hist}


def _not_loaded(c, o):
    """a VALID program that picotool does not even load (the lexer or the parser raises): luafmt cannot succeed on it"""
    if not c.get('valid') or 'writes' in o or o.get('timeout'):
        return []
    err = o.get('lex_error') or (o.get('parse', '')[4:] if o.get('parse', '').startswith('ERR ') else None)
    if not err or err == 'RecursionError':
        return []
    return [({'w': 'load', 'res': 'ERR ' + err}, 'false raised')]


def _unconsumed(o):
    toks = o['enc'].split(',') if o['enc'] != '-' else []
    return any(t[0] not in 'SNC' for t in toks[int(o['end']):])


def _violation(c, o, bad, ctx, minimized):
    sig = signature(c, o, bad)
    c2, o2, bad2 = c, o, bad
    if ctx.get('tier') != 'replay' and sig not in minimized and c['kind'] == 'gen':
        minimized.add(sig)
        try:
            c2, o2, bad2 = minimize(c, o, bad, ctx, sig)
        except Exception:  # noqa
            pass
    return {'case': c2, 'summary': describe(c2, o2), 'signature': signature(c2, o2, bad2), 'what': what(c2, o2, bad2),
            'observed': [(r['w'], r['res'], a[:120]) for r, a in bad2[:3]]}


def _check_one(c, ctx):
    o = run_impl(c)
    ws = _mon_writes(o)
    rq = monitor_requests(c, o)
    a = lib.run_driver(ctx['monitor_exe'], rq) if rq else []
    bad = [(r, x) for r, x in zip(ws, a) if x != 'true']
    bad += [(r, 'unlexable') for r in o.get('writes', []) if r['res'] == 'OK' and r.get('out_enc') is None]
    bad += _not_loaded(c, o)
    return o, bad


def minimize(case, obs, bad, ctx, sig):
    import random
    import time
    allow = MAIN_ALLOW + tuple({'paren-suffix': 'paren_suffix', 'short-if-do-body': 'shortif_do_body'}[f]
                               for f in case.get('features', []) if f in SPECIAL)
    rng = random.Random(len(case['src']))
    best = (case, obs, bad)
    t0 = time.time()
    tries = 0
    while time.time() - t0 < 8 and tries < 300:
        tries += 1
        p = pgen.generate_program(rng, maxdepth=rng.choice([1, 1, 2]), size=1, allow=allow)
        c = _case(p, pgen.layout(p, rng, 'compact'), 'compact', case['widths'])
        if len(c['src']) >= len(best[0]['src']):
            continue
        o, b = _check_one(c, ctx)
        if b and signature(c, o, b) == sig:
            best = (c, o, b)
            if len(c['src']) < 60:
                break
    return best


def search(ctx, budget):
    import random
    import time
    rng = random.Random(ctx['seed'] + 1)
    t0 = time.time()
    viol, n = [], 0
    gen = generate('thorough', rng)
    kf = [k['signature'] for k in lib.load_known_findings().get('known', []) if isinstance(k, dict) and k.get('property') == ID]
    while time.time() - t0 < budget and not viol:
        batch = []
        for c in gen:
            batch.append(c)
            if len(batch) >= 60:
                break
        if not batch:
            break
        r = run_cases(batch, {'monitor_exe': ctx.get('monitor_exe'), 'model_exe': None, 'tier': ctx.get('tier')})
        n += r['evaluations']
        viol.extend(v for v in r['violations'] if v['signature'] not in kf)
    if not viol:
        v, m = _search_bare_cr()
        viol.extend(x for x in v if x['signature'] not in kf)
        n += m
    return {'violations': viol, 'evaluations': n}


# Sources with bare-CR line ends are outside the reference grammar (Spec/LuaLex.v header), so the monitor makes no claim
# on them.  This oracle is used ONLY by the failing-input search, i.e. after a proof obligation or a pin has already
# broken: picotool's own lexer reads a lone CR as a line end (as Lua 5.2 does), so the code tokens and comments of the
# input, read by that lexer, must be those of the luafmt output read by the same lexer (round s11, DESIGN 13.15).
_BARE_CR_PROGRAMS = [
    b'x = 1 -- set x\ny = 2\nif (x) y = 3\nz = 4\n',
    b'-- title\n-- author\nfunction f(a)\n  return a -- r\nend\n',
    b'a=1\n\n\nb=2 --[[ c ]] c=3\nif (a) b=1 else b=2\nprint(a)\n',
]


def _search_bare_cr():
    viol, n = [], 0
    for prog in _BARE_CR_PROGRAMS:
        for src in (prog.replace(b'\n', b'\r'), prog.replace(b'\n', b'\r', 1), prog.rstrip(b'\n').replace(b'\n', b'\r')):
            c = {'src': lib.hx(src), 'widths': [2], 'kind': 'corpus'}
            try:
                o = run_impl(c)
            except Exception:  # noqa
                continue
            if 'enc' not in o:
                continue
            code = lambda e: [t for t in (e.split(',') if e and e != '-' else []) if t[0] not in 'SN']  # noqa
            for r in o.get('writes', []):
                n += 1
                if r.get('res') == 'OK' and r.get('out_enc') is not None and code(r['out_enc']) != code(o['enc']):
                    viol.append({'case': c, 'summary': {'src': repr(src), 'out': repr(lib.unhx(r['text'])) if 'text' in r else None},
                                 'signature': 'C09/impl-tokens-differ/bare-cr',
                                 'what': 'C09/impl-tokens-differ/bare-cr: luafmt of %r is %r; read by picotool\'s own lexer the code '
                                         'tokens / comments differ' % (src, lib.unhx(r['text']) if 'text' in r else None),
                                 'observed': [(r.get('w'), r['res'], 'tokens differ')]})
                    return viol, n
    return viol, n
