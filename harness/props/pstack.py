"""Shared by the parser-stack properties (C08 C09 C10): token / tree marshalling for the
extracted runners (syntax documented in ocaml/lua_io.ml) and observation of the implementation.
"""
import lib

KLETTER = {'TokSpace': 'S', 'TokNewline': 'N', 'TokComment': 'C', 'TokString': 'T', 'TokNumber': 'U',
           'TokName': 'A', 'TokLabel': 'L', 'TokKeyword': 'K', 'TokSymbol': 'Y'}


def _hx(b):
    return bytes(b).hex() if b else '-'


def enc_token(t):
    """One implementation token -> protocol text."""
    k = KLETTER[type(t).__name__]
    q = 0
    if k == 'T':
        if t._multiline_quote is not None:
            q = 256 + len(t._multiline_quote)
        else:
            q = t._quote[0] if t._quote else 0
    data = bytes(t._data)
    code = bytes(t.code)
    if code == data:
        return '%s%d.%s' % (k, q, _hx(data))
    return '%s%d.%s.%s' % (k, q, _hx(data), _hx(code))


def enc_tokens(toks):
    return ','.join(enc_token(t) for t in toks) if toks else '-'


def lex(src, version=8):
    """-> list of implementation tokens (raises what the lexer raises)."""
    from pico8.lua import lexer
    lx = lexer.Lexer(version=version)
    lx.process_lines([src] if isinstance(src, (bytes, bytearray)) else src)
    return lx.tokens


def node_tags():
    from pico8.lua import parser
    return {name: i for i, (name, _) in enumerate(parser._ast_node_types)}


def dump_tree(root, toks):
    """Canonical dump of the implementation's tree (same syntax as ocaml/lua_io.ml str_of_tree)."""
    from pico8.lua import parser, lexer
    tags = node_tags()
    index = {id(t): i for i, t in enumerate(toks)}
    out = []

    def rec(v):
        if isinstance(v, parser.Node):
            out.append('N%d:%d:%d:%d(' % (tags[type(v).__name__], v.start_pos, v.end_pos,
                                          1 if getattr(v, 'short_if', False) else 0))
            for k, f in enumerate(v._fields):
                if k:
                    out.append(',')
                rec(getattr(v, f))
            out.append(')')
        elif isinstance(v, lexer.Token):
            out.append('T%d' % index.get(id(v), -1))
        elif isinstance(v, (list, tuple)):
            out.append('L(')
            for k, x in enumerate(v):
                if k:
                    out.append(',')
                rec(x)
            out.append(')')
        elif v is None:
            out.append('Z')
        elif v is True:
            out.append('Bt')
        elif v is False:
            out.append('Bf')
        elif isinstance(v, (bytes, bytearray)):
            out.append('Y' + _hx(v))
        else:
            out.append('?%s' % type(v).__name__)
    rec(root)
    return ''.join(out)


def walk_check(root):
    """The tree as a walker with only the library's default node handlers sees it (what build's RequireWalker and every
    other BaseASTWalker subclass without a handler of its own for a node class get): -> None when it reaches exactly the
    nodes of the tree, each once, in source (pre-)order; otherwise a short description of the first difference."""
    from pico8.lua import lua, parser
    want = []

    def rec(v):
        if isinstance(v, parser.Node):
            want.append(v)
            for f in v._fields:
                rec(getattr(v, f))
        elif isinstance(v, (list, tuple)):
            for x in v:
                rec(x)
    rec(root)
    seen = []
    ns = {}
    for name in dir(parser):
        cls = getattr(parser, name)
        if isinstance(cls, type) and issubclass(cls, parser.Node):
            name = cls.__name__
            base = getattr(lua.BaseASTWalker, '_walk_' + name, None)
            if base is None:
                return 'no default handler for node class %s' % name

            def h(self, node, _base=base):
                seen.append(node)
                for t in _base(self, node):
                    yield t
            ns['_walk_' + name] = h
    W = type('PlainWalker', (lua.BaseASTWalker,), ns)
    try:
        for _ in W([], root).walk():
            pass
    except RecursionError:
        return None
    except Exception as e:  # noqa
        return 'the plain walker raised %s' % lib.exc_name(e)
    if len(seen) != len(want) or any(a is not b for a, b in zip(seen, want)):
        k = 0
        while k < len(seen) and k < len(want) and seen[k] is want[k]:
            k += 1
        nxt = type(want[k]).__name__ if k < len(want) else 'nothing'
        got = type(seen[k]).__name__ if k < len(seen) else 'nothing'
        return 'plain walker reaches %d of %d nodes; node %d should be a %s, it visits %s' % (len(seen), len(want), k, nxt, got)
    return None


class _Reused:
    """what a parser object that has been used before exposes for the token list it is given now"""

    def __init__(self, parser_obj, toks):
        self.root = parser_obj.root
        self.tokens = toks


def observe_parse(src, prior=None, mode=None):
    """Lua.from_lines([src], 8): -> {'tokens': [...impl tokens] | None, 'enc': str, 'parse': 'OK <end> <tree>' | 'ERR <name>',
    'lua': the Lua object or None}.  A lexer failure gives {'lex_error': name}.

    prior / mode: the objects are not fresh.  mode 'parser': one Parser object first parses the tokens of the program
    `prior`, then the tokens of src (process_tokens twice) - the result for src must be what a fresh parser gives.
    mode 'lua': one Lua object gets update_from_lines([prior]) and then update_from_lines([src]); picotool's lexer
    appends, so the observation is the parse of the accumulated token list (tokens / enc are that list)."""
    from pico8.lua import lua
    if mode == 'lua':
        l = None
        try:
            l = lua.Lua(8)
            l.update_from_lines([prior])
            l.update_from_lines([src])
        except RecursionError:
            return {'lex_error': 'RecursionError'}
        except Exception as e:  # noqa
            if l is None or not hasattr(l, 'tokens'):
                return {'lex_error': lib.exc_name(e)}
            try:
                toks = list(l.tokens)
            except Exception:  # noqa
                return {'lex_error': lib.exc_name(e)}
            return {'tokens': toks, 'enc': enc_tokens(toks), 'lua': None, 'parse': 'ERR ' + lib.exc_name(e)}
        toks = list(l.tokens)
        return {'tokens': toks, 'enc': enc_tokens(toks), 'lua': l,
                'parse': 'OK %d %s' % (l.root.end_pos, dump_tree(l.root, l.tokens))}
    try:
        toks = lex(src)
    except Exception as e:  # noqa
        return {'lex_error': lib.exc_name(e)}
    res = {'tokens': toks, 'enc': enc_tokens(toks), 'lua': None}
    if mode == 'parser':
        from pico8.lua import parser as _parser
        try:
            p = _parser.Parser(version=8)
            try:
                p.process_tokens(lex(prior))
            except Exception:  # noqa   (a prior program that does not parse is part of the history too)
                pass
            p.process_tokens(toks)
        except RecursionError:
            res['parse'] = 'ERR RecursionError'
            return res
        except Exception as e:  # noqa
            res['parse'] = 'ERR ' + lib.exc_name(e)
            return res
        res['lua'] = _Reused(p, toks)
        res['parse'] = 'OK %d %s' % (p.root.end_pos, dump_tree(p.root, toks))
        return res
    try:
        l = lua.Lua.from_lines([src], 8)
    except RecursionError:
        res['parse'] = 'ERR RecursionError'
        return res
    except Exception as e:  # noqa
        res['parse'] = 'ERR ' + lib.exc_name(e)
        return res
    if enc_tokens(l.tokens) != res['enc']:
        res['parse'] = 'ERR lexer-not-deterministic'
        return res
    res['lua'] = l
    res['parse'] = 'OK %d %s' % (l.root.end_pos, dump_tree(l.root, l.tokens))
    return res


# ----------------------------------------------------------------------------- AST writers (C09 C10)
_instr_cache = {}


def instrumented(base):
    """Subclass of an AST writer class that records, without changing behaviour, one event per call of
    _get_code_for_spaces  ('V', start_pos, _indent, at_end, run length)  and one per cursor advance outside it
    ('C', index of the token passed).  The instance registers itself in cls.instances."""
    if base in _instr_cache:
        return _instr_cache[base]

    class W(base):
        instances = []

        def __init__(self, *a, **k):
            self.__dict__['_ev'] = []
            self.__dict__['_in_sp'] = False
            self.__dict__['_pos_v'] = None
            super().__init__(*a, **k)
            W.instances.append(self)

        @property
        def _pos(self):
            return self.__dict__['_pos_v']

        @_pos.setter
        def _pos(self, v):
            old = self.__dict__['_pos_v']
            if not self.__dict__['_in_sp'] and old is not None and v is not None and v == old + 1:
                self.__dict__['_ev'].append(('C', old))
            self.__dict__['_pos_v'] = v

        def _get_code_for_spaces(self, node):
            start = self._pos
            self.__dict__['_in_sp'] = True
            try:
                r = super()._get_code_for_spaces(node)
            finally:
                self.__dict__['_in_sp'] = False
            self.__dict__['_ev'].append(('V', start, self._indent, self._pos == len(self._tokens), self._pos - start))
            return r
    W.__name__ = 'Instrumented' + base.__name__
    _instr_cache[base] = W
    return W


def enc_events(ev):
    return ','.join('V%d:%d:%d:%d' % (e[1], e[2], 1 if e[3] else 0, e[4]) if e[0] == 'V' else 'C%d' % e[1] for e in ev) or '-'


def observe_write(l, width):
    """l: a Lua object; width < 0: LuaASTEchoWriter, else LuaFormatterWriter with indentwidth = width.
    -> {'res': 'OK' | 'ERR <name>', 'text': bytes, 'events': str, 'out_enc': str | None (output not lexable)}"""
    from pico8.lua import lua
    base = lua.LuaASTEchoWriter if width < 0 else lua.LuaFormatterWriter
    W = instrumented(base)
    del W.instances[:]
    args = None if width < 0 else {'indentwidth': width}
    try:
        text = b''.join(l.to_lines(writer_cls=W, writer_args=args))
    except RecursionError:
        return {'res': 'ERR RecursionError'}
    except Exception as e:  # noqa
        return {'res': 'ERR ' + lib.exc_name(e), 'events': enc_events(W.instances[-1]._ev) if W.instances else '-'}
    if not W.instances:
        # to_lines returned text without running the writer class it was given (a rendering kept from an earlier
        # call?): nothing was observed of this write - reported as a failure of the write, not as a harness crash
        return {'res': 'ERR writer-class-not-run', 'events': '-'}
    o = {'res': 'OK', 'text': text, 'events': enc_events(W.instances[-1]._ev)}
    try:
        o['out_enc'] = enc_tokens(lex(text))
    except Exception:  # noqa
        o['out_enc'] = None
    return o
