"""C05 - code compression is lossless and emits only well-formed :c: streams; decoders agree."""
import itertools
import lib

ID = 'C05'
GEN_FILES = ['K_compress', 'K_p8png', 'K_p8png_codec',
             # source pins of the hand-modelled modules (gen/kernels_pins.py)
             'T_pins_compress', 'T_pins_p8png']
COQ_PROPERTY = 'theories/Properties/C05.vo'
COQ_EXTRA = ['theories/Generated/K_compress_selftest.vo', 'theories/Generated/K_p8png_codec_selftest.vo',
             'theories/Proofs/CompressPins.vo', 'theories/Proofs/P8PngPins.vo']
MODEL = ('ExC05', 'c05_main.ml')
MONITOR = ('MonC05', 'c05_mon_main.ml')
CASE_TIMEOUT = 600
ALPHABET = [b'a', b'=', b'\n', b'A']     # table char, second table char (repeats), newline, non-table byte
RULE = ('one evaluation = one text pushed through compress_code, a length header, decompress_code (and, for the '
        'non-exhaustive groups, get_bytes_from_code / get_code_from_bytes and _find_repeatable_block at sampled '
        'positions), or one stream pushed through decompress_code; every evaluation is compared with the extracted '
        'model (correspondence) and judged by the extracted reference decoder (monitor). Groups: exhaustive = every '
        'string of length <= 8 (quick) / <= 10 (thorough) over {a, =, newline, A}; lua = structured Lua-like texts; '
        'edge = repeats at distances 3118..3122 x lengths 16..18 and every distance 3100..3159 x length 17; cut = every prefix of texts built around a block; '
        'update60 = texts mentioning _update60 (all endings, tails running into the appended suffix, texts ending with '
        'the suffix); streams = random well-formed streams incl. overlapping references and every cut of the last block; '
        'malformed = random / truncated / dangling-reference streams (correspondence only). '
        'distinct+non-trivial = distinct inputs whose compressed stream contains at least one back-reference, or '
        'streams for which the format defines the output')
ASSUMPTIONS = [
    'code text is a bytes object (elements 0..255); the code area handed to decompress_code is a sequence of bytes',
    'texts with a NUL at either end or ending with one of the two PICO-8 compatibility suffixes are outside the round-trip '
    'clause: the reader strips both by design (PICO-8 does the same); they are still compared model-vs-implementation',
]
PARTIAL = ''
TRUSTED = ['Spec/PxcFormat.v: the :c: format as described in the PICO-8 cart format notes, transcribed by hand',
           'gen/kernels_codec.py extra hook (sub-expression selection for compress.py / p8png.py; in-file kx_* self-test lemmas)']
CLAIM = dict(
    text=("Theorems (Coq, closed under the global context, no bound on the text): C05_compress_wf (compress_code succeeds "
          "on every byte string and every back-reference of the stream has length 3..17 and a non-zero offset inside "
          "the output produced before it), C05_lossless (the reference decoder written from the format description "
          "recovers text+compatibility suffix from the stream, and exactly the text from the first len(text) bytes "
          "whatever padding follows), C05_header_roundtrip (picotool's own decompress_code on header+stream+padding "
          "returns exactly the text, for every text < 64 KiB without NUL at either end that does not itself end with "
          "the compatibility suffix), C05_decoder_agrees (+ _clean): on EVERY stream for which the format defines the "
          "first n bytes - any producer, overlapping references, blocks cut by the header length - decompress_code "
          "computes exactly those bytes; C05_holds_stream / C05_holds_agree: the extracted monitor predicates hold of "
          "the model for all inputs; C05_suffix_not_carried shows the suffix hypothesis is necessary (domain limit by "
          "design of PICO-8's compatibility suffix). The theorems are about a model of compress.py AFTER two fix: commits "
          "(overlapping references were copied from a snapshot; a block running past the header length appended bytes). "
          "Tie: table, suffixes, every constant, window/length arithmetic, packing and unpacking expressions, loop and "
          "branch tests are regenerated from compress.py on every run; the three loops are hand-modelled on list "
          "suffixes and compared with the real functions on the exhaustive small-string set, window-edge repeats, "
          "all cut positions, _update60 texts and random well-formed / malformed streams; the extracted reference "
          "decoder judges the implementation's real outputs."),
    note=("Trusted: Coq kernel+VM, the expression translator and the sub-expression hook of gen/kernels_codec.py "
          "(self-tested in Coq against Python eval), ExtrOcamlBasic extraction, OCaml glue, the hand transcription of "
          "the :c: format in Spec/PxcFormat.v, the hand-modelled loops of _find_repeatable_block / compress_code / "
          "decompress_code (shape of the scan comparisons pinned; correspondence-tested)."),
    technique='Coq proof over regenerated kernels + extracted-model correspondence + extracted reference decoder as monitor',
    design_ref='8 C05')

MAGIC = b':c:\x00'
AREA = 0x8000 - 0x4300
FUT1 = (b'if(_update60)_update=function()_update60()_update60()end')
FUT2 = (b'if(_update60)_update=function()_update60()_update_buttons()_update60()end')


# ----------------------------------------------------------------------------- generators
def _texts(group, texts, light=False):
    return {'k': 'texts', 'group': group, 'items': [{'t': lib.hx(t), 'light': light} for t in texts]}


def _lua_text(rng, size):
    idents = ['x', 'y', 'i', 'player', 'enemy', 'spr', 'btn', 'pos', 'vel', 't', 'self', 'update', 'draw', 'n']
    out = []
    n = 0
    while n < size:
        r = rng.random()
        a, b = rng.choice(idents), rng.choice(idents)
        if r < 0.2:
            ln = 'function %s(%s)\n' % (a, b)
        elif r < 0.35:
            ln = ' if %s<%d then %s+=%d end\n' % (a, rng.randrange(200), b, rng.randrange(9))
        elif r < 0.5:
            ln = ' %s.%s=%s.%s*%s\n' % (a, b, b, a, rng.choice(['0.5', '2', '0x10', '-1']))
        elif r < 0.6:
            ln = 'end\n'
        elif r < 0.7:
            ln = ' for i=1,#%s do %s[i]=%s end\n' % (a, a, b)
        elif r < 0.8:
            ln = '-- %s %s\n' % (a.upper(), ''.join(rng.choice('ABCDEFGHIJ\t"@$&\\') for _ in range(rng.randrange(12))))
        elif r < 0.9:
            ln = ' print("%s",%d,%d,%d)\n' % (b, rng.randrange(128), rng.randrange(128), rng.randrange(16))
        else:
            ln = ' %s=%s(%s)\r\n' % (a, b, a)
        out.append(ln)
        n += len(ln)
    return ''.join(out).encode('latin-1')[:size]


def _filler(rng, n):
    """bytes unlikely to contain accidental 3-byte repeats"""
    return bytes(rng.randrange(128, 256) for _ in range(n))


def _de_bruijn2(alphabet):
    """cyclic sequence in which every ordered pair over the alphabet occurs exactly once"""
    k = len(alphabet)
    a = [0] * (k * 2)
    seq = []

    def db(t, p):
        if t > 2:
            if 2 % p == 0:
                seq.extend(a[1:p + 1])
        else:
            a[t] = a[t - p]
            db(t + 1, p)
            for j in range(a[t - p] + 1, k):
                a[t] = j
                db(t + 1, t)
    db(1, 1)
    return bytes(alphabet[i] for i in seq)


_HI = None


def _no_match_run(n, start=0):
    """n bytes >= 0x80 in which no pair of adjacent bytes occurs twice (period 16384): offers no match at all"""
    global _HI
    if _HI is None:
        _HI = _de_bruijn2(list(range(128, 256)))
    reps = (n + start) // len(_HI) + 2
    return (_HI * reps)[start:start + n]


def source_constants():
    """(window, max block length, largest offset the packing byte can hold, smallest block length) evaluated from
    the CURRENT source of compress.py - the same AST nodes the translator regenerates - so that probes sit at the
    boundaries of whatever the code says now. Falls back to the PICO-8 values."""
    w, mb, omax, minb = 3120, 17, 3135, 3
    try:
        import ast
        import os
        import sys
        g = os.path.join(lib.VERIF, 'gen')
        if g not in sys.path:
            sys.path.insert(0, g)
        import py2gallina as P
        from pico8.game import compress
        with open(compress.__file__) as fh:
            tree = ast.parse(fh.read())
        env = dict(vars(compress))

        def val(fn, sel, **kw):
            node = P.select(P.find_function(tree, fn), sel)
            e = dict(env)
            e.update(kw)
            return eval(compile(ast.Expression(body=node), '<k>', 'eval'), {'__builtins__': {'len': len, 'min': min, 'max': max}}, e)
        w = int(val('_find_repeatable_block', ('assign', 'max_hist_len', 0)))
        mb = int(val('_find_repeatable_block', ('assign', 'max_block_len', 0)))
        ok = [o for o in range(0, 8192) if 0 <= val('compress_code', ('call_arg', 'append', 0, 0), block_offset=o) <= 255]
        omax = max(ok) if ok else omax
        lens = [b for b in range(0, 40) if val('compress_code', ('if', 2), block_len=b)]
        minb = min(lens) if lens else minb
    except Exception:  # noqa
        pass
    return w, mb, omax, minb


def boundary_texts():
    """a block repeated at exactly distance d, nothing else in the text offering a match: for d around the window
    of the current source, around the largest encodable offset, and around the PICO-8 window; block lengths around
    the smallest and the largest block"""
    w, mb, omax, minb = source_constants()
    ds = sorted(set(d for c in (w, omax, 3120, 3135) for d in range(c - 2, c + 3) if d > 40))
    ls = sorted(set(x for x in (minb - 1, minb, minb + 1, 3, 16, 17, 18, mb - 1, mb, mb + 1) if 1 <= x <= 40))
    blk_src = b'abcdefghijklmnopqrstuvwxyz0123456789_=()[]{}'
    out = []
    for d in ds:
        for L in ls:
            blk = blk_src[:L]
            lead = (d + L) % 2
            out.append(_no_match_run(lead, 7000) + blk + _no_match_run(d - L) + blk + b';')
    return out


def _wf_stream(rng, target, overlap=True):
    """A random well-formed stream and the number of bytes it produces."""
    s = bytearray()
    produced = 0
    while produced < target:
        r = rng.random()
        if produced == 0 or r < 0.35:
            s.append(rng.randrange(1, 60))
            produced += 1
        elif r < 0.5:
            s += bytes([0, rng.choice([rng.randrange(1, 256), 65, 200, 0])])
            produced += 1
        else:
            ln = rng.randrange(3, 18)
            if overlap and rng.random() < 0.5:
                off = rng.randrange(1, min(produced, ln) + 1)            # overlapping: offset <= length
            else:
                off = rng.randrange(1, min(produced, 3135) + 1)
            s += bytes([0x3c + off // 16, (off % 16) + (ln - 2) * 16])
            produced += ln
    return bytes(s), produced


def generate(tier, rng):
    quick = tier == 'quick'
    # 1. exhaustive small strings
    maxlen = 8 if quick else 10
    batch = []
    for n in range(0, maxlen + 1):
        for tup in itertools.product(ALPHABET, repeat=n):
            batch.append(b''.join(tup))
            if len(batch) == 4096:
                yield _texts('exhaustive', batch, light=True)
                batch = []
    if batch:
        yield _texts('exhaustive', batch, light=True)
    if not quick:
        six = [b'a', b'=', b'\n', b'A', b'_', b'\x00']
        batch = []
        for n in range(0, 7):
            for tup in itertools.product(six, repeat=n):
                batch.append(b''.join(tup))
                if len(batch) == 4096:
                    yield _texts('exhaustive6', batch, light=True)
                    batch = []
        if batch:
            yield _texts('exhaustive6', batch, light=True)
    # 2. structured Lua-like texts (full path incl. code area)
    sizes = [0, 1, 2, 3, 5, 9, 17, 18, 19, 40, 100, 255, 256, 257, 600, 1200, 2500]
    nlua = 400 if quick else 5000
    texts = []
    for i in range(nlua):
        size = sizes[i % len(sizes)] if i < 3 * len(sizes) else rng.choice([30, 80, 200, 500, 900, 1500, 3000 if quick else 20000])
        if not quick and i % 50 != 0 and size > 5000:
            size = 3000
        texts.append(_lua_text(rng, size))
    for i in range(0, len(texts), 25):
        yield _texts('lua', texts[i:i + 25])
    # texts of one and the same length, compressed one after the other while nothing keeps the earlier text alive:
    # CPython then hands the next text the memory (and id()) of the one before - the result must depend on the
    # text's bytes only, never on the identity of the object that held them
    for size in (120, 400, 2000):
        base = _lua_text(rng, size)[:size].ljust(size, b' ')
        same = []
        for _ in range(12 if quick else 60):
            b = bytearray(base)
            for _ in range(rng.randrange(1, 6)):
                i = rng.randrange(0, size - 8)
                j = rng.randrange(0, size - 8)
                b[i:i + 8], b[j:j + 8] = b[j:j + 8], b[i:i + 8]
            b[rng.randrange(size)] = rng.choice(b'abcxyz=()')
            same.append(bytes(b))
        yield _texts('same-length', same)
    # random bytes (incompressible, NULs inside)
    yield _texts('random', [rng.randbytes(rng.choice([1, 2, 7, 30, 300, 1000])) for _ in range(40 if quick else 400)])
    # 3. window edge: a block of length L repeated at distance d
    edge = []
    combos = [(d, L) for d in ((3118, 3119, 3120, 3121, 3122) if quick else range(3110, 3131))
              for L in ((16, 17, 18) if quick else (3, 4, 15, 16, 17, 18, 19, 34, 35))]
    # every distance from well inside to well past the window (a window constant changed by a few blocks of 16
    # must show up as a different choice or as a packing failure), block length 17
    if not quick:
        combos += [(d, 17) for d in range(3100, 3160) if (d, 17) not in combos]
    for d, L in combos:
        blk = bytes(rng.choice(b'abcdefghijklmnopqrstuvwxyz_=()') for _ in range(L))
        lead = _filler(rng, rng.choice([0, 1, 40]))
        edge.append(lead + blk + _filler(rng, d - L) + blk + _filler(rng, rng.choice([0, 3])))
    for i in range(0, len(edge), 3):
        yield _texts('edge', edge[i:i + 3], light=(i % 2 == 1))
    bt = boundary_texts()
    for i in range(0, len(bt), 3):
        yield _texts('boundary', bt[i:i + 3], light=(i % 4 != 0))
    # 4. every cut position of texts built around blocks
    cut = []
    base = b'local abcdefghijklmnopqrs=1\n' + b'xy' + b'local abcdefghijklmnopqrs=12\n' + b'abcdefghijklmnopqrstuvw' + b'zz'
    for k in range(len(base) + 1):
        cut.append(base[:k])
    base2 = bytes(rng.choice(b'ab\n ') for _ in range(60 if quick else 400))
    for k in range(len(base2) + 1):
        cut.append(base2[:k])
    for i in range(0, len(cut), 50):
        yield _texts('cut', cut[i:i + 50])
    # 5. _update60
    u = []
    core = b'function _update60()\n x+=1\nend\nif(_update60)_update=function()_update60()_update_buttons()_upd'
    for k in range(len(core) + 1):
        u.append(core[:k])
    for tail in (b'', b' ', b'\n', b'\r', b'\x00', b'x', b'\n\n', b' \n', b'end'):
        u.append(b'function _update60() end' + tail)
        u.append(b'-- _update60' + tail)
    u += [b'_update60 abc\nif( abc', b'_update60', b'_update6', b'update60', b'_update60\nif(_update60)_update=function()',
          b'x=1\n' + FUT1, b'x=1\n' + FUT2, b'x=1' + FUT2, FUT1, FUT2, b'\n' + FUT1, FUT1 + b'\n', b'_update60\n' + FUT2 + FUT2,
          b'\x00_update60', b'_update60\x00', b'a\x00b', b'\x00', b'\x00\x00a', b'a\x00']
    for i in range(80 if quick else 1500):
        body = _lua_text(rng, rng.choice([20, 60, 200, 700]))
        k = rng.randrange(len(body) + 1)
        t = body[:k] + rng.choice([b'_update60', b'function _update60()', b'\nif(_update60)_upd']) + body[k:]
        # make the tail run into the appended suffix: X + start-of-suffix occurs earlier, the text ends with X
        if rng.random() < 0.6:
            x = bytes(rng.choice(b'abcxyz=()') for _ in range(rng.randrange(1, 9)))
            if rng.random() < 0.3:
                x += rng.choice([b' ', b'\n'])
                start = FUT2
            else:
                start = b'\n' + FUT2
            j = rng.randrange(2, 25)
            t = t[:k] + x + start[:j] + t[k:] + x
        u.append(t)
    for i in range(0, len(u), 50):
        yield _texts('update60', u[i:i + 50])
    # 6. random well-formed streams: decoder agreement
    items = []
    for i in range(1500 if quick else 30000):
        s, produced = _wf_stream(rng, rng.choice([1, 3, 10, 40, 200, 1000 if i % 20 == 0 else 60]))
        r = rng.random()
        if r < 0.5:
            n = produced
        elif r < 0.85:
            n = rng.randrange(max(0, produced - 20), produced + 1)       # cuts the last block(s)
        else:
            n = rng.randrange(0, produced + 1)
        items.append({'n': n, 's': lib.hx(s), 'pad': rng.choice([0, 0, 1, 2, 50])})
    # every cut of a final overlapping block
    for off, ln in ((1, 17), (2, 17), (3, 5), (16, 17), (17, 17), (1, 3)):
        pre = bytes([13, 14, 15] * 6)
        s = pre + bytes([0x3c + off // 16, (off % 16) + (ln - 2) * 16])
        for n in range(18, 18 + ln + 1):
            items.append({'n': n, 's': lib.hx(s), 'pad': 2})
    # streams of another producer that use the whole range of offsets the two-byte form can express
    # ((255 - 0x3c) * 16 + 15 = 3135; picotool's own compressor never looks back further than its window): more
    # than 3135 bytes of literals, then one back-reference at every offset around the window and up to the largest
    omax = (255 - 0x3c) * 16 + 15
    lit = bytes(rng.randrange(1, 60) for _ in range(omax + 40))
    for off in ([3119, 3120, 3121, 3122, 3127, 3128, omax - 1, omax] if quick else range(3100, omax + 1)):
        for ln in ((3, 17) if quick else (3, 4, 16, 17)):
            s = lit + bytes([0x3c + off // 16, (off % 16) + (ln - 2) * 16]) + bytes([5, 6])
            items.append({'n': len(lit) + ln + 2, 's': lib.hx(s), 'pad': 0})
    for i in range(0, len(items), 100):
        yield {'k': 'streams', 'group': 'streams', 'items': items[i:i + 100]}
    # 7. malformed streams (correspondence only; the monitor makes no claim where the format defines nothing)
    bad = []
    for i in range(600 if quick else 10000):
        r = rng.random()
        if r < 0.4:
            s = rng.randbytes(rng.randrange(0, 40))
        elif r < 0.7:
            s, produced = _wf_stream(rng, rng.choice([5, 30]))
            s = s[:rng.randrange(0, len(s) + 1)]                         # possibly cut inside an item
        else:
            s, produced = _wf_stream(rng, rng.choice([2, 10]))
            off = rng.choice([0, produced + 1, produced + 20, 3135])
            s = s + bytes([min(255, 0x3c + off // 16), (off % 16) + rng.randrange(0, 16) * 16])
        bad.append({'n': rng.choice([0, 1, 5, 20, 60, 300, 65535 if i % 97 == 0 else 40]), 's': lib.hx(s),
                    'pad': rng.choice([0, 1, 30])})
    for i in range(0, len(bad), 100):
        yield {'k': 'streams', 'group': 'malformed', 'items': bad[i:i + 100]}
    # headers that are not a compressed-area header (assert / short input)
    yield {'k': 'raw_areas', 'group': 'malformed', 'items': [
        {'cd': lib.hx(c)} for c in (b'', b':c:\x00', b':c:\x00\x00\x01\x00', b':c:\x00\x00\x01\x00\x01\x0d', b':c:\x00\x00\x01\x01\x00\x0d',
                                    b'abcd\x00\x02\x00\x00\x0d\x0e', b':c:\x00\x00\x02\x00\x00\x00', b':c:\x00\x00\x02\x00\x00\x3c',
                                    b':c:\x00\x00\x03\x00\x00\x0d\x3c\x11', b':c:\x00\x00\x03\x00\x00\x3c\x11', b':c:\x00\x01\x00\x00\x00\x0d\x3c\x01')]}


def corpus_cases():
    # minimised past failures (the pre-fix defects)
    yield _texts('corpus', [b'_update60 abc\nif( abc'])                                   # S7: block runs into the suffix
    yield {'k': 'streams', 'group': 'corpus', 'items': [{'n': 6, 's': '0d3c31', 'pad': 0},     # S8: offset 1, length 5
                                                        {'n': 9, 's': '0d0e3c52', 'pad': 3}]}  # offset 2, length 7
    yield _texts('corpus', [b'', b'a', b'print("hi")\n'])                                  # S4: stored uncompressed


# ----------------------------------------------------------------------------- implementation
def _res(fn, *a):
    try:
        return ('OK', fn(*a))
    except Exception as e:  # noqa
        return ('ERR', lib.exc_name(e))


def run_impl(case):
    from pico8.game import compress
    from pico8.game.formatter import p8png
    out = []
    if case['k'] == 'texts':
        for it in case['items']:
            t = lib.unhx(it['t'])
            o = {}
            st, v = _res(compress.compress_code, t)
            o['comp'] = 'OK ' + lib.hx(v) if st == 'OK' else 'ERR ' + v
            if it.get('light'):
                if st == 'OK' and len(t) < 65536:
                    area = MAGIC + bytes([len(t) >> 8, len(t) & 255, 0, 0]) + bytes(v)
                    o['area'] = lib.hx(area)
                    st2, r = _res(compress.decompress_code, area)
                    o['dec'] = 'OK %d %s %d' % (r[0], lib.hx(r[1]), r[2]) if st2 == 'OK' else 'ERR ' + r
            else:
                st1, a = _res(p8png.get_bytes_from_code, t)
                o['gbc'] = 'OK ' + lib.hx(a) if st1 == 'OK' else 'ERR ' + a
                if st1 == 'OK':
                    o['area'] = lib.hx(a)
                    if bytes(a[:4]) == MAGIC:
                        st2, r = _res(compress.decompress_code, a)
                        o['dec'] = 'OK %d %s %d' % (r[0], lib.hx(r[1]), r[2]) if st2 == 'OK' else 'ERR ' + r
                    st3, r = _res(p8png.get_code_from_bytes, list(a), 8)
                    o['gcb'] = 'OK %d %s %s' % (r[0], lib.hx(r[1]), r[2]) if st3 == 'OK' else 'ERR ' + r
                # _find_repeatable_block at a few positions
                if len(t) > 0:
                    ps = sorted(set([0, len(t) - 1, len(t) // 2, (len(t) * 7) // 8, min(len(t) - 1, 3121)]))
                    o['frb'] = []
                    for p in ps:
                        bl, bo = compress._find_repeatable_block(t, p)
                        o['frb'].append([p, bl, bo])
            out.append(o)
            del t                      # nothing keeps the text alive: the next one may get its memory
    elif case['k'] == 'streams':
        for it in case['items']:
            n = it['n']
            cd = MAGIC + bytes([n >> 8, n & 255, 0, 0]) + lib.unhx(it['s']) + bytes(it['pad'])
            st, r = _res(compress.decompress_code, cd)
            out.append({'cd': lib.hx(cd), 'dec': 'OK %d %s %d' % (r[0], lib.hx(r[1]), r[2]) if st == 'OK' else 'ERR ' + r})
    else:
        for it in case['items']:
            cd = lib.unhx(it['cd'])
            st, r = _res(compress.decompress_code, cd)
            o = {'cd': it['cd'], 'dec': 'OK %d %s %d' % (r[0], lib.hx(r[1]), r[2]) if st == 'OK' else 'ERR ' + r}
            st, r = _res(p8png.get_code_from_bytes, list(cd), 8)
            o['gcb'] = 'OK %d %s %s' % (r[0], lib.hx(r[1]), r[2]) if st == 'OK' else 'ERR ' + r
            out.append(o)
    return {'items': out}


# ----------------------------------------------------------------------------- model (correspondence)
def _plan(case, obs):
    """[(request line, expected answer, label)]"""
    plan = []
    for it, o in zip(case['items'], obs['items']):
        if case['k'] == 'texts':
            plan.append(('comp ' + it['t'], o['comp'], 'compress_code'))
            if 'gbc' in o:
                plan.append(('gbc ' + it['t'], o['gbc'], 'get_bytes_from_code'))
            if 'dec' in o:
                plan.append(('dec ' + o['area'], o['dec'], 'decompress_code'))
            if 'gcb' in o:
                plan.append(('gcb %s 8' % o['area'], o['gcb'], 'get_code_from_bytes'))
            for p, bl, bo in o.get('frb', []):
                plan.append(('frb %s %d' % (it['t'], p), '%d %d' % (bl, bo), '_find_repeatable_block'))
        else:
            plan.append(('dec ' + o['cd'], o['dec'], 'decompress_code'))
            if 'gcb' in o:
                plan.append(('gcb %s 8' % o['cd'], o['gcb'], 'get_code_from_bytes'))
    return plan


def model_requests(case, obs):
    if obs.get('timeout'):
        return []
    return [p[0] for p in _plan(case, obs)]


def compare(case, obs, answers):
    if obs.get('timeout'):
        return 'implementation timed out'
    for (req, exp, label), a in zip(_plan(case, obs), answers):
        if a != exp:
            return '%s(%s): implementation %s, model %s' % (label, req[:80], exp[:100], a[:100])
    return None


# ----------------------------------------------------------------------------- monitor
def _mon_plan(case, obs):
    """[(request, item index)]"""
    plan = []
    if obs.get('timeout') or case['k'] == 'raw_areas':
        return plan
    for i, (it, o) in enumerate(zip(case['items'], obs['items'])):
        if case['k'] == 'texts':
            if o['comp'].startswith('OK '):
                plan.append(('stream %s %s' % (it['t'], o['comp'][3:]), i))
            else:
                plan.append(('stream %s ERR' % it['t'], i))            # compress_code must not fail: answers DRIVER-ERROR
            if 'area' in o:
                if 'gbc' in o:
                    plan.append(('area %s %s' % (it['t'], o['area']), i))
                if 'dec' in o:
                    if o['dec'].startswith('OK '):
                        _, cl, code, _cs = o['dec'].split(' ')
                        plan.append(('readback %s %s 0 %s %s' % (it['t'], o['area'], cl, code), i))
                    else:
                        plan.append(('readback %s %s 1 0 -' % (it['t'], o['area']), i))
        else:
            if o['dec'].startswith('OK '):
                _, cl, code, _cs = o['dec'].split(' ')
                plan.append(('agree %d %s 0 %s %s' % (it['n'], it['s'], cl, code), i))
            else:
                plan.append(('agree %d %s 1 0 -' % (it['n'], it['s']), i))
    return plan


def monitor_requests(case, obs):
    return [p[0] for p in _mon_plan(case, obs)]


def _classify(case, it):
    if case['k'] == 'texts':
        t = lib.unhx(it['t'])
        if b'_update60' in t:
            return 'C05/lossless/update60'
        if len(t) == 0:
            return 'C05/lossless/empty'
        return 'C05/lossless/plain'
    s = lib.unhx(it['s'])
    # overlapping reference present?
    i, overlap = 0, False
    while i < len(s):
        if s[i] == 0:
            i += 2
        elif s[i] <= 0x3b:
            i += 1
        else:
            if i + 1 < len(s):
                off = (s[i] - 0x3c) * 16 + (s[i + 1] & 15)
                ln = (s[i + 1] >> 4) + 2
                overlap = overlap or off < ln
            i += 2
    return 'C05/agree/overlapping-reference' if overlap else 'C05/agree/stream'


def minimize(case, obs, answers):
    plan = _mon_plan(case, obs)
    for (req, i), a in zip(plan, answers):
        if a != 'true':
            it = case['items'][i]
            return {'k': case['k'], 'group': case['group'], 'items': [it], 'sig': _classify(case, it),
                    'failed_request': req[:200]}
    return case


def signature(case, obs):
    return case.get('sig') or _classify(case, case['items'][0])


def what(case, obs):
    it = case['items'][0]
    if case['k'] == 'texts':
        return 'compress_code / decompress_code do not carry %r (%s)' % (lib.unhx(it['t'])[:40], signature(case, obs))
    return 'decompress_code disagrees with the :c: format on stream %s n=%d (%s)' % (it['s'][:40], it['n'], signature(case, obs))


def describe(case, obs):
    its = case['items']
    d = {'k': case['k'], 'group': case['group'], 'n_items': len(its)}
    if case['k'] == 'texts':
        d['first'] = [it['t'][:60] for it in its[:2]]
    elif case['k'] == 'streams':
        d['first'] = [[it['n'], it['s'][:60]] for it in its[:2]]
    return d


def nontrivial_key(case, obs):
    return None


def histogram_key(case, obs):
    return case['group']


class _Pre:
    """prop facade whose run_impl returns precomputed observations (the implementation ran in a process pool)"""

    def __init__(self, mod, table):
        self._m = mod
        self._t = table

    def __getattr__(self, n):
        return getattr(self._m, n)

    def run_impl(self, case):
        return self._t[id(case)]


def _safe_impl(case):
    try:
        return lib.with_alarm(CASE_TIMEOUT, run_impl, case)
    except lib.Timeout:
        return {'timeout': True}


def run_cases(cases, ctx):
    import multiprocessing
    mod = __import__('props.c05', fromlist=['x'])
    if len(cases) > 2:
        # heavy cases first so that the pool finishes evenly
        order = sorted(range(len(cases)), key=lambda i: -sum(len(it.get('t', it.get('s', it.get('cd', '')))) ** 2 for it in cases[i]['items']))
        with multiprocessing.get_context('fork').Pool(min(lib.NCPU, 12)) as pool:
            got = pool.map(_safe_impl, [cases[i] for i in order], chunksize=1)
        obs = [None] * len(cases)
        for i, o in zip(order, got):
            obs[i] = o
    else:
        obs = [_safe_impl(c) for c in cases]
    res = lib.standard_run(_Pre(mod, {id(c): o for c, o in zip(cases, obs)}), cases, ctx)
    n = 0
    hist = {}
    keys = set()
    for c in cases:
        n += len(c['items'])
        hist[c['group']] = hist.get(c['group'], 0) + len(c['items'])
        for it in c['items']:
            if c['k'] == 'texts':
                if len(it['t']) >= 6:
                    keys.add(it['t'])
            elif c['k'] == 'streams' and c['group'] != 'malformed':
                keys.add((it['n'], it['s']))
    res['evaluations'] = n
    res['nontrivial'] = len(keys)
    res['histogram'] = hist
    res['exhaustive'] = True        # the small-string group is enumerated completely
    return res


def search(ctx, budget):
    import random
    import time
    rng = random.Random(ctx['seed'] + 1)
    mod = __import__('props.c05', fromlist=['x'])
    t0 = time.time()
    viol, n = [], 0
    bt = boundary_texts()
    first = [_texts('boundary', bt[i:i + 3], light=True) for i in range(0, len(bt), 3)]
    for c in first + list(generate('quick', rng)):
        if time.time() - t0 > budget or viol:
            break
        r = run_cases([c], {'monitor_exe': ctx.get('monitor_exe'), 'model_exe': None})
        n += len(c['items'])
        viol.extend(r['violations'])
    return {'violations': viol, 'evaluations': n}
